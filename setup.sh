#!/bin/bash
# Offline set-up: verifies the interpreter, builds the (performance-only) allocator shim
# and regenerates the Scenic parser from the grammar.  Needs nothing outside /verif, /repo,
# /venv and the pre-installed tooling.
set -e
cd "$(dirname "$0")"
mkdir -p .build evidence replay
/venv/bin/python -c "import scenic, pegen, numpy, trimesh, shapely; print('scenic', scenic.__file__)"
gcc -O2 -shared -fPIC -o .build/arenacache.so mc/arenacache.c || echo "allocator shim not built (performance only)"
/venv/bin/python -c "
import sys; sys.path.insert(0,'.')
from mc import runner; runner.ensure_parser(); print('parser ok')"
python3-vt -c "import jsonschema; print('jsonschema ok')" || echo "jsonschema unavailable: evidence files are not self-validated"
