"""Bounded-exhaustive generators of plain-Python programs for C09 (DESIGN §C09).

Everything here enumerates a finite family completely; nothing samples.

* ``schema()``           -- Python's abstract grammar, derived from the ``ast`` classes
                            (their ``_fields`` and the ASDL signature in ``__doc__``).
* ``triple_jobs(tier)``  -- one job per (parent node type, field, child node type) admitted by
                            the abstract grammar, one per node type for the field-arity product
                            (optional field absent/present, list field with 0/1/2 elements),
                            and, in the thorough tier, the depth-3 closure P.f = K, K.g = L.
* ``realize(job)``       -- builds the ``ast`` trees of a job over the alphabet a, b, c / 1, 'b',
                            None, unparses them with ``ast.unparse`` and embeds each in every
                            statement context that CPython compiles.
* ``operator_programs``  -- every ordered pair of binary / unary / comparison / boolean
                            operators, in both nestings (AST-built, so ``ast.unparse`` inserts
                            exactly the needed parentheses) and as flat text without parentheses
                            (so CPython's own precedence and associativity decide the tree).
* ``surface_programs``   -- text-level forms ``ast.unparse`` never emits: string / f-string
                            literals, implicit concatenation, numeric literals, layouts.
* ``soft_keyword_programs`` -- every Scenic soft keyword in every identifier position of a
                            template list.
* ``embeddings``         -- a Python fragment placed in a Scenic behavior body, a ``require``
                            condition and a specifier argument, with the Python text that puts
                            the same fragment at the same line / column.
"""

import ast
import copy
import itertools
import re

IDS = ("a", "b", "c")
CONSTS = (1, "b", None)

# ---------------------------------------------------------------------------------------
# the abstract grammar


def schema():
    """-> (concrete, sums).  concrete: class name -> [(field, type, quant)] ; sums: sum type
    name -> [constructor class names].  Derived from the ast module itself."""
    concrete, sums = {}, {}
    for name in sorted(dir(ast)):
        cls = getattr(ast, name)
        if not (isinstance(cls, type) and issubclass(cls, ast.AST)) or cls is ast.AST:
            continue
        if cls.__module__ != "ast" or name.startswith("_"):
            continue
        doc = " ".join((cls.__doc__ or "").split())
        if doc.startswith("Deprecated"):
            continue
        m = re.fullmatch(re.escape(name) + r"\((.*)\)", doc)
        if m:
            fields = []
            for part in m.group(1).split(","):
                ty, fname = part.split()
                quant = ""
                if ty[-1] in "?*":
                    ty, quant = ty[:-1], ty[-1]
                fields.append((fname, ty, quant))
            if tuple(f for f, _, _ in fields) != tuple(cls._fields):
                raise RuntimeError(f"ASDL signature of {name} disagrees with _fields")
            concrete[name] = fields
        elif doc == name:
            concrete[name] = []
        else:
            continue  # a sum type (expr, stmt, ...)
        base = cls.__bases__[0]
        if base is not ast.AST:
            sums.setdefault(base.__name__, []).append(name)
    return concrete, sums


CONCRETE, SUMS = schema()
SKIP_TYPES = {"expr_context", "type_ignore", "mod"}
SKIP_PARENTS = {"Expression", "Interactive", "FunctionType", "TypeIgnore"}
PRIMITIVE = {"identifier", "int", "string", "constant"}


def constructors(ty):
    return SUMS.get(ty, [ty])


# ---------------------------------------------------------------------------------------
# building minimal nodes


class Builder:
    """Builds minimal well-formed nodes; identifiers rotate through a, b, c."""

    DEFAULT = {
        "expr": "Name",
        "stmt": "Pass",
        "pattern": "MatchAs",
        "operator": "Add",
        "unaryop": "USub",
        "boolop": "And",
        "cmpop": "Lt",
        "excepthandler": "ExceptHandler",
        "type_param": "TypeVar",
    }
    # list fields that must not be empty: (class, field) -> default length
    NONEMPTY = {
        ("Assign", "targets"): 1,
        ("Delete", "targets"): 1,
        ("Import", "names"): 1,
        ("ImportFrom", "names"): 1,
        ("Global", "names"): 1,
        ("Nonlocal", "names"): 1,
        ("BoolOp", "values"): 2,
        ("Compare", "ops"): 1,
        ("Compare", "comparators"): 1,
        ("With", "items"): 1,
        ("AsyncWith", "items"): 1,
        ("Match", "cases"): 1,
        ("MatchOr", "patterns"): 2,
        ("ListComp", "generators"): 1,
        ("SetComp", "generators"): 1,
        ("DictComp", "generators"): 1,
        ("GeneratorExp", "generators"): 1,
        ("JoinedStr", "values"): 1,
        ("Try", "handlers"): 1,
        ("TryStar", "handlers"): 1,
    }

    def __init__(self):
        self.k = 0

    def ident(self):
        s = IDS[self.k % len(IDS)]
        self.k += 1
        return s

    def prim(self, cls, field, ty, quant):
        if ty == "identifier":
            if quant == "*":
                n = self.NONEMPTY.get((cls, field), 0)
                return [self.ident() for _ in range(n)]
            if quant == "?" and (cls, field) != ("ImportFrom", "module"):
                return None
            return self.ident()
        if ty == "int":
            return {"simple": 1, "is_async": 0, "conversion": -1, "level": 0}.get(field, 0)
        if ty == "string":
            return None
        if ty == "constant":
            return None if cls == "MatchSingleton" else 1
        raise RuntimeError(ty)

    def minimal(self, ty, parent=None, field=None):
        if ty in SUMS:
            if (parent, field) in (
                ("MatchValue", "value"),
                ("MatchMapping", "keys"),
                ("JoinedStr", "values"),
            ):
                return ast.Constant("b" if parent == "JoinedStr" else 1)
            return self.construct(self.DEFAULT[ty])
        return self.construct(ty)

    def construct(self, cls, overrides=None):
        overrides = overrides or {}
        kw = {}
        for fname, ty, quant in CONCRETE[cls]:
            if fname in overrides:
                kw[fname] = overrides[fname]
            elif ty == "expr_context":
                kw[fname] = ast.Load()
            elif ty == "type_ignore":
                kw[fname] = []
            elif ty in PRIMITIVE:
                kw[fname] = self.prim(cls, fname, ty, quant)
            elif quant == "?":
                kw[fname] = None
            elif quant == "*":
                n = self.NONEMPTY.get((cls, fname), 1 if fname == "body" else 0)
                kw[fname] = [self.minimal(ty, cls, fname) for _ in range(n)]
            else:
                kw[fname] = self.minimal(ty, cls, fname)
        return fixup(getattr(ast, cls)(**kw), self)

    def variants(self, cls, fname, ty, quant):
        """All arities of one field: optional absent/present, list of 0/1/2 elements."""
        if ty in ("expr_context", "type_ignore", "string"):
            return [ast.Load() if ty == "expr_context" else ([] if ty == "type_ignore" else None)]
        if ty == "int":
            return {
                "simple": [0, 1],
                "is_async": [0, 1],
                "conversion": [-1, 115, 114, 97],
                "level": [0, 1, 2],
            }.get(fname, [0])
        if ty == "constant":
            if cls == "MatchSingleton":
                return [None, True, False]
            return [1, "b", None, True, False, Ellipsis, 1.5, 2j, b"b", 10**30, "", "\n'\"\\", "\u00e9"]
        mk = (lambda: self.ident()) if ty == "identifier" else (lambda: self.minimal(ty, cls, fname))
        if quant == "?":
            return [None, mk()]
        if quant == "*":
            return [[], [mk()], [mk(), mk()]]
        return [mk()]


def fixup(node, b):
    """Make tied list fields the same length (Dict keys/values, Compare ops/comparators...)."""

    def pad(xs, n, mk):
        while len(xs) < n:
            xs.append(mk())
        del xs[n:]

    t = type(node).__name__
    if t == "Dict":
        pad(node.values, len(node.keys), lambda: b.minimal("expr"))
    elif t == "Compare":
        pad(node.ops, len(node.comparators), lambda: ast.Lt())
    elif t == "arguments":
        pad(node.kw_defaults, len(node.kwonlyargs), lambda: None)
        n = len(node.posonlyargs) + len(node.args)
        del node.defaults[n:]
    elif t == "MatchClass":
        pad(node.kwd_patterns, len(node.kwd_attrs), lambda: b.minimal("pattern"))
    elif t == "MatchMapping":
        pad(node.patterns, len(node.keys), lambda: b.minimal("pattern"))
    return node


# where a node that is neither a statement nor an expression lives
HOME = {
    "arguments": ("FunctionDef", "args", ""),
    "arg": ("arguments", "args", "*"),
    "keyword": ("Call", "keywords", "*"),
    "alias": ("Import", "names", "*"),
    "withitem": ("With", "items", "*"),
    "match_case": ("Match", "cases", "*"),
    "comprehension": ("ListComp", "generators", "*"),
    "ExceptHandler": ("Try", "handlers", "*"),
    "pattern": ("match_case", "pattern", ""),
    "type_param": ("FunctionDef", "type_params", "*"),
    "operator": ("BinOp", "op", ""),
    "unaryop": ("UnaryOp", "op", ""),
    "cmpop": ("Compare", "ops", "*"),
    "boolop": ("BoolOp", "op", ""),
}


def kind_of(cls):
    base = getattr(ast, cls).__bases__[0].__name__
    return cls if base == "AST" else base


def to_stmt(node, b):
    """Climb through HOME until the node is a statement (or a Module)."""
    while True:
        cls = type(node).__name__
        kind = kind_of(cls)
        if kind in ("stmt", "mod"):
            return node
        if kind == "expr":
            return ast.Expr(node)
        home = HOME.get(cls) or HOME[kind]
        pcls, field, quant = home
        node = b.construct(pcls, {field: [node] if quant == "*" else node})


CONTEXTS = (
    ("module", "{S}"),
    ("def", "def f():\n{S1}"),
    ("async", "async def f():\n{S1}"),
    ("loop", "def f():\n    for a in b:\n{S2}"),
    ("class", "class A:\n{S1}"),
    ("nested", "def f():\n    a = b = c = 1\n    def g():\n{S2}"),
)


def indent(text, n):
    pad = "    " * n
    return "\n".join(pad + line if line else line for line in text.split("\n"))


def compiles(src):
    try:
        compile(src, "<gen>", "exec", dont_inherit=True)
        return True
    except (SyntaxError, ValueError, OverflowError, RecursionError):
        return False


def contexts_of(stmt_src):
    """Every statement context in which CPython compiles the statement text."""
    out = []
    for label, tpl in CONTEXTS:
        src = tpl.replace("{S}", stmt_src).replace("{S1}", indent(stmt_src, 1)).replace("{S2}", indent(stmt_src, 2)) + "\n"
        if compiles(src):
            out.append((label, src))
    return out


def node_sources(node, b):
    """node -> [(context label, module source)], [] if CPython rejects it everywhere."""
    try:
        top = to_stmt(node, b)
        if isinstance(top, ast.Module):
            text = ast.unparse(ast.fix_missing_locations(top))
            return [("module", text + "\n")] if compiles(text + "\n") else []
        text = ast.unparse(ast.fix_missing_locations(ast.Module([top], [])))
    except Exception:  # not well-formed enough for ast.unparse: not a program
        return []
    return contexts_of(text)


# ---------------------------------------------------------------------------------------
# jobs


def node_fields(cls):
    return [(f, ty, q) for f, ty, q in CONCRETE[cls] if ty not in SKIP_TYPES and ty not in PRIMITIVE]


def triple_jobs(tier):
    jobs = []
    for P in sorted(CONCRETE):
        if P in SKIP_PARENTS or not CONCRETE[P]:
            continue
        jobs.append(("arity", P))
        for f, ty, q in node_fields(P):
            for K in constructors(ty):
                jobs.append(("triple", P, f, K))
                # depth 3: everywhere in thorough; in quick under the parents that are neither
                # statements nor expressions (arguments, arg, keyword, comprehension, patterns...)
                if tier == "thorough" or kind_of(P) not in ("stmt", "expr", "mod"):
                    for g, ty2, q2 in node_fields(K):
                        for L in constructors(ty2):
                            jobs.append(("depth3", P, f, K, g, L))
    return jobs


ARITY_CAP = 6000


def realize(job):
    """-> (list of (label, source), number of trees built).  Deterministic."""
    b = Builder()
    trees = []
    if job[0] == "triple":
        _, P, f, K = job
        q = dict((x, z) for x, _, z in CONCRETE[P])[f]
        child = b.construct(K)
        trees.append(b.construct(P, {f: [child] if q == "*" else child}))
        if q == "*":  # also not in first position
            b2 = Builder()
            ty = dict((x, y) for x, y, _ in CONCRETE[P])[f]
            trees.append(b2.construct(P, {f: [b2.minimal(ty, P, f), b2.construct(K)]}))
    elif job[0] == "depth3":
        _, P, f, K, g, L = job
        q = dict((x, z) for x, _, z in CONCRETE[P])[f]
        q2 = dict((x, z) for x, _, z in CONCRETE[K])[g]
        gc = b.construct(L)
        child = b.construct(K, {g: [gc] if q2 == "*" else gc})
        trees.append(b.construct(P, {f: [child] if q == "*" else child}))
    elif job[0] == "arity":
        P = job[1]
        per_field = [b.variants(P, f, ty, q) for f, ty, q in CONCRETE[P]]
        n = 1
        for v in per_field:
            n *= len(v)
        if n > ARITY_CAP:
            raise RuntimeError(f"arity product of {P} is {n}")
        names = [f for f, _, _ in CONCRETE[P]]
        for combo in itertools.product(*per_field):
            node = getattr(ast, P)(**copy.deepcopy(dict(zip(names, combo))))
            trees.append(fixup(node, b))
    out, seen = [], set()
    for t in trees:
        for label, src in node_sources(t, b):
            if src not in seen:
                seen.add(src)
                out.append((label, src))
    return out, len(trees)


# ---------------------------------------------------------------------------------------
# operators

BINOPS = {
    "Add": "+", "Sub": "-", "Mult": "*", "MatMult": "@", "Div": "/", "Mod": "%", "Pow": "**",
    "LShift": "<<", "RShift": ">>", "BitOr": "|", "BitXor": "^", "BitAnd": "&", "FloorDiv": "//",
}  # fmt: skip
UNOPS = {"Invert": "~", "Not": "not ", "UAdd": "+", "USub": "-"}
CMPOPS = {
    "Eq": "==", "NotEq": "!=", "Lt": "<", "LtE": "<=", "Gt": ">", "GtE": ">=",
    "Is": "is", "IsNot": "is not", "In": "in", "NotIn": "not in",
}  # fmt: skip
BOOLOPS = {"And": "and", "Or": "or"}


def _check_operator_tables():
    for ty, table in (("operator", BINOPS), ("unaryop", UNOPS), ("cmpop", CMPOPS), ("boolop", BOOLOPS)):
        if sorted(SUMS[ty]) != sorted(table):
            raise RuntimeError(f"operator table for {ty} out of date")


_check_operator_tables()


def _mk(kind, op, xs):
    o = getattr(ast, op)()
    if kind == "bin":
        return ast.BinOp(xs[0], o, xs[1])
    if kind == "un":
        return ast.UnaryOp(o, xs[0])
    if kind == "cmp":
        return ast.Compare(xs[0], [o], [xs[1]])
    return ast.BoolOp(o, [xs[0], xs[1]])


def operator_programs(tier):
    """[(label, source)] -- all ordered operator pairs, both nestings + flat text."""
    ops = (
        [("bin", o) for o in BINOPS]
        + [("un", o) for o in UNOPS]
        + [("cmp", o) for o in CMPOPS]
        + [("bool", o) for o in BOOLOPS]
    )
    out = []
    N = lambda s: ast.Name(s, ast.Load())
    for (k1, o1), (k2, o2) in itertools.product(ops, ops):
        arity = 1 if k1 == "un" else 2
        for pos in range(arity):
            inner = _mk(k2, o2, [N("a"), N("b")])
            xs = [N("c"), N("c")]
            xs[pos] = inner
            tree = ast.Module([ast.Expr(_mk(k1, o1, xs))], [])
            src = ast.unparse(ast.fix_missing_locations(tree)) + "\n"
            out.append((f"nest:{o1}[{pos}]<-{o2}", src))
    infix = list(BINOPS.values()) + list(CMPOPS.values()) + list(BOOLOPS.values())
    prefix = list(UNOPS.values()) + ["await "]
    flat = []
    for x, y in itertools.product(infix, infix):
        flat.append(f"a {x} b {y} c")
    for p, x in itertools.product(prefix, infix):
        flat.append(f"{p}a {x} b")
        flat.append(f"a {x} {p}b")
    for p, q in itertools.product(prefix, prefix):
        flat.append(f"{p}{q}a")
    for x in infix:
        flat += [
            f"a {x} b if c else a", f"a if b else c {x} a", f"a if b {x} c else a",
            f"lambda: a {x} b", f"a {x} (lambda: b)", f"(a := b {x} c)", f"[*a {x} b]" , f"f(*a {x} b)",
            f"f(**a {x} b)", f"a[b {x} c]", f"a {x} b.c", f"a {x} b(c)", f"a {x} b[c]", f"(yield a {x} b)",
            f"a {x} (yield)",
        ]  # fmt: skip
    if tier == "thorough":
        for x, y, z in itertools.product(infix, infix, infix):
            flat.append(f"a {x} b {y} c {z} a")
        for p, x, q in itertools.product(prefix, infix, prefix):
            flat.append(f"{p}a {x} {q}b")
    for e in flat:
        for label, src in (("flat", e + "\n"), ("flat-async", "async def f():\n    " + e + "\n"), ("flat-def", "def f():\n    " + e + "\n")):
            if compiles(src):
                out.append((label, src))
                break
    return out


# ---------------------------------------------------------------------------------------
# text-level forms


def surface_programs(tier):
    out = []
    # --- f-string replacement fields and literal parts: all ordered pairs -----------------
    parts = [
        "", "x", "{{", "}}", "{a}", "{a!r}", "{a!s}", "{a!a}", "{a=}", "{a = }", "{a=!s}", "{a=:>3}",
        "{a:>3}", "{a:{b}}", "{a!r:^{b}}", "{a:{b}.{c}}", "{a:%Y-%m-%d}", "{a,}", "{*a,}", "{a if b else c}",
        "{(a:=1)}", "{a:=^3}", "{ a }", "{a[1]}", "{a.b}", "{a(b)}", "{-a}", "{a + b}", "{(lambda: a)}",
        "{a!r:}", "{a:}", "{{{a}}}", "{a}}}", "\\n", "{a:\\n}", "é", "{'b'}",
    ]  # fmt: skip
    prefixes = ["f", "F", "rf", "fr", "Rf"]
    quotes = ['"', '"""']
    pairs = list(itertools.product(parts, parts)) if tier == "thorough" else (
        [(p, "") for p in parts] + [("x", p) for p in parts] + [(p, "{a}") for p in parts] + [(p, "x") for p in parts]
    )
    for (p, q), pre, qu in itertools.product(pairs, prefixes if tier == "thorough" else ["f", "rf"], quotes):
        out.append(("fstring", f"x = {pre}{qu}{p}{q}{qu}\n"))
    for p in parts:
        out.append(("fstring-nested", f"x = f\"{{f'{p}'}}\"\n"))
        out.append(("fstring-multiline", f'x = f"""\n{p}\n{{a}}\n"""\ny = a\n'))
    # --- plain string literals ---------------------------------------------------------
    sprefixes = ["", "r", "b", "rb", "Rb", "u", "U", "B", "bR"]
    bodies = ["", "b", "\\n", "\\x41", "\\\\", "'", "{a}", "\\N{DASH}", "\\u00e9", "\\101", "\\\n"]
    for pre, body, qu in itertools.product(sprefixes, bodies, ['"', "'''"]):
        out.append(("string", f"x = {pre}{qu}{body}{qu}\n"))
    # --- implicit concatenation: all ordered pairs / a few triples of literal kinds ----------
    lits = ['"b"', "'c'", 'f"{a}"', 'f"x{a}y"', 'f""', '""', 'r"\\d"', 'u"b"', '"""b\nc"""', 'f"""{a}\n"""', "'é'", 'f"{a!r}"']
    blits = ['b"b"', "b'c'", 'rb"\\d"', 'b""']
    seps = [" ", "  ", " \\\n    "]
    for fam in (lits, blits):
        for x, y in itertools.product(fam, fam):
            for sep in seps:
                out.append(("concat", f"x = {x}{sep}{y}\n"))
            out.append(("concat-paren", f"x = ({x}\n     {y})\n"))
            out.append(("concat-arg", f"f({x} {y}, a)\n"))
        if tier == "thorough":
            for x, y, z in itertools.product(fam, fam, fam):
                out.append(("concat3", f"x = ({x} {y}\n  {z})\n"))
    # --- numeric literals ---------------------------------------------------------------
    nums = [
        "0", "1", "00", "1_000", "0x1F", "0X1f", "0o17", "0O17", "0b101", "0B1_0", "1.", ".5", "1.5", "1e3", "1E-3",
        "1_0.0_1e+1_0", "1j", "1J", "1.5j", "1e3j", ".5j", "0j", "0_0", "0xdead_beef", "123456789012345678901234567890",
        "1e400", "0.1e-400",
    ]  # fmt: skip
    for n in nums:
        out += [("number", f"x = {n}\n"), ("number", f"x = -{n}\n"), ("number", f"({n}).real\n"), ("number", f"{n} .real\n"),
                ("number", f"x = {n} if {n} else {n}\n"), ("number", f"x = [{n},{n}]\n"), ("number", f"x = a[{n}:{n}]\n")]  # fmt: skip
    # --- layouts: statement pairs x separators x block styles x line endings ---------------
    simple = ["a", "a = 1", "a += b", "pass", "del a", "import a", "a: b", "a: b = 1", "assert a, b", "global a", "a = yield",
              "return", "return a, *b", "raise", "raise a from b", "break", "continue", "a = b = c", "a, b = c", "(a) = 1",
              "[a, *b] = c", "a.b = 1", "a[b] = 1", "a[b:c, ...] = 1", "print >>a, b", "a = b,", "*a, = b", "x = (\n a,\n b,\n)",
              "x = [\n a,\n]", "x = {\n a: b,\n}", "x = a \\\n  + b", "f(\n a,\n b=c,\n *a,\n **b\n)", "x = (  # c\n a)"]  # fmt: skip
    heads = ["if a:", "while a:", "for a in b:", "with a:", "with a as b, c as a:", "with (a as b, c as a):", "with (a, b):",
             "with (a):", "try:", "def f():", "def f(a, /, b=1, *c, d, e=2, **g) -> a:", "class A:", "class A(b, c=a):",
             "class A():", "async def f():", "def f[T: a, *U, **V](x: T) -> T:", "class A[T](b):", "@a\ndef f():",
             "@a.b(c)\n@(lambda f: f)\nclass A:", "match a:\n case b:", "match a, b:\n case [c, *_] | {1: _, **c} if a:",
             "match (a):\n case A(b, c=1) as a:", "for a, in b:", "for *a, b in c:", "for (a) in b, c:", "if (a := b):",
             "while a if b else c:", "async def f():\n async with a as b:", "async def f():\n async for a in b:",
             "def f():\n for a in b:", "lambda: (yield)\ndef g():"]  # fmt: skip
    tails = {"if a:": ["", "else:", "elif b:", "elif b:\n{B}else:"], "while a:": ["", "else:"], "for a in b:": ["", "else:"],
             "try:": ["except:", "except a:", "except a as b:", "except (a, b):", "finally:", "except a:\n{B}else:\n{B}finally:",
                      "except* a:", "except* (a, b) as c:", "except a:\n{B}except b:"]}  # fmt: skip
    units = ["    ", " ", "\t", "        "]
    for h in heads:
        for body in simple:
            if "\n" in body and tier != "thorough":
                continue
            for unit in units if tier == "thorough" else units[:2]:
                depth = h.count("\n") + 1
                lines = h.split("\n")
                text = ""
                for i, line in enumerate(lines):
                    text += unit * i + line.strip() + "\n"
                blk = "".join(unit * depth + b + "\n" for b in body.split("\n"))
                for tail in tails.get(h, [""]):
                    t = text + blk
                    if tail:
                        t += tail.replace("{B}", blk) + "\n" + blk
                    out.append(("layout", t))
            if "\n" not in h and "\n" not in body and h not in tails:
                out.append(("layout-oneline", f"{h} {body}\n"))
                out.append(("layout-oneline", f"{h} {body}; {body};\n"))
    for x, y in itertools.product(simple, simple):
        if "\n" in x or "\n" in y:
            continue
        for sep in ("; ", "\n", "\n\n# c\n", ";\n", "  # c\n", "\n\x0c\n", "\r\n"):
            out.append(("layout-seq", f"def f():\n  for a in b:\n    {x}{sep.replace(chr(10), chr(10) + '    ') if sep != '; ' else sep}{y}\n"))
    for body in simple:
        if "\n" in body:
            continue
        b2 = f"def f():\n  for a in b:\n    {body}"
        out += [("layout-eof", b2), ("layout-eof", b2 + "\n\n\n"), ("layout-eof", b2 + "\n  # c"), ("layout-eof", b2 + "\n    "),
                ("layout-eof", b2 + " \\\n\n"), ("layout-crlf", b2.replace("\n", "\r\n") + "\r\n"), ("layout-eof", "\n\n" + b2 + "\n"),
                ("layout-eof", "#!x\n# -*- coding: utf-8 -*-\n" + b2 + "\n"), ("layout-dedent2", b2 + "\na\n"),
                ("layout-dedent2", b2 + "\n  b\n")]  # fmt: skip
    # --- argument lists and parameter lists: every ordering CPython accepts ---------------
    # (ast.unparse normalises the order of starred and keyword arguments, so the ASDL-driven
    # programs never contain e.g. a starred argument after a keyword one)
    arg_kinds = ["a", "*r", "k=1", "**kw", "*s", "j=2", "b"]
    n_args = 4 if tier == "thorough" else 3
    for n in range(0, n_args + 1):
        for seq in itertools.product(arg_kinds, repeat=n):
            if len(set(seq)) != len(seq):
                continue
            args = ", ".join(seq)
            out.append(("call-args", f"x = f({args})\n"))
            out.append(("call-args", f"class A({args}): pass\n"))
            if tier == "thorough" or n <= 2:
                out.append(("call-args", f"@d({args})\ndef g(): pass\n"))
                out.append(("call-args", f"x = f({args},)\n") if seq else ("call-args", "x = f()\n"))
    param_kinds = ["a", "b=1", "/", "*", "*v", "c", "d=2", "**kw", "e: int", "g: int = 3"]
    n_params = 5 if tier == "thorough" else 4
    for n in range(0, n_params + 1):
        for seq in itertools.product(param_kinds, repeat=n):
            if len(set(seq)) != len(seq):
                continue
            ps = ", ".join(seq)
            out.append(("def-params", f"def f({ps}): pass\n"))
            if not any(":" in x for x in seq):
                out.append(("def-params", f"x = lambda {ps}: 0\n"))
            if tier == "thorough":
                out.append(("def-params", f"async def f({ps}): pass\n"))
    res, seen = [], set()
    for label, src in out:
        if src not in seen and compiles(src):
            seen.add(src)
            res.append((label, src))
    return res


SOFT_TEMPLATES = [
    "{k} = 1", "a = {k}", "{k}(a)", "{k} (a)", "{k} (a).b", "a.{k}", "a.{k}.b", "{k}.a", "{k}[a]", "{k} [a]", "-{k}", "{k} - a",
    "{k} -a", "{k} +a", "{k} ~a" , "a - {k}", "a({k}=1)", "a({k})", "a(*{k})", "a(**{k})", "def {k}(): pass", "def f({k}): pass",
    "def f(*, {k}=1): pass", "def f(*{k}, **a): pass", "class {k}: pass", "class A({k}): pass", "import {k}", "import a as {k}",
    "import {k}.a", "from {k} import a", "from a import {k}", "from a import b as {k}", "{k}: a = 1", "{k}: a", "for {k} in a: pass",
    "for a in {k}: pass", "lambda {k}: {k}", "[{k} for {k} in a]", "[a for a in {k} if {k}]", "{k} if {k} else {k}", "a if {k} else b",
    "{k} and {k}", "{k} or a", "not {k}", "{k} in a", "a in {k}", "a not in {k}", "{k} is a", "{k} is not a", "{k}, a = 1, 2",
    "del {k}", "def f():\n    global {k}", "with a as {k}: pass", "with {k}: pass", "try: pass\nexcept a as {k}: pass",
    "try: pass\nexcept {k}: pass", "{k} += 1", "a += {k}", "{k}", "{k}; {k}", "def f():\n    return {k}", "def f():\n    yield {k}",
    "assert {k}", "assert a, {k}", "raise {k}", "raise a from {k}", "{k} @ a", "a[{k}]", "a[{k}:{k}]", "{{k}: {k}}", "{{k}}",
    "f'{{k}}'", "f'{{k}!s}'", "f'{{k}=}'", "f'{a:{k}}'", "{k} * a", "{k} ** a", "a ** {k}", "{k} < a", "a < {k}", "({k})", "({k},)", "[{k}]", "if {k}: pass",
    "while {k}: pass", "match {k}:\n    case {k}: pass", "match a:\n    case A({k}=1): pass", "match a:\n    case {k}.b: pass",
    "{k} = {k}", "a = {k} -1", "a = {k} (b)", "a = b if {k} (c) else c", "({k} := 1)", "a = [{k} (b) for b in c]", "@{k}\ndef f(): pass",
    "@a.{k}\ndef f(): pass", "class A:\n    {k} = 1", "class A:\n    def {k}(self): pass", "class A:\n    {k}: a", "class A:\n    {k}: a = 1",
    "async def f():\n    await {k}", "{k}.a = 1", "{k}[a] = 1", "{k}.a(b)", "{k}.a.b (c)", "type {k} = a", "def f[{k}](): pass", "{k} = a = {k}",
    "a = {k} = 1", "print({k}, {k})", "a = {k}\n{k}\n", "if a:\n    {k}\nelse:\n    {k} (b)", "def f():\n    nonlocal_ = {k}\n    return {k} (a)",
]  # fmt: skip


def soft_keyword_programs(soft_keywords):
    out, seen = [], set()
    for k in soft_keywords:
        for t in SOFT_TEMPLATES:
            src = t.replace("{k}", k) + "\n"
            if src not in seen and compiles(src):
                seen.add(src)
                out.append((f"soft:{k}", src))
    return out


REWRITE_NAMES = ("str", "int", "float", "ego", "workspace", "globalParameters", "Object", "callWithStarArgs",
                 "wrapStarredValue", "_toStrScenic", "_scenic_properties", "self")  # fmt: skip
REWRITE_TEMPLATES = [
    "{n}(a)", "{n}()", "{n}(*a)", "{n}(a, *b, c=1, **a)", "x = {n}", "x = {n}.a", "x = a.{n}", "a.{n}(b)", "a.{n}.b(c)",
    "a.{n}(*b)", "{n}.a(b)", "{n}.{n}({n})", "f({n}=1)", "f({n})", "f(*{n})", "f(**{n})", "f({n}(a))", "{n}({n}(a))",
    "[{n}(a) for a in b]", "lambda: {n}(a)", "lambda a: {n}", "def f(a={n}): return {n}(a)", "def f():\n    return {n}",
    "@{n}\ndef f(): pass", "@a.{n}(b)\ndef f(): pass", "class A({n}): pass", "class A(a.{n}): pass", "x[{n}]", "x[{n}(a)]",
    "x = {n} if {n} else {n}", "x = {n} + {n}(a)", "f'{{n}}'", "f'{{n}(a)}'", "x = ({n})(a)", "x = {n} (a) (b)", "del a[{n}]",
    "with {n}(a) as b: pass", "for a in {n}: pass", "for a in {n}(b): pass", "assert {n}, {n}(a)", "x = [{n}, *{n}]",
    "x = {{n}: {n}}", "print({n}, sep={n})", "a = b = {n}(c)", "a += {n}(b)", "a: {n} = {n}(b)", "def f(a: {n}) -> {n}: pass",
    "try: pass\nexcept {n}: pass", "raise {n}(a) from {n}", "x = {n}.a[b](c)", "global_{n} = 1", "x = a.b.{n}",
    "import a.{n}", "from a import {n} as b", "class A:\n    def f(self): return {n}(self)",
]  # fmt: skip
CLASS_FORMS = [
    "class A: pass", "class A(): pass", "class A(b): pass", "class A(b, c): pass", "class A(metaclass=b): pass",
    "class A(b, metaclass=c): pass", "class A(*b): pass", "class A(**b): pass", "class A:\n    a = 1\n    def f(self): pass",
    "class A:\n    class B: pass", "class A:\n    class B(c):\n        class C: pass", "def f():\n    class A: pass\n    return A",
    "@a\nclass A: pass", "class A[T]: pass", "class A:\n    \"\"\"b\"\"\"", "class A:\n    \"\"\"b\"\"\"\n    a = 1", "class A: a = 1; b = 2",
    "class A:\n    pass\n\n\nclass B(A):\n    pass", "class A:\n    if a:\n        b = 1\n    else:\n        b = 2",
    "x = type('A', (), {})", "class A: ...", "class A:\n    a: b\n    c = 1", "class A:\n    c = 1\n    a: b\n    d = 2",
    "class A:\n    a: b = 1\n    c: b", "class A:\n    def f(self):\n        a: b = 1",
]  # fmt: skip


def rewrite_programs():
    """Every name involved in a documented rewrite in every syntactic position of a template
    list, and every shape of class header / body (the class rewrite)."""
    out, seen = [], set()
    for n in REWRITE_NAMES:
        for t in REWRITE_TEMPLATES:
            src = t.replace("{n}", n) + "\n"
            if src not in seen and compiles(src):
                seen.add(src)
                out.append((f"rewrite:{n}", src))
    for t in CLASS_FORMS:
        src = t + "\n"
        if src not in seen and compiles(src):
            seen.add(src)
            out.append(("rewrite:class", src))
    return out


# ---------------------------------------------------------------------------------------
# embeddings of Python fragments in Scenic constructs

SPEC_PREFIX = "ego = new Object with foo "
REQ_PREFIX = "require "


def embeddings(kind, frag):
    """kind 'expr': frag is a one-line expression text.  kind 'stmt': statement text.
    -> list of (where, scenic source, python source with identical line/column layout)."""
    out = []
    if kind == "expr":
        if "\n" in frag:
            return out
        out.append(("require", REQ_PREFIX + frag + "\n", "assert " + " " * (len(REQ_PREFIX) - 7) + frag + "\n"))
        out.append(("specifier", SPEC_PREFIX + frag + "\n", "x" * (len(SPEC_PREFIX) - 4) + " = (" + frag + ")\n"))
        out.append(("behavior", "behavior f():\n    " + frag + "\n", "def f():\n    " + frag + "\n"))
    else:
        out.append(("behavior", "behavior f():\n" + indent(frag, 1) + "\n", "def f():\n" + indent(frag, 1) + "\n"))
        out.append(("monitor", "monitor f():\n" + indent(frag, 1) + "\n", "def f():\n" + indent(frag, 1) + "\n"))
    return out
