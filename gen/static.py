"""Bounded-exhaustive generator of finite-discrete static Scenic programs (DESIGN §2.3).

A program is a list of statements in a small SSA-like IR (see models/dist.py); the
generator enumerates *all* programs of the fragment up to the size bound, simplest
first, and ``render`` turns one into Scenic source text.
"""

import itertools

N = lambda name: ("n", name)

PRELUDE = """\
from scenic.core.distributions import distributionFunction
@distributionFunction
def f(v):
    return v * 2 + 1
@distributionFunction
def g(v):
    return v * v
"""


def _r(o):
    if isinstance(o, tuple) and len(o) == 2 and o[0] == "n":
        return o[1]
    return repr(o)


def render_expr(e):
    k = e[0]
    if k == "uniform":
        return "Uniform(" + ", ".join(_r(o) for o in e[1:]) + ")"
    if k == "discrete":
        return "Discrete({" + ", ".join(f"{v!r}: {w!r}" for v, w in e[1]) + "})"
    if k == "range":
        return f"DiscreteRange({_r(e[1])}, {_r(e[2])})"
    if k == "resample":
        return f"resample({e[1]})"
    if k == "bin":
        return f"({_r(e[2])} {e[1]} {_r(e[3])})"
    if k == "un":
        return f"(-{_r(e[2])})" if e[1] == "neg" else f"abs({_r(e[2])})"
    if k == "call":
        return f"{e[1]}({_r(e[2])})"
    if k == "optidx":
        return "Uniform(" + ", ".join(repr(list(o)) for o in e[1]) + f")[{e[2]}]"
    if k == "vecattr":
        return "Uniform(" + ", ".join(f"({o[0]} @ {o[1]})" for o in e[1]) + f").{e[2]}"
    if k == "listopt":
        return "Uniform(" + ", ".join(repr(list(o)) for o in e[1]) + ")"
    if k == "starunif":
        return f"Uniform(*{_r(e[1])})"
    if k == "tuple":
        return "(" + ", ".join(_r(o) for o in e[1:]) + ",)"
    if k == "getitem":
        return f"{_r(e[1])}[{_r(e[2])}]"
    raise ValueError(k)


def render(prog, prelude=True):
    lines = [PRELUDE] if prelude else []
    nobj = 0
    for st in prog:
        k = st[0]
        if k == "let":
            lines.append(f"{st[1]} = {render_expr(st[2])}")
        elif k == "require":
            _, p, (op, a, b) = st
            head = "require" if p is None else f"require[{p}]"
            lines.append(f"{head} {_r(a)} {op} {_r(b)}")
        elif k == "param":
            lines.append(f"param {st[1]} = {_r(st[2])}")
        elif k == "object":
            props = ", ".join(f"with {p} {_r(o)}" for p, o in st[2])
            tgt = "ego" if st[1] == 0 else f"ob{st[1]}"
            lines.append(
                f"{tgt} = new Object at ({10 * st[1]}, 0, 0), with allowCollisions True, {props}"
            )
            nobj += 1
        elif k == "setego":
            lines.append(f"ego = ob{st[1]}")
    if nobj == 0:
        lines.append("ego = new Object")
    return "\n".join(lines) + "\n"


# ---- enumeration -------------------------------------------------------------------

LEAVES_Q = [
    ("uniform", 1, 2, 3),
    ("discrete", ((1, 1), (2, 3))),
    ("range", 0, 2),
]
LEAVES_T = LEAVES_Q + [
    ("uniform", 0.5, 1.5),
    ("uniform", 0, 2),
    ("discrete", ((0, 2), (1, 1), (3, 1))),
    ("range", -1, 2),
    ("uniform", 1, 1, 2),
]


def dependent(names, prims, thorough):
    """Expressions over already bound names."""
    out = []
    for a in names:
        out += [
            ("range", 1, N(a)),
            ("range", N(a), 2),
            ("uniform", N(a), 5),
            ("bin", "+", N(a), 1),
            ("bin", "-", 2, N(a)),
            ("bin", "*", N(a), 2),
            ("bin", "//", N(a), 2),
            ("bin", "%", N(a), 2),
            ("un", "neg", N(a)),
            ("un", "abs", ("n", a)),
            ("call", "f", N(a)),
            ("tuple", N(a), 7),
            # mixed int / float operands (reflected-operator fallback of lifted operators)
            ("bin", "-", N(a), 0.5),
            ("bin", "-", 0.5, N(a)),
            ("bin", "/", N(a), 2.0),
            ("bin", "**", 2.0, N(a)),
        ]
        if thorough:
            out += [
                ("range", 0, N(a)),
                ("bin", "-", N(a), 2),
                ("bin", "+", 0, N(a)),
                ("bin", "*", 1, N(a)),
                ("bin", "%", 5, N(a)),
                ("call", "g", N(a)),
                ("uniform", N(a), N(a), 0),
                ("bin", "%", N(a), 1.5),
                ("bin", "//", N(a), 0.5),
                ("bin", "**", N(a), 2),
                ("bin", "/", 3.0, ("n", a)) if False else ("bin", "-", 1.5, N(a)),
            ]
    for a in prims:
        out.append(("resample", a))
    for a, b in itertools.permutations(names, 2):
        out += [("bin", "+", N(a), N(b)), ("bin", "-", N(a), N(b)), ("bin", "*", N(a), N(b))]
        out += [("uniform", N(a), N(b)), ("range", N(a), N(b)), ("tuple", N(a), N(b))]
    for a in names:
        out.append(("bin", "+", N(a), N(a)))
        out.append(("bin", "-", N(a), N(a)))
    return out


SPECIAL = [
    ("optidx", ((1, 2), (3, 4), (5, 6)), 0),
    ("vecattr", ((1, 2), (3, 4)), "y"),
]


def is_prim(e):
    return e[0] in ("uniform", "discrete", "range", "resample")


def is_scalar(e):
    return e[0] not in ("tuple", "listopt")


def let_sequences(nlets, thorough):
    """All sequences of nlets bindings x0.. (first one a leaf)."""
    leaves = LEAVES_T if thorough else LEAVES_Q

    def rec(seq):
        if len(seq) == nlets:
            yield list(seq)
            return
        i = len(seq)
        names = [f"x{j}" for j in range(i) if is_scalar(seq[j])]
        prims = [f"x{j}" for j in range(i) if is_prim(seq[j])]
        cands = list(leaves)
        if i == 0:
            cands = cands + SPECIAL + [("listopt", ((1, 2), (3,)))]
        else:
            cands = cands + dependent(names, prims, thorough)
            for j in range(i):
                if seq[j][0] == "listopt":
                    cands.append(("starunif", N(f"x{j}")))
                if seq[j][0] == "tuple":
                    cands.append(("getitem", N(f"x{j}"), 0))
        for c in cands:
            # an independent leaf after the first position is only interesting combined
            yield from rec(seq + [c])

    yield from rec([])


def requirement_sets(names, thorough):
    """Lists of require statements over scalar names."""
    if not names:
        return [[]]
    last = names[-1]
    first = names[0]
    conds = [("<", N(last), 2), ("!=", N(first), 1)]
    if len(names) > 1:
        conds.append(("==", N(first), N(last)))
    if thorough:
        conds += [(">=", N(last), 1), ("<=", N(first), N(last))]
    out = [[]]
    for c in conds:
        out.append([("require", None, c)])
        out.append([("require", 0.5, c)])
    for c1, c2 in itertools.permutations(conds, 2):
        out.append([("require", None, c1), ("require", 0.25, c2)])
        if thorough:
            out.append([("require", 0.5, c1), ("require", 0.25, c2)])
            out.append([("require", None, c1), ("require", None, c2)])
            out.append([("require", 1, c1), ("require", 0.75, c2)])
    return out


def programs(tier):
    """Yield (index, prog) simplest first."""
    thorough = tier == "thorough"
    idx = 0
    maxlets = 3
    for nlets in range(1, maxlets + 1):
        for seq in let_sequences(nlets, thorough):
            if nlets == 3:
                # third binding must combine the two earlier ones (an operator
                # over both) -- unary forms over one name were covered at nlets == 2
                e = seq[2]
                refs = {o[1] for o in e[1:] if isinstance(o, tuple) and len(o) == 2 and o[0] == "n"}
                if len(refs) < 2 and e[0] != "resample":
                    continue
                if seq[1][0] in ("tuple",) or e[0] == "tuple":
                    continue
            scal = [f"x{j}" for j in range(nlets) if is_scalar(seq[j])]
            lets = [("let", f"x{j}", seq[j]) for j in range(nlets)]
            rsets = requirement_sets(scal, thorough)
            if nlets == 3 and thorough:
                rsets = rsets[:1] + rsets[1:10:2] + rsets[-4:]
            elif nlets == 3:
                rsets = rsets[:1] + rsets[1:6:2] + rsets[-2:]
            for reqs in rsets:
                obs = [("param", f"p{j}", N(f"x{j}")) for j in range(nlets)]
                prog = lets + list(reqs) + obs
                if scal:
                    prog.append(("object", 0, [("foo", N(scal[-1]))]))
                yield idx, prog
                idx += 1
                # variant: rebind the first name after the requirements (closures must
                # keep the value the name had at the time of the statement)
                if reqs and nlets <= 2 and is_scalar(seq[0]):
                    prog2 = (
                        lets
                        + list(reqs)
                        + [("let", "x0", ("uniform", 8, 9))]
                        + obs
                        + [("object", 0, [("foo", N("x0"))]), ("object", 1, [("bar", N(scal[-1]))])]
                    )
                    yield idx, prog2
                    idx += 1
    # `ego` rebound after a requirement that mentions it: the requirement keeps talking about
    # the object `ego` named when the statement was executed
    leaves = (LEAVES_T if thorough else LEAVES_Q)
    conds = [(">=", 2), ("!=", 1), ("<", 2)] if thorough else [(">=", 2), ("!=", 1)]
    for l1, l2 in itertools.product(leaves, repeat=2):
        for (op, c), p in itertools.product(conds, (None, 0.5)):
            for second in (None, ("!=", 2)):
                prog = [
                    ("let", "x0", l1),
                    ("let", "x1", l2),
                    ("object", 1, [("foo", N("x0"))]),
                    ("setego", 1),
                    ("require", p, (op, N("ego.foo"), c)),
                    ("object", 2, [("foo", N("x1"))]),
                    ("setego", 2),
                ]
                if second:
                    prog.append(("require", None, (second[0], N("ego.foo"), second[1])))
                prog += [("param", "p0", N("x0")), ("param", "p1", N("x1"))]
                yield idx, prog
                idx += 1
