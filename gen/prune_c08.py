"""gen/prune_c08.py -- bounded-exhaustive generator of Scenic programs exercising pruning (C08).

Every program is a dict  {id, family, tag, text, mode2D, dim, quick}.
`tag` names the construct(s) in which the program differs from its family's default (it goes
into violation signatures).  `programs(tier)` returns the complete list for the tier: the
quick tier is the sub-list marked quick (every alphabet symbol occurs at least once in it),
the thorough tier is everything.

Families
  cont2d   object `in`/`on` a polygonal region (rectangle / notch / multipolygon / small),
           container kinds (workspace = same region, other polygon, regionContainedIn,
           box volume, none), size alphabet, yaw alphabet, offset alphabet
  cont3d   object in a BoxRegion / MeshVolumeRegion inside a box workspace
  rh       two objects on a PolygonalVectorField; every `require` form bounding
           `relative heading of` and `distance to` (and neighbours the matcher must ignore)
  rh3      three objects on the field: relative-heading requirement between A and T x distance
           bound to T / to a third object N / to both with different constants / stated from
           N's side / owned by T / from visibility of N, N fixed, in its own region or on the
           field; two relative-heading requirements on A with different targets
  vis      `visible`, `visible from`, `requireVisible`, `not visible`, visibleDistance
           alphabet (incl. < 1), view cones, a second object as observer
  vism     2-3 objects observed from ONE viewpoint (all `requireVisible`, `visible`, `visible from`
           the same fixed / random observer, mixed) with clearly different radius + offset, all
           creation orders, optionally a non-visible object in between
  contm    2-3 objects of different inradius / offset in the same container, all orders
  conto    one object in a polygonal workspace (wide / corridor): orientation alphabet (none, yaw,
           pitch, roll, pitch+roll, random roll, random pitch) x shape (cube, plate, pole)
  mode2d   the same constructs in 2D compatibility mode
"""

from __future__ import annotations

import itertools

# ------------------------------------------------------------------------------------------
# cont2d
# ------------------------------------------------------------------------------------------
REGIONS = {
    "rect": "R = PolygonalRegion([0@0, 8@0, 8@6, 0@6])",
    "notch": "R = PolygonalRegion([0@0, 8@0, 8@6, 5@6, 5@3, 3@3, 3@6, 0@6])",
    "multi": "R = PolygonalRegion([0@0, 3@0, 3@6, 0@6]).union(PolygonalRegion([5@0, 8@0, 8@6, 5@6]))",
    "small": "R = PolygonalRegion([2.2@1.2, 3.1@1.2, 3.1@1.9, 2.2@1.9])",
}

# container id -> (lines before the object, specifier added to the object, region used by `in`)
CONTAINERS = {
    "same": ("workspace = Workspace(R)", "", "workspace"),
    "other": ("workspace = Workspace(PolygonalRegion([2@1, 12@1, 12@8, 2@8]))", "", "R"),
    "contained": (
        "workspace = Workspace(PolygonalRegion([-20@-20, 30@-20, 30@30, -20@30]))\nC = PolygonalRegion([2@1, 12@1, 12@8, 2@8])",
        "with regionContainedIn C",
        "R",
    ),
    "box": ("workspace = Workspace(BoxRegion(dimensions=(8, 5, 4), position=(5, 3.5, 1)))", "", "R"),
    "none": ("", "", "R"),
}

SIZES = {
    "unit": "",
    "wide": "with width 2, with length 0.6",
    "tiny": "with width 0.3, with length 0.3, with height 0.3",
    "rand": "with width Range(0.4, 2.2)",
}

YAWS = {
    "y0": "",
    "y40": "facing 40 deg",
    "yr": "facing Range(-30 deg, 60 deg)",
}

# placement id -> template with {reg}
PLACES = {
    "in": "in {reg}",
    "on": "on {reg}",
    "onb": "on {reg}, with baseOffset (0.1, 0, -0.5), with contactTolerance 0",
    "offs": "at (new Point in {reg}) offset by (0.2, 0.1)",
    "offl": "at (new Point in {reg}) offset by (3, 0)",
    "offr": "at (new Point in {reg}) offset by (Range(-0.3, 0.3), Range(0, 0.2))",
    "offR": "at (new Point in {reg}) offset by (Range(1, 3), 0)",
}


def _join(*parts):
    return ", ".join(p for p in parts if p)


def cont2d(region, container, place, size, yaw, quick=False, default=("rect", "other", "in", "unit", "y0")):
    pre, spec, reg = CONTAINERS[container]
    lines = [REGIONS[region]]
    if pre:
        lines.append(pre)
    lines.append("ego = new Object " + _join(PLACES[place].format(reg=reg), SIZES[size], YAWS[yaw], spec))
    cur = (region, container, place, size, yaw)
    names = ("region", "container", "place", "size", "yaw")
    diff = [f"{n}={v}" for n, v, d in zip(names, cur, default) if v != d]
    return {
        "id": "cont2d:" + "/".join(cur),
        "family": "cont2d",
        "tag": "cont2d[" + (",".join(diff) or "default") + "]",
        "text": "\n".join(lines) + "\n",
        "mode2D": False,
        "dim": 2,
        "quick": quick,
    }


def cont2d_programs():
    out = {}

    def add(p):
        out.setdefault(p["id"], p)
        if p["quick"]:
            out[p["id"]]["quick"] = True

    # quick: every symbol of every alphabet at least once (star around two centres)
    q = [
        ("rect", "other", "in", "unit", "y0"),
        ("notch", "other", "in", "unit", "y0"),
        ("multi", "other", "in", "unit", "y0"),
        ("small", "other", "in", "tiny", "y0"),
        ("rect", "same", "in", "unit", "y0"),
        ("notch", "same", "on", "wide", "y40"),
        ("rect", "contained", "in", "unit", "y0"),
        ("rect", "box", "in", "unit", "y0"),
        ("notch", "box", "on", "tiny", "y0"),
        ("rect", "none", "in", "unit", "y0"),
        ("rect", "other", "on", "wide", "y0"),
        ("rect", "other", "onb", "unit", "y0"),
        ("rect", "other", "offs", "unit", "y0"),
        ("rect", "other", "offl", "unit", "y0"),
        ("rect", "other", "offr", "unit", "y0"),
        ("rect", "other", "offR", "tiny", "y0"),
        ("multi", "contained", "offs", "rand", "y0"),
        ("rect", "other", "in", "rand", "yr"),
        ("notch", "same", "in", "tiny", "y40"),
        ("multi", "same", "in", "wide", "yr"),
    ]
    for t in q:
        add(cont2d(*t, quick=True))
    # thorough: region x container x place in full, size / yaw cycled deterministically so that
    # every (size, yaw) pair meets every place and every container
    sizes, yaws = list(SIZES), list(YAWS)
    k = 0
    for region in REGIONS:
        for container in CONTAINERS:
            for place in PLACES:
                for rep in range(2):
                    size = sizes[(k + rep) % len(sizes)]
                    yaw = yaws[(k // len(sizes) + rep) % len(yaws)]
                    add(cont2d(region, container, place, size, yaw))
                k += 1
    # full size x yaw product on two centres
    for size, yaw in itertools.product(SIZES, YAWS):
        add(cont2d("rect", "other", "in", size, yaw))
        add(cont2d("notch", "contained", "offs", size, yaw))
    return list(out.values())


# ------------------------------------------------------------------------------------------
# cont3d
# ------------------------------------------------------------------------------------------
BASES3 = {
    "box": "R = BoxRegion(dimensions=(4, 4, 4), position=(2, 0, 3))",
    "boxrot": "R = BoxRegion(dimensions=(4, 3, 3), position=(2, 0, 3), rotation=(30 deg, 0, 0))",
    "cyl": "import trimesh\nR = MeshVolumeRegion(trimesh.creation.cylinder(radius=2, height=4, sections=12), position=(2, 0, 3))",
    "lprism": "import trimesh, shapely.geometry\nR = MeshVolumeRegion(trimesh.creation.extrude_polygon(shapely.geometry.Polygon([(0,0),(4,0),(4,2),(2,2),(2,4),(0,4)]), 3), position=(1, 0, 3))",
    "smallbox": "R = BoxRegion(dimensions=(0.8, 0.8, 0.8), position=(2.4, 0, 3))",
    "centre": "R = BoxRegion(dimensions=(0.6, 0.6, 0.6))",
}
_RODBOX = (
    "import trimesh, math\n"
    "_c = trimesh.creation.box((4, 4, 4))\n"
    "_r = trimesh.creation.box((3, 0.1, 0.1))\n"
    "_r.apply_translation((1.5, 0, 0))\n"
    "_r.apply_transform(trimesh.transformations.rotation_matrix(math.radians(45), (0, 0, 1)))\n"
    "_r.apply_translation((1.9, 1.9, 0))\n"
    "workspace = Workspace(MeshVolumeRegion(trimesh.util.concatenate([_c, _r]), centerMesh=False))"
)
WORK3 = {
    # a cube with a thin rod sticking out diagonally: its coarse voxelization is not a manifold
    "wrodbox": _RODBOX,
    "wbox": "workspace = Workspace(BoxRegion(dimensions=(6, 6, 6), position=(0, 0, 3)))",
    "wsmall": "workspace = Workspace(BoxRegion(dimensions=(0.9, 0.9, 0.9), position=(2.2, 0.1, 3.1)))",
    "wsame": "workspace = Workspace(R)",
}
SIZES3 = {
    "unit": "",
    "tiny": "with width 0.2, with length 0.2, with height 0.2",
    "rand": "with height Range(0.3, 1.5)",
    "ball": "with shape SpheroidShape(dimensions=(1, 1, 1))",
    "big": "with width 3.6, with length 3.6, with height 3.6",
}


PLACES3 = {
    "in": "in {reg}",
    "offs": "at (new Point in {reg}) offset by (0.3, 0, 0.1)",
    "offl": "at (new Point in {reg}) offset by (-3, 0, 0)",
    "offr": "at (new Point in {reg}) offset by (Range(-0.3, 0.3), 0, Range(0, 0.2))",
}


def cont3d(base, work, size, yaw="y0", place="in", quick=False):
    lines = [BASES3[base], WORK3[work]]
    reg = "workspace" if work == "wsame" else "R"
    lines.append("ego = new Object " + _join(PLACES3[place].format(reg=reg), SIZES3[size], YAWS[yaw]))
    cur = (base, work, size, yaw, place)
    default = ("box", "wbox", "unit", "y0", "in")
    names = ("base", "workspace", "size", "yaw", "place")
    diff = [f"{n}={v}" for n, v, d in zip(names, cur, default) if v != d]
    return {
        "id": "cont3d:" + "/".join(cur),
        "family": "cont3d",
        "tag": "cont3d[" + (",".join(diff) or "default") + "]",
        "text": "\n".join(lines) + "\n",
        "mode2D": False,
        "dim": 3,
        "quick": quick,
    }


def cont3d_programs():
    out = {}
    q = [("box", "wbox", "unit"), ("cyl", "wbox", "tiny"), ("smallbox", "wsmall", "tiny"), ("box", "wsame", "unit"), ("centre", "wrodbox", "big")]
    for t in q:
        p = cont3d(*t, quick=True)
        out[p["id"]] = p
    out["cont3d:centre/wrodbox/big/y0/in"]["cost"] = 60  # may run into the watchdog: schedule first
    for size in ("unit", "tiny"):
        p = cont3d("centre", "wrodbox", size)
        out[p["id"]] = p
    for base, work, size in itertools.product(BASES3, WORK3, SIZES3):
        if work == "wsmall" and base not in ("smallbox", "box"):
            continue
        if work == "wrodbox" or base == "centre" or size == "big":
            continue
        p = cont3d(base, work, size)
        out.setdefault(p["id"], p)
    for yaw in ("y40", "yr"):
        p = cont3d("box", "wbox", "unit", yaw)
        out.setdefault(p["id"], p)
    for place in ("offs", "offl", "offr"):
        for base, size in (("box", "unit"), ("box", "tiny"), ("cyl", "unit")):
            p = cont3d(base, "wbox", size, place=place, quick=(place == "offl" and base == "box" and size == "unit"))
            out.setdefault(p["id"], p)
    return list(out.values())


# ------------------------------------------------------------------------------------------
# rh
# ------------------------------------------------------------------------------------------
LAYOUTS = {
    # three cells, the third far away (distance bounds decide between 2 and 3)
    "gap3": [
        ("[0@0, 10@0, 10@10, 0@10]", 0),
        ("[20@0, 30@0, 30@10, 20@10]", 1),
        ("[50@0, 60@0, 60@10, 50@10]", 1),
    ],
    # two cells sharing an edge
    "adj": [("[0@0, 10@0, 10@10, 0@10]", 0), ("[10@0, 20@0, 20@10, 10@10]", 1)],
    # a U-shaped cell and a cell above its notch
    "u": [
        ("[0@0, 12@0, 12@10, 8@10, 8@4, 4@4, 4@10, 0@10]", 0),
        ("[4@14, 8@14, 8@18, 4@18]", 1),
    ],
}
HEADINGS = {
    "0/90": ("0", "90 deg"),
    "0/180": ("0", "180 deg"),
    "170/-170": ("170 deg", "-170 deg"),
    "-90/90": ("-90 deg", "90 deg"),
    "135/-135": ("135 deg", "-135 deg"),
}
Q = "(relative heading of other)"
D = "(distance to other)"

# id -> require statement.  RH of other w.r.t. ego is h(other) - h(ego) normalised.
RH_FORMS = {
    "Q>=c": f"require {Q} >= 60 deg",
    "Q>c": f"require {Q} > 60 deg",
    "Q<=c": f"require {Q} <= -60 deg",
    "Q<c": f"require {Q} < -60 deg",
    "Q==c": f"require {Q} == 90 deg",
    "Q!=c": f"require {Q} != -90 deg",
    "c<=Q": f"require 60 deg <= {Q}",
    "c<Q": f"require 60 deg < {Q}",
    "c>=Q": f"require -60 deg >= {Q}",
    "c>Q": f"require -60 deg > {Q}",
    "c==Q": f"require 90 deg == {Q}",
    "c!=Q": f"require 90 deg != {Q}",
    "a<=Q<=b": f"require 60 deg <= {Q} <= 120 deg",
    "a<Q<b": f"require 60 deg < {Q} < 120 deg",
    "a<=Q<b:neg": f"require -120 deg <= {Q} < -60 deg",
    "b>=Q>=a": f"require 120 deg >= {Q} >= 60 deg",
    "b>Q>a": f"require 120 deg > {Q} > 60 deg",
    "-a<=Q<=a": f"require -10 deg <= {Q} <= 10 deg",
    "abs(Q)<=c": f"require abs({Q}) <= 30 deg",
    "abs(Q)<c": f"require abs({Q}) < 30 deg",
    "c>=abs(Q)": f"require 30 deg >= abs({Q})",
    "c>abs(Q)": f"require 30 deg > abs({Q})",
    "abs(Q)>=c": f"require abs({Q}) >= 60 deg",
    "c<=abs(Q)": f"require 60 deg <= abs({Q})",
    "abs(Q)==c": f"require abs({Q}) == 90 deg",
    "abs(Q)!=c": f"require abs({Q}) != 0",
    "abs(Q-a)<=d": f"require abs({Q} - 90 deg) <= 20 deg",
    "abs(a-Q)<=d": f"require abs(90 deg - {Q}) <= 20 deg",
    "abs(Q+a)<=d": f"require abs({Q} + 90 deg) <= 20 deg",
    "abs(a+Q)<=d": f"require abs(90 deg + {Q}) <= 20 deg",
    "d>=abs(Q-a)": f"require 20 deg >= abs({Q} - 90 deg)",
    "abs(Q-a)<d": f"require abs({Q} - 90 deg) < 20 deg",
    "abs(Q-a)>=d": f"require abs({Q} - 90 deg) >= 20 deg",
    "not(Q<c)": f"require not ({Q} < 60 deg)",
    "not_Q<c": f"require not {Q} < 60 deg",
    "Q>=c_or_Q<=-c": f"require {Q} >= 60 deg or {Q} <= -60 deg",
    "Q>=c_and_True": f"require {Q} >= 60 deg and True",
    "from-form": "require (relative heading of other from ego) >= 60 deg",
    "from-form-rev": "require (relative heading of ego from other) <= -60 deg",
    "Q*1>=c": f"require {Q} * 1 >= 60 deg",
    "-Q<=-c": f"require -{Q} <= -60 deg",
    "soft": f"require[0.5] {Q} >= 60 deg",
    "two-requires": f"require {Q} >= 60 deg\nrequire {Q} <= 120 deg",
    # constants for the heading pairs whose difference is 20 deg (170/-170, through the wrap)
    "w20:Q>=c": f"require {Q} >= 10 deg",
    "w20:Q<=c": f"require {Q} <= -10 deg",
    "w20:a<=Q<=b": f"require 10 deg <= {Q} <= 30 deg",
    "w20:abs(Q)<=c": f"require abs({Q}) <= 30 deg",
    "w20:abs(Q)<=c:tight": f"require abs({Q}) <= 5 deg",
    "w20:abs(Q-a)<=d": f"require abs({Q} - 20 deg) <= 5 deg",
    "w20:abs(Q+a)<=d": f"require abs({Q} + 20 deg) <= 5 deg",
    "w20:abs(Q)>=c": f"require abs({Q}) >= 10 deg",
    # ... and 180 deg (0/180, -90/90)
    "w180:Q>=c": f"require {Q} >= 150 deg",
    "w180:Q<=c": f"require {Q} <= -150 deg",
    "w180:abs(Q)<=c": f"require abs({Q}) <= 30 deg",
    "w180:abs(Q-a)<=d": f"require abs({Q} - 180 deg) <= 20 deg",
    "w180:abs(Q+a)<=d": f"require abs({Q} + 180 deg) <= 20 deg",
    "w180:abs(Q)>=c": f"require abs({Q}) >= 150 deg",
    "w180:or": f"require {Q} >= 150 deg or {Q} <= -150 deg",
}
HEADING_FORMS = {
    "0/90": ("Q>=c", "Q<=c", "abs(Q)<=c", "abs(Q-a)<=d", "a<=Q<=b", "-a<=Q<=a", "abs(Q)>=c"),
    "135/-135": ("Q>=c", "Q<=c", "abs(Q)<=c", "abs(Q-a)<=d", "abs(Q+a)<=d", "a<=Q<=b", "abs(Q)>=c"),
    "170/-170": tuple(k for k in RH_FORMS if k.startswith("w20:")),
    "0/180": tuple(k for k in RH_FORMS if k.startswith("w180:")),
    "-90/90": tuple(k for k in RH_FORMS if k.startswith("w180:")),
}
DIST_FORMS = {
    "D<=c": f"require {D} <= 25",
    "D<c": f"require {D} < 25",
    "c>=D": f"require 25 >= {D}",
    "c>D": f"require 25 > {D}",
    "D>=c": f"require {D} >= 25",
    "c<=D": f"require 25 <= {D}",
    "D!=c": f"require {D} != 25",
    "c!=D": f"require 25 != {D}",
    "a<=D<=b": f"require 5 <= {D} <= 25",
    "b>=D>=a": f"require 25 >= {D} >= 5",
    "abs(D)<=c": f"require abs({D}) <= 25",
    "abs(D-a)<=d": f"require abs({D} - 15) <= 10",
    "abs(a-D)<=d": f"require abs(15 - {D}) <= 10",
    "abs(D+a)<=d": f"require abs({D} + 5) <= 30",
    "abs(D-a)<=d:far": f"require abs({D} - 45) <= 10",
    "abs(D-a)>=d": f"require abs({D} - 45) >= 10",
    "abs(D)!=c": f"require abs({D}) != 25",
    "from-to-form": "require (distance from ego to other) <= 25",
    "from-to-form-rev": "require (distance from other to ego) <= 25",
    "from-form": "require (distance from other) <= 25",
    "not(D>c)": f"require not ({D} > 25)",
    "D<=c_or_D>=e": f"require {D} <= 25 or {D} >= 45",
    "soft": f"require[0.5] {D} <= 25",
    "is-not": f"lim = 25\nrequire {D} is not lim",
    "var-const": f"lim = 25\nrequire {D} <= lim",
    "expr-const": f"require {D} <= 5 * 5",
    "random-const": f"lim = Range(20, 25)\nrequire {D} <= lim",
    "two-requires": f"require {D} <= 45\nrequire {D} <= 25",
}
# how the distance between the two objects is bounded
RAYS = "with viewRayCount (36, 18)"  # explicit ray grid: keeps canSee cheap and deterministic
BOUNDS = {
    "rv": ("with visibleDistance 14, " + RAYS, "with requireVisible True", ""),
    "vf": ("with visibleDistance 14, " + RAYS, "visible from ego", ""),
    "ev": ("", "with visibleDistance 14", None),  # ego visible from other: needs reordering
}
NOISE = {
    "none": "facing vf",
    "noise": "facing (Range(-10 deg, 10 deg)) relative to vf",
}


def rh(layout, headings, bound, rhform, distform=None, noise="none", quick=False):
    cells = LAYOUTS[layout]
    hs = HEADINGS[headings]
    lines = []
    for k, (pts, h) in enumerate(cells):
        lines.append(f"r{k} = PolygonalRegion({pts})")
    lines.append('vf = PolygonalVectorField("F", [' + ", ".join(f"[r{k}.polygons, {hs[h]}]" for k, (_p, h) in enumerate(cells)) + "])")
    u = "r0"
    for k in range(1, len(cells)):
        u += f".union(r{k})"
    lines.append(f"union = {u}")
    face = NOISE[noise]
    if bound == "dist":
        lines.append(f"ego = new Object in union, {face}")
        lines.append(f"other = new Object in union, {face}")
    elif bound == "ev":
        lines.append(f"other = new Object in union, {face}, with visibleDistance 14, {RAYS}")
        lines.append(f"ego = new Object in union, {face}, visible from other")
    else:
        e, o, _ = BOUNDS[bound]
        lines.append("ego = new Object " + _join("in union", face, e))
        lines.append("other = new Object " + _join("in union", face, o))
    lines.append(RH_FORMS[rhform])
    if distform is not None:
        lines.append(DIST_FORMS[distform])
    cur = dict(layout=layout, headings=headings, bound=bound, rh=rhform, dist=distform, noise=noise)
    default = dict(layout="gap3", headings="0/90", bound="dist" if distform is not None else "rv", rh="Q>=c", dist="D<=c" if distform is not None else None, noise="none")
    diff = [f"{n}={v}" for n, v in cur.items() if v != default[n]]
    return {
        "id": f"rh:{layout}/{headings}/{bound}/rh[{rhform}]" + (f"/dist[{distform}]" if distform else "") + ("/noise" if noise != "none" else ""),
        "family": "rh",
        "tag": "rh[" + (",".join(diff) or "default") + "]",
        "text": "\n".join(lines) + "\n",
        "mode2D": False,
        "dim": 2,
        "quick": quick,
    }


QUICK_RH = ["Q>=c", "Q<c", "c<Q", "c>=Q", "Q!=c", "a<=Q<=b", "b>Q>a", "abs(Q)<=c", "abs(Q-a)<=d", "abs(a+Q)<=d", "not(Q<c)", "soft"]
QUICK_DIST = ["D<=c", "c>D", "D!=c", "a<=D<=b", "abs(D-a)<=d", "abs(a-D)<=d", "from-to-form", "soft", "D>=c"]


def rh_programs():
    out = {}

    def add(p):
        if p["id"] in out:
            out[p["id"]]["quick"] = out[p["id"]]["quick"] or p["quick"]
        else:
            out[p["id"]] = p

    # every RH form, distance bounded by visibility (two cells relevant: 14 < gap to cell 3)
    for f in RH_FORMS:
        if not f.startswith("w"):
            add(rh("gap3", "0/90", "rv", f, quick=f in QUICK_RH))
    # every distance form with the default RH form
    for f in DIST_FORMS:
        add(rh("gap3", "0/90", "dist", "Q>=c", f, quick=f in QUICK_DIST))
    # heading alphabets x a few forms, layouts, bounds
    for hd in HEADINGS:
        for f in HEADING_FORMS[hd]:
            add(rh("gap3", hd, "rv", f, quick=(hd != "0/90" and f.split(":")[-1] in ("abs(Q-a)<=d", "Q>=c"))))
            add(rh("adj", hd, "dist", f, "D<=c"))
    for lay in LAYOUTS:
        for b in ("rv", "vf", "ev"):
            for f in ("Q>=c", "abs(Q)<=c", "Q<=c"):
                add(rh(lay, "0/90", b, f, quick=(f == "Q>=c" and (lay, b) in (("adj", "vf"), ("u", "rv"), ("gap3", "ev")))))
        for f in ("D<=c", "abs(D-a)<=d", "D!=c", "a<=D<=b"):
            add(rh(lay, "0/90", "dist", "Q>=c", f))
            add(rh(lay, "0/90", "dist", "abs(Q)<=c", f))
    # distance form x RH form cross (both matched by the same matcher)
    for fr in ("Q<=c", "c<Q", "abs(Q-a)<=d", "b>=Q>=a", "Q==c"):
        for fd in ("D<c", "c>=D", "a<=D<=b", "abs(D-a)<=d:far", "D!=c"):
            add(rh("gap3", "0/90", "dist", fr, fd))
    # visibility bound and distance bound together (tightest wins)
    for fd in ("D<=c", "D>=c", "abs(D-a)<=d:far"):
        add(rh("gap3", "0/90", "rv", "Q>=c", fd))
        add(rh("gap3", "0/90", "vf", "abs(Q)<=c", fd))
    # heading noise (orientation no longer exactly the field: must be ignored or handled)
    add(rh("gap3", "0/90", "rv", "Q>=c", noise="noise"))
    add(rh("gap3", "0/90", "dist", "Q>=c", "D<=c", noise="noise", quick=True))
    return list(out.values())


# ------------------------------------------------------------------------------------------
# rh3: three objects, relations of one kind pointing at different targets
# ------------------------------------------------------------------------------------------
# A (the ego of the requirements) and `other` (T) are bound by a relative-heading requirement;
# a distance bound may exist to T, to a third object N, to both (different constants), be
# stated from N's side, be owned by T, or come from visibility of N.  The cells whose headings
# satisfy the relative-heading requirement are 20 m apart: a bound that belongs to another
# object (15: nothing survives, 25: half of the cell survives) would cut feasible positions.
LAYOUTS3 = {
    "far2": [("[0@0, 10@0, 10@10, 0@10]", "0"), ("[30@0, 40@0, 40@10, 30@10]", "90 deg")],
    "far3": [("[0@0, 10@0, 10@10, 0@10]", "0"), ("[30@0, 40@0, 40@10, 30@10]", "90 deg"), ("[70@0, 80@0, 80@10, 70@10]", "0")],
}
# RH form -> (require text, x of the cell A ends up in, x of the cell `other` ends up in)
RH3_FORMS = {
    "Q>=c": (f"require {Q} >= 60 deg", 5, 35),
    "abs(Q-a)<=d": (f"require abs({Q} - 90 deg) <= 20 deg", 5, 35),
    "Q<=c": (f"require {Q} <= -60 deg", 35, 5),
}
BOUNDS3 = ("T", "N", "T+N", "N+T", "N-rev", "N-vis", "T+N-vis", "N-visfrom", "T-owner")
THIRDS = ("fixed", "small", "field")


def rh3(layout, rhform, bound, d, third, two_rh=False, quick=False):
    cells = LAYOUTS3[layout]
    rhtext, xa, xo = RH3_FORMS[rhform]
    lines = [f"r{k} = PolygonalRegion({pts})" for k, (pts, _h) in enumerate(cells)]
    lines.append('vf = PolygonalVectorField("F", [' + ", ".join(f"[r{k}.polygons, {h}]" for k, (_p, h) in enumerate(cells)) + "])")
    lines.append("union = " + "r0" + "".join(f".union(r{k})" for k in range(1, len(cells))))
    vis = bound in ("N-vis", "T+N-vis", "N-visfrom")
    lines.append("A = new Object " + _join("in union", "facing vf", ("with visibleDistance 14, " + RAYS) if vis else ""))
    lines.append("ego = A")
    lines.append("other = new Object in union, facing vf")
    xn = xo if bound == "T-owner" else xa  # N sits next to the object that owns the bound
    nvis = {"N-vis": "with requireVisible True", "T+N-vis": "with requireVisible True", "N-visfrom": "visible from ego"}.get(bound, "")
    if third == "fixed":
        lines.append("third = new Object " + _join(f"at ({xn}, 13, 0)", nvis))
    elif third == "small":
        lines.append(f"r9 = PolygonalRegion([{xn - 3}@12, {xn + 3}@12, {xn + 3}@15, {xn - 3}@15])")
        lines.append("third = new Object " + _join("in r9", nvis))
    else:
        lines.append("third = new Object " + _join("in union", "facing vf", nvis))
    lines.append(rhtext)
    if two_rh:
        lines.append("require abs(relative heading of third) <= 30 deg")
    dT = f"require {D} <= 45"
    dN = f"require (distance to third) <= {d}"
    if bound == "T":
        lines.append(dT)
    elif bound == "N":
        lines.append(dN)
    elif bound == "T+N":
        lines += [dT, dN]
    elif bound == "N+T":
        lines += [dN, dT]
    elif bound == "N-rev":
        lines += ["ego = third", f"require (distance to A) <= {d}", "ego = A"]
    elif bound == "T+N-vis":
        lines.append(dT)
    elif bound == "T-owner":
        lines += ["ego = other", dN, "ego = A"]
    cur = dict(layout=layout, rh=rhform, bound=bound, d=d, third=third, two_rh=two_rh)
    default = dict(layout="far2", rh="Q>=c", bound="N", d=25, third="fixed", two_rh=False)
    diff = [f"{n}={v}" for n, v in cur.items() if v != default[n]]
    return {
        "id": f"rh3:{layout}/rh[{rhform}]/{bound}/d{d}/{third}" + ("/2rh" if two_rh else ""),
        "family": "rh3",
        "tag": "rh3[" + (",".join(diff) or "default") + "]",
        "text": "\n".join(lines) + "\n",
        "mode2D": False,
        "dim": 2,
        "quick": quick,
    }


def rh3_programs():
    out = {}

    def add(p):
        if p["id"] in out:
            out[p["id"]]["quick"] = out[p["id"]]["quick"] or p["quick"]
        else:
            out[p["id"]] = p

    # quick: one program per way of owning the bound, both constants, every kind of third object
    add(rh3("far2", "Q>=c", "N", 25, "fixed", quick=True))
    add(rh3("far2", "Q>=c", "N", 15, "fixed", quick=True))
    add(rh3("far2", "Q>=c", "T+N", 25, "small", quick=True))
    add(rh3("far2", "Q<=c", "T-owner", 25, "fixed", quick=True))
    add(rh3("far2", "abs(Q-a)<=d", "N-rev", 25, "fixed", quick=True))
    add(rh3("far2", "Q>=c", "T+N-vis", 25, "fixed", quick=True))
    add(rh3("far2", "Q>=c", "T+N", 15, "field", two_rh=True, quick=True))
    # thorough: RH form x owner of the bound x constant, N fixed
    for f, b, d in itertools.product(RH3_FORMS, BOUNDS3, (15, 25)):
        if b in ("T", "N-vis", "T+N-vis", "N-visfrom") and d == 15:
            continue  # the constant does not occur in these
        add(rh3("far2", f, b, d, "fixed"))
    # N positioned in its own small region / on the field; second heading-0 cell far away
    for b, d in itertools.product(BOUNDS3, (15, 25)):
        if b in ("T", "N-vis", "T+N-vis", "N-visfrom") and d == 15:
            continue
        add(rh3("far2", "Q>=c", b, d, "small"))
        add(rh3("far3", "Q>=c", b, d, "fixed"))
    for b in ("N", "T+N", "N+T", "N-rev", "T-owner"):
        add(rh3("far2", "Q>=c", b, 25, "field"))
        if b != "T-owner":  # T within 15 of an N that must share A's heading: infeasible
            add(rh3("far2", "Q>=c", b, 15, "field", two_rh=True))
    return list(out.values())


# ------------------------------------------------------------------------------------------
# vis
# ------------------------------------------------------------------------------------------
VIS_CONSTRUCTS = {
    # id -> (ego extra, lines between, target specifiers)
    "visible": "visible",
    "requireVisible": "with requireVisible True",
    "visible-from-obs": "visible from obs",
    "visible-from-point": "visible from pt",
    "not-visible": "not visible",
    "both": "visible, with requireVisible True",
    "rv+obs": "visible from obs, with requireVisible True",
}
VDS = {"vd0.3": "0.3", "vd0.8": "0.8", "vd2": "2", "vd5": "5"}
CONES = {
    "full": "",
    "cone": "with viewAngles (120 deg, 60 deg)",
    "slab": "with viewAngles (360 deg, 40 deg)",
    "wedge": "with viewAngles (90 deg, 180 deg)",
}
VIS_SIZES = {
    "unit": "",
    "ball": "with shape SpheroidShape(dimensions=(2, 2, 2))",
    "tiny": "with width 0.2, with length 0.2, with height 0.2",
    "rand": "with width Range(0.4, 2.0)",
    "wide": "with width 2, with length 0.6",
    # a thin plate whose corner points along the axes: its circumradius is actually reached
    "flat45": "with width 1, with length 1, with height 0.02, facing 45 deg",
}
VIS_PLACES = {
    "in": "in R",
    "on": "on R",
    "onb": "on R, with baseOffset (0, 0, 0.0001), with contactTolerance 0",
    "offs": "at (new Point in R) offset by (0.4, 0)",
    "offr": "at (new Point in R) offset by (Range(-0.5, 0.5), 0)",
}
OBSERVERS = {
    "fixed": "obs = new Object at (6, 4, 0), with visibleDistance {vd}, with allowCollisions True, {cone}, " + RAYS,
    "random": "obs = new Object in R2, with visibleDistance {vd}, with allowCollisions True, {cone}, " + RAYS,
}


def vis(construct, vd, cone="full", size="unit", place="in", observer="fixed", egoface="", quick=False):
    lines = [
        "R = PolygonalRegion([0@0, 8@0, 8@6, 0@6])",
        "workspace = Workspace(PolygonalRegion([-4@-4, 12@-4, 12@10, -4@10]))",
    ]
    v = VDS[vd]
    ego = _join("ego = new Object at (3, 3, 0)", f"with visibleDistance {v}", "with allowCollisions True", RAYS, CONES[cone], egoface)
    lines.append(ego)
    if "obs" in VIS_CONSTRUCTS[construct]:
        if observer == "random":
            lines.append("R2 = PolygonalRegion([5@3, 7@3, 7@5, 5@5])")
        lines.append(_join(OBSERVERS[observer].format(vd=v, cone=CONES[cone] or "with occluding False")))
    if "pt" in VIS_CONSTRUCTS[construct].split():
        lines.append(f"pt = new Point at (6, 4, 0), with visibleDistance {v}, {RAYS}")
    lines.append("foo = new Object " + _join(VIS_PLACES[place], VIS_CONSTRUCTS[construct], VIS_SIZES[size], "with allowCollisions True"))
    cur = dict(construct=construct, vd=vd, cone=cone, size=size, place=place, observer=observer, egoface=egoface or None)
    default = dict(construct="visible", vd="vd2", cone="full", size="unit", place="in", observer="fixed", egoface=None)
    diff = [f"{n}={v2}" for n, v2 in cur.items() if v2 != default[n]]
    return {
        "id": "vis:" + "/".join(str(x) for x in cur.values()),
        "family": "vis",
        "tag": "vis[" + (",".join(diff) or "default") + "]",
        "text": "\n".join(lines) + "\n",
        "mode2D": False,
        "dim": 2,
        "quick": quick,
    }


def vis_cyclic(quick=False):
    text = (
        "workspace = Workspace(PolygonalRegion([0@0, 8@0, 8@6, 0@6]))\n"
        f"foo = new Object with requireVisible True, in workspace, with visibleDistance 2, with allowCollisions True, {RAYS}\n"
        f"ego = new Object visible from foo, in workspace, with visibleDistance 2, with allowCollisions True, {RAYS}\n"
    )
    return {"id": "vis:cyclic", "family": "vis", "tag": "vis[cyclic]", "text": text, "mode2D": False, "dim": 2, "quick": quick}


def vis3d(vd, size, quick=False):
    text = (
        "workspace = Workspace(BoxRegion(dimensions=(8, 8, 6), position=(0, 0, 3)))\n"
        "R = BoxRegion(dimensions=(5, 5, 4), position=(0, 0, 3))\n"
        f"ego = new Object at (0, 0, 3), with visibleDistance {VDS[vd]}, with allowCollisions True, {RAYS}\n"
        "foo = new Object " + _join("in R", "visible", VIS_SIZES[size], "with allowCollisions True") + "\n"
    )
    return {
        "id": f"vis:3d/{vd}/{size}",
        "family": "vis",
        "tag": f"vis[3d,vd={vd},size={size}]",
        "text": text,
        "mode2D": False,
        "dim": 3,
        "quick": quick,
    }


def vis_programs():
    out = {}

    def add(p):
        if p["id"] in out:
            out[p["id"]]["quick"] = out[p["id"]]["quick"] or p["quick"]
        else:
            out[p["id"]] = p

    q = [
        ("visible", "vd2"),
        ("visible", "vd0.3"),
        ("requireVisible", "vd0.8"),
        ("visible-from-obs", "vd2"),
        ("visible-from-point", "vd2"),
        ("not-visible", "vd2"),
        ("both", "vd5"),
        ("rv+obs", "vd2"),
    ]
    for c, v in q:
        add(vis(c, v, quick=True))
    add(vis("visible", "vd2", cone="cone", egoface="facing 30 deg", quick=True))
    add(vis("requireVisible", "vd0.8", size="wide", place="onb", quick=True))
    add(vis("visible", "vd0.3", size="tiny", place="offs", quick=True))
    add(vis("visible", "vd0.3", size="wide", quick=True))
    add(vis("visible", "vd0.8", size="flat45", quick=True))
    add(vis("visible-from-obs", "vd2", observer="random", quick=True))
    add(vis_cyclic(quick=True))
    add(vis3d("vd0.3", "tiny", quick=False))
    add(vis3d("vd2", "unit", quick=True))
    for c, v in itertools.product(VIS_CONSTRUCTS, VDS):
        add(vis(c, v))
    for v, cone, face in itertools.product(VDS, CONES, ("", "facing 30 deg", "facing -120 deg")):
        add(vis("visible", v, cone=cone, egoface=face))
        add(vis("requireVisible", v, cone=cone, egoface=face))
    for v, size, place in itertools.product(VDS, VIS_SIZES, VIS_PLACES):
        if size == "ball" and place != "in":
            continue  # the spheroid mesh makes canSee very slow: default placement only
        add(vis("visible", v, size=size, place=place))
        add(vis("requireVisible", v, size=size, place=place))
    for c in ("visible-from-obs", "rv+obs"):
        for v, cone in itertools.product(VDS, CONES):
            add(vis(c, v, cone=cone, observer="random"))
            add(vis(c, v, cone=cone, observer="fixed", size="wide"))
    for v, size in itertools.product(VDS, VIS_SIZES):
        if size != "ball" or v == "vd2":
            add(vis3d(v, size))
    return list(out.values())


# ------------------------------------------------------------------------------------------
# vism / contm: several pruned objects per program (state carried from one object to the next)
# ------------------------------------------------------------------------------------------
# item -> (placement with {reg}, size); radius + offset length: small 0.35, big 4.4, offs 3.4
MULTI_ITEMS = {
    "small": ("in {reg}", "with width 0.4, with length 0.4, with height 0.4"),
    "big": ("in {reg}", "with width 6, with length 6, with height 2"),
    "offs": ("at (new Point in {reg}) offset by (2.5, 0)", ""),
    "plain": ("in {reg}", ""),  # an object that is NOT required to be visible
}
FREE = "with allowCollisions True, with occluding False"
VISM_FORMS = {
    # id -> (viewer lines, specifier of the observed objects)
    "requireVisible": (["ego = new Object at (0, 0, 0), with visibleDistance 1, " + RAYS + ", " + FREE], "with requireVisible True"),
    "visible": (["ego = new Object at (0, 0, 0), with visibleDistance 1, " + RAYS + ", " + FREE], "visible"),
    "visible-from-obs": (
        ["ego = new Object at (30, 30, 0), " + FREE, "obs = new Object at (0, 0, 0), with visibleDistance 1, " + RAYS + ", " + FREE],
        "visible from obs",
    ),
    "mixed": (["ego = new Object at (0, 0, 0), with visibleDistance 1, " + RAYS + ", " + FREE], None),  # alternates the two ego forms
    "visible-from-random-obs": (
        [
            "ego = new Object at (30, 30, 0), " + FREE,
            "Robs = PolygonalRegion([-0.5@-0.5, 0.5@-0.5, 0.5@0.5, -0.5@0.5])",
            "obs = new Object in Robs, with visibleDistance 1, " + RAYS + ", " + FREE,
        ],
        "visible from obs",
    ),
}


def vism(form, order, quick=False):
    """Objects `order` (names of MULTI_ITEMS) observed from one viewpoint, created in that order."""
    viewer, spec = VISM_FORMS[form]
    lines = ["R = PolygonalRegion([-6@-6, 6@-6, 6@6, -6@6])"] + list(viewer)
    k = 0
    for n, item in enumerate(order):
        place, size = MULTI_ITEMS[item]
        if item == "plain":
            sp = ""
        elif spec is None:
            sp = ("with requireVisible True", "visible")[k % 2]
            k += 1
        else:
            sp = spec
        lines.append(f"o{n} = new Object " + _join(place.format(reg="R"), sp, size, FREE))
    return {
        "id": f"vism:{form}/" + "-".join(order),
        "family": "vism",
        "tag": f"vism[{form},order={'-'.join(order)}]",
        "text": "\n".join(lines) + "\n",
        "mode2D": False,
        "dim": 2,
        "quick": quick,
        "search": "sticky",
    }


def contm(container, order, quick=False):
    """Objects of different inradius / offset in the same container, created in that order."""
    if container == "poly":
        lines = ["workspace = Workspace(PolygonalRegion([0@0, 12@0, 12@10, 0@10]))"]
    elif container == "contained":
        lines = ["workspace = Workspace(PolygonalRegion([-20@-20, 30@-20, 30@30, -20@30]))", "C = PolygonalRegion([0@0, 12@0, 12@10, 0@10])"]
    else:  # box volume
        lines = ["workspace = Workspace(BoxRegion(dimensions=(12, 10, 6), position=(6, 5, 1)))"]
    lines.append("R = PolygonalRegion([-1@-1, 13@-1, 13@11, -1@11])")
    items = {
        "small": ("in R", "with width 0.4, with length 0.4, with height 0.4"),
        "big": ("in R", "with width 3, with length 3"),
        "offs": ("at (new Point in R) offset by (3, 0)", ""),
        "plain": ("at (new Point in R) offset by (Range(-0.2, 0.2), 0)", ""),
    }
    for n, item in enumerate(order):
        place, size = items[item]
        lines.append(f"o{n} = new Object " + _join(place, size, "with regionContainedIn C" if container == "contained" else "", "with allowCollisions True"))
    lines.append("ego = o0")
    return {
        "id": f"contm:{container}/" + "-".join(order),
        "family": "contm",
        "tag": f"contm[{container},order={'-'.join(order)}]",
        "text": "\n".join(lines) + "\n",
        "mode2D": False,
        "dim": 2,
        "quick": quick,
        "search": "sticky",
    }


def multi_programs():
    out = {}

    def add(p):
        if p["id"] in out:
            out[p["id"]]["quick"] = out[p["id"]]["quick"] or p["quick"]
        else:
            out[p["id"]] = p

    # quick: both orders of (small, big), an offset object after a small one, a non-visible object
    # in between, every form once
    add(vism("requireVisible", ("small", "big"), quick=True))
    add(vism("requireVisible", ("big", "small"), quick=True))
    add(vism("visible-from-obs", ("small", "offs"), quick=True))
    add(vism("visible", ("small", "plain", "big"), quick=True))
    add(vism("mixed", ("offs", "small", "big"), quick=True))
    add(contm("poly", ("small", "big"), quick=True))
    add(contm("poly", ("big", "small"), quick=True))
    add(contm("contained", ("offs", "small", "big"), quick=True))
    add(contm("box", ("small", "plain", "big"), quick=True))
    # thorough: all orders of two and of three items, every form / container
    names = ("small", "big", "offs")
    orders = list(itertools.permutations(names, 2)) + list(itertools.permutations(names, 3))
    orders += [("small", "plain", "big"), ("big", "plain", "small"), ("small", "plain", "offs"), ("offs", "plain", "small")]
    for form in VISM_FORMS:
        for o in orders:
            if form == "visible-from-random-obs" and len(o) == 3:
                continue
            add(vism(form, o))
    for cont in ("poly", "contained", "box"):
        for o in orders:
            add(contm(cont, o))
    return list(out.values())


# ------------------------------------------------------------------------------------------
# conto: containment of tilted objects (the flat-object special case needs pitch = roll = 0)
# ------------------------------------------------------------------------------------------
ORIENTS = {
    "none": "",
    "yaw": "facing 40 deg",
    "pitch": "with pitch 90 deg",
    "roll": "with roll 90 deg",
    "pitch+roll": "with pitch 90 deg, with roll 90 deg",
    "rollR": "with roll Range(0, 90 deg)",
    "pitchR": "with pitch Range(0, 90 deg)",
}
SHAPES_O = {
    "cube": "",
    "plate": "with width 2, with length 2, with height 0.1",  # height smallest
    "pole": "with width 0.4, with length 0.4, with height 3",  # height largest
}
CONTAINERS_O = {
    "wide": "workspace = Workspace(PolygonalRegion([0@0, 6@0, 6@6, 0@6]))",
    # narrower than the planar diameter of the plate, wide enough for its true extent when tilted
    "corridor": "workspace = Workspace(PolygonalRegion([0@0, 1.5@0, 1.5@8, 0@8]))",
}


def conto(orient, shape, container, quick=False):
    text = CONTAINERS_O[container] + "\nego = new Object " + _join("in workspace", SHAPES_O[shape], ORIENTS[orient]) + "\n"
    return {
        "id": f"conto:{container}/{shape}/{orient}",
        "family": "conto",
        "tag": f"conto[{container},{shape},{orient}]",
        "text": text,
        "mode2D": False,
        "dim": 2,
        "quick": quick,
    }


def conto_programs():
    quick = {
        ("roll", "plate", "wide"),
        ("roll", "plate", "corridor"),
        ("pitch", "plate", "wide"),
        ("rollR", "plate", "wide"),
        ("roll", "pole", "wide"),
        ("pitch+roll", "cube", "corridor"),
    }
    return [conto(o, s, c, quick=(o, s, c) in quick) for o, s, c in itertools.product(ORIENTS, SHAPES_O, CONTAINERS_O)]


# ------------------------------------------------------------------------------------------
# mode2d
# ------------------------------------------------------------------------------------------
def mode2d_programs():
    """2D compatibility mode versions of the quick programs of the 2-D families (2D mode prunes
    too: positions drawn in a PolygonalRegion stay `PointInRegionDistribution`s)."""
    quick_ids = {
        "cont2d:rect/other/in/unit/y0",
        "cont2d:rect/other/offl/unit/y0",
        "rh:gap3/0/90/rv/rh[Q>=c]",
        "rh:gap3/0/90/dist/rh[Q>=c]/dist[D<=c]",
        "vis:visible/vd2/full/unit/in/fixed/None",
        "vis:requireVisible/vd0.8/full/unit/in/fixed/None",
    }
    out = []
    for p in cont2d_programs() + rh_programs() + vis_programs():
        if not p["quick"] or p["dim"] != 2 or "SpheroidShape" in p["text"]:
            continue
        q = dict(p)
        q["quick"] = p["id"] in quick_ids
        q["id"] = "mode2d:" + p["id"]
        q["family"] = "mode2d"
        q["tag"] = "mode2d:" + p["tag"]
        q["mode2D"] = True
        out.append(q)
    return out


def all_programs():
    progs = cont2d_programs() + cont3d_programs() + rh_programs() + rh3_programs() + vis_programs() + multi_programs() + conto_programs() + mode2d_programs()
    ids = [p["id"] for p in progs]
    if len(set(ids)) != len(ids):
        raise RuntimeError("duplicate program ids")
    return progs


def programs(tier):
    progs = all_programs()
    if tier == "quick":
        return [p for p in progs if p["quick"]]
    return progs


if __name__ == "__main__":
    import collections

    for tier in ("quick", "thorough"):
        ps = programs(tier)
        print(tier, len(ps), dict(collections.Counter(p["family"] for p in ps)))
