"""Bounded-exhaustive generator of temporal formulas (DESIGN §2.3, C11)."""

import itertools

UN = ("not", "always", "eventually", "next")
BIN = ("and", "or", "implies", "until")


def formulas(depth, atoms=("a", "b")):
    """All formulas of depth <= depth (depth 0 = atoms), simplest first, no duplicates."""
    levels = [[("ap", x) for x in atoms]]
    seen = set(levels[0])
    for d in range(1, depth + 1):
        prev_all = [f for lvl in levels for f in lvl]
        last = levels[-1]
        new = []
        for op in UN:
            for f in last:
                g = (op, f)
                if g not in seen:
                    seen.add(g)
                    new.append(g)
        for op in BIN:
            for f, g in itertools.product(prev_all, repeat=2):
                if f not in last and g not in last:
                    continue
                h = (op, f, g)
                if h not in seen:
                    seen.add(h)
                    new.append(h)
        levels.append(new)
    return [f for lvl in levels for f in lvl]


def render(f, atom=lambda n: f'probe.cond("{n}")'):
    """Fully parenthesised Scenic text."""
    k = f[0]
    if k == "ap":
        return atom(f[1])
    if k in UN:
        return f"({k} {render(f[1], atom)})"
    return f"({render(f[1], atom)} {k} {render(f[2], atom)})"


# Unparenthesised forms with the parse the reference documents (statements.rst examples):
#   require A and always B          == (A and (always B))
#   require (always A) implies B    == ((always A) implies B)
#   require always A implies B      == (always (A implies B))
DOC_PRECEDENCE = [
    ("{a} and always {b}", ("and", ("ap", "a"), ("always", ("ap", "b")))),
    ("(always {a}) implies {b}", ("implies", ("always", ("ap", "a")), ("ap", "b"))),
    ("always {a} implies {b}", ("always", ("implies", ("ap", "a"), ("ap", "b")))),
    ("always ({a} implies next {a})", ("always", ("implies", ("ap", "a"), ("next", ("ap", "a"))))),
    ("({a} until {b}) or (always {a} and not {b})", ("or", ("until", ("ap", "a"), ("ap", "b")), ("always", ("and", ("ap", "a"), ("not", ("ap", "b")))))),
]
