"""Program family for C18 (encoded scenes / simulations).

Every program is (name, feature, text, mode, opts):
  feature  stable label of the construct under test (goes into violation signatures)
  mode     "exact"   every RNG outcome of generate() through the explorer (discrete leaves)
           "lattice" 5 midpoints per continuous draw (plus every outcome of discrete draws)
           "seeds"   fixed seeds 0..k-1, all of them (gauss / numpy based sampling which the
                     RNG seam cannot enumerate: Normal, mutate, mesh regions)
  opts     dict: mode2D (compile in 2D), no2D (program is 3D only), params ...

The family is a bounded grammar: value atoms (one per value type / integer width class /
nesting shape) x slots (where the value is used), plus a fixed list of object-level
programs.  quick = every atom once in rotating slots + the object-level list;
thorough = the full product.
"""

from __future__ import annotations

# ---------------------------------------------------------------------------------
# value atoms: (name, feature, expression, mode, numeric?)
# ---------------------------------------------------------------------------------

B63 = 2**63
B200 = 2**200

INT_ATOMS = [
    ("i_small", "int-width", "DiscreteRange(0, 3)", "exact", True),
    ("i_252", "int-width", "DiscreteRange(250, 255)", "exact", True),
    ("i_neg", "int-width", "DiscreteRange(-2, 1)", "exact", True),
    ("i_p15", "int-width", "DiscreteRange(32766, 32769)", "exact", True),
    ("i_n15", "int-width", "DiscreteRange(-32770, -32767)", "exact", True),
    ("i_p31", "int-width", "DiscreteRange(2147483646, 2147483649)", "exact", True),
    ("i_n31", "int-width", "DiscreteRange(-2147483650, -2147483647)", "exact", True),
    # beyond 2**53 the unweighted form rounds its endpoints to floats; the weighted form keeps ints
    ("i_p39", "int-width", "DiscreteRange(2**39-2, 2**39+1)", "exact", True),
    ("i_p63", "int-width", f"DiscreteRange({B63 - 2}, {B63 + 1}, (1, 1, 1, 1))", "exact", True),
    ("i_n63", "int-width", f"DiscreteRange({-B63 - 2}, {-B63 + 1}, (1, 2, 1, 1))", "exact", True),
    ("i_big", "int-width", f"DiscreteRange({B200 - 1}, {B200 + 1}, (1, 1, 1))", "exact", True),
    ("i_weighted", "int-width", "DiscreteRange(251, 254, (1, 0, 2, 1))", "exact", True),
]

FLOAT_ATOMS = [
    ("f_unit", "float", "Range(0, 1)", "lattice", True),
    ("f_sym", "float", "Range(-1, 1)", "lattice", True),
    ("f_huge", "float", "Range(-1e300, 1e300)", "lattice", True),
    ("f_tiny", "float", "Range(1e-320, 3e-320)", "lattice", True),
    ("f_top", "float", "Range(1e308, 1.7e308)", "lattice", True),
    ("f_dep", "float-dependent", "Range(0, Range(1, 2))", "lattice", True),
    ("f_idep", "int-dependent", "DiscreteRange(0, DiscreteRange(1, 3))", "exact", True),
    ("f_trunc", "float", "TruncatedNormal(0, 1, -1, 1)", "lattice", True),
    ("f_normal", "normal", "Normal(0, 1)", "seeds", True),
    ("f_normal_dep", "normal", "Normal(Range(0, 1), 2)", "seeds", True),
]

CHOICE_ATOMS = [
    ("c_str", "options", 'Uniform("a", "b", "c")', "exact", False),
    ("c_bool", "options", "Uniform(True, False)", "exact", False),
    ("c_disc", "options", 'Discrete({"x": 1, "y": 2, "z": 1})', "exact", False),
    ("c_mixed", "options", 'Uniform("a", 1, None, 2.5, (1, 2))', "exact", False),
    ("c_one", "options", 'Uniform("only")', "exact", False),
    ("c_many", "options", "Uniform(*range(300))", "exact", True),  # option index crosses 252/253
]

NESTED_ATOMS = [
    ("n_mix", "nested-options", "Uniform(Range(0, 1), DiscreteRange(5, 9))", "lattice", True),
    ("n_deep", "nested-options", 'Uniform(Uniform(1, 2), Uniform("a", Range(0, 1)))', "lattice", False),
    ("n_width", "nested-options", "Uniform(DiscreteRange(250, 255), Uniform(-1, DiscreteRange(32766, 32769)))", "exact", True),
    ("n_wdict", "nested-options", "Discrete({Range(1, 2): 1, Range(3, 4): 2})", "lattice", True),
    ("n_tuple", "nested-options", "Uniform((1, Range(0, 1)), (2, DiscreteRange(0, 1)), 3)", "lattice", False),
    ("n_arith", "derived", "DiscreteRange(250, 255) + 1000 * Uniform(0, 1)", "exact", True),
    ("n_func", "derived", "max(DiscreteRange(0, 2), Uniform(1, 3))", "exact", True),
    ("n_index", "derived", "Uniform([10, 20], [30, 40])[DiscreteRange(0, 1)]", "exact", True),
    ("n_vec", "vector", "Range(0, 1) @ DiscreteRange(2, 3)", "lattice", False),
    ("n_vec3", "vector", "(Range(0, 1), 2, DiscreteRange(0, 2))", "lattice", False),
    ("n_star", "starred-options", "Uniform(*Uniform([1, 2], [3, 4, 5]))", "exact", True),
]

ATOMS = INT_ATOMS + FLOAT_ATOMS + CHOICE_ATOMS + NESTED_ATOMS

# ---------------------------------------------------------------------------------
# slots: how a value expression E is used.  (name, template, numeric only?)
# ---------------------------------------------------------------------------------

SLOTS = [
    ("param", "param p = {E}\nego = new Object\n", False),
    ("prop", "ego = new Object with foo {E}\n", False),
    ("option", 'param p = Uniform({E}, "z")\nego = new Object\n', False),
    ("shared", "x = {E}\nparam a = x\nparam b = (x, [x])\nego = new Object with foo x\n", False),
    ("twice", "param a = {E}\nego = new Object with foo ({E}, 7)\n", False),
    ("pos", "ego = new Object at ({E}, 0, 0)\n", True),
    ("behav", "import verif_probe as probe\nbehavior B(v):\n    take probe.Act(v)\nego = new Object with behavior B({E})\n", False),
    ("sharedopt", "x = {E}\nparam a = Uniform(x, 5)\nparam b = x\nego = new Object\n", False),
    ("optshared", "x = {E}\nparam b = x\nparam a = Uniform(5, x)\nego = new Object\n", False),
    ("second", "ego = new Object\nnew Object at (10, 0, 0), with foo {E}\nparam q = Uniform(1, 2)\n", False),
]


def _atom_programs(atoms, slots):
    for aname, feat, expr, mode, numeric in atoms:
        for sname, tmpl, numonly in slots:
            if numonly and not numeric:
                continue
            if sname == "twice" and aname in ("c_many", "n_width", "n_deep", "f_dep", "n_wdict", "n_mix", "n_tuple", "n_vec", "n_vec3", "f_normal_dep"):
                continue  # squares the number of scenes
            if sname == "pos" and aname in ("f_top", "f_huge", "i_big", "i_p63", "i_n63"):
                continue  # positions beyond what the geometry code is specified for
            yield (f"{aname}/{sname}", feat, tmpl.replace("{E}", expr), mode, {})


# ---------------------------------------------------------------------------------
# object-level programs
# ---------------------------------------------------------------------------------

OBJECT_PROGRAMS = [
    ("o_at2", "vector", "ego = new Object at Range(3, 5) @ DiscreteRange(2, 3)\n", "lattice", {}),
    ("o_simple", "objects", 'ego = new Object at Range(3, 5) @ 2, with foo Uniform("zoggle", "buggle"), with name "egoObject"\n'
     'new Object at 10 @ 10, facing toward ego, with foo Options({DiscreteRange(1, 2): 1, Range(3, 4): 2}), with name "other"\n'
     "param qux = ego.position\n", "lattice", {}),
    ("o_rect", "point-in-region", "ego = new Object in RectangularRegion(0 @ 0, 0, 4, 6)\n", "lattice", {}),
    ("o_circ", "point-in-region", "ego = new Object in CircularRegion(0 @ 0, 5)\n", "lattice", {}),
    ("o_workspace", "point-in-region", "workspace = Workspace(RectangularRegion(0 @ 0, 0, 20, 20))\nego = new Object in RectangularRegion(0 @ 0, 0, 40, 6)\n", "seeds", {}),  # rejection loop inside a triangle
    ("o_box", "point-in-region", "ego = new Object in BoxRegion(dimensions=(5, 5, 5))\n", "seeds", {"no2D": True}),
    ("o_face3", "orientation", "ego = new Object facing (Range(0, 360) deg, DiscreteRange(0, 2) * 10 deg, Uniform(0, 5) deg)\n", "lattice", {"no2D": True}),
    ("o_face", "orientation", "ego = new Object facing Uniform(0, 90 deg, -45 deg)\n", "exact", {}),
    ("o_toward", "orientation", "ego = new Object\nnew Object at (10, 0, 0), facing toward (Range(-5, 5), DiscreteRange(20, 21), 0)\n", "lattice", {}),
    ("o_size", "shape-size", "ego = new Object with width Range(1, 2), with length DiscreteRange(1, 3), with height Uniform(1, 2.5)\n", "lattice", {}),
    ("o_shape", "shape-size", "ego = new Object with shape Uniform(BoxShape(), SpheroidShape(), CylinderShape())\n", "exact", {}),
    ("o_choice", "object-options", "a = new Point at 1 @ 1\nb = new Point at Range(2, 3) @ 2\nego = new Object at Uniform(a, b)\n", "lattice", {}),
    ("o_rel", "objects", "ego = new Object at Range(0, 1) @ 0\nnew Object left of ego by DiscreteRange(2, 3)\nnew Object ahead of ego by Range(3, 4)\n", "lattice", {}),
    ("o_require", "require", "x = Range(0, 1)\ny = DiscreteRange(0, 3)\nrequire x > 0.35\nrequire y != 2\nego = new Object at (x, y, 0)\n", "lattice", {}),
    ("o_params", "params", 'param a = DiscreteRange(250, 255)\nparam b = Range(0, 1)\nparam c = Uniform("u", "v")\nparam d = (globalParameters.a, globalParameters.c)\nego = new Object\n', "lattice", {}),
    ("o_class", "class-defaults", "class Thing(Object):\n    wobble: Range(0, 1)\n    kind: Uniform(1, 2)\nego = new Thing\nnew Thing at 5 @ 5, with kind 7\n", "lattice", {}),
    ("o_mutate", "mutate", "ego = new Object at Range(3, 5) @ 2\nmutate\n", "seeds", {}),
    ("o_mutate_by", "mutate", "ego = new Object\nother = new Object at 10 @ DiscreteRange(9, 10)\nmutate other by 2\n", "seeds", {}),
    ("o_mutate_const", "mutate", "ego = new Object at 1 @ 2\nmutate\n", "seeds", {}),
    ("o_color", "color", "from scenic.simulators.utils.colors import Color, NoisyColorDistribution\n"
     "ego = new Object with color NoisyColorDistribution(Color(0.5, 0.5, 0.5), Range(0, 0.1), 0.1, 0.1)\n", "lattice", {}),
    ("o_2d", "mode2D", "ego = new Object at Range(0, 1) @ DiscreteRange(0, 1), facing Range(0, 90) deg\n", "lattice", {"mode2D": True}),
    ("o_none", "no-randomness", "ego = new Object at 1 @ 2\nparam k = 3\n", "exact", {}),
]

QUICK_SLOT_ROTATION = ["param", "prop", "option", "shared", "behav", "sharedopt", "optshared", "second", "twice", "pos"]


def static_programs(tier):
    progs = []
    if tier == "quick":
        slots = {s[0]: s for s in SLOTS}
        quick_atoms = [a for a in ATOMS if a[0] not in ("c_many", "f_tiny", "f_top", "f_trunc", "f_normal_dep", "i_weighted", "n_func", "n_index", "i_p39", "n_vec3", "n_star", "f_idep")]
        k = 0
        for atom in quick_atoms:
            for _ in range(len(QUICK_SLOT_ROTATION)):
                slot = slots[QUICK_SLOT_ROTATION[k % len(QUICK_SLOT_ROTATION)]]
                k += 1
                got = list(_atom_programs([atom], [slot]))
                if got:
                    progs.extend(got)
                    break
        quick_objs = ("o_simple", "o_rect", "o_box", "o_face3", "o_size", "o_shape", "o_require", "o_mutate", "o_2d", "o_choice", "o_workspace")
        progs.extend(p for p in OBJECT_PROGRAMS if p[0] in quick_objs)
    else:
        progs.extend(_atom_programs(ATOMS, SLOTS))
        progs.extend(OBJECT_PROGRAMS)
        # pairs of atoms of different kinds in one program (encoding order / sharing)
        pair_atoms = [a for a in ATOMS if a[0] in ("i_252", "i_n15", "i_p31", "i_big", "f_unit", "c_str", "n_mix", "n_vec", "f_normal")]
        for i, a in enumerate(pair_atoms):
            for b in pair_atoms[i + 1 :]:
                mode = "seeds" if "seeds" in (a[3], b[3]) else ("lattice" if "lattice" in (a[3], b[3]) else "exact")
                text = f"x = {a[2]}\ny = {b[2]}\nparam a = Uniform(x, y)\nparam b = (y, x)\nego = new Object with foo Uniform(y, 0)\n"
                progs.append((f"pair/{a[0]}+{b[0]}", "pair", text, mode, {}))
    cross = cross_programs(tier)
    if tier == "quick":  # each program costs three compilations: the quick tier keeps one of each shape
        keep = ("x_behav2_dd", "x_behav3_dru", "x_behav6_dddddd", "x_behav_two", "x_monitor3", "x_req3", "x_mix6")
        cross = [p for p in cross if p[0] in keep]
    progs.extend(cross)
    return [(i,) + p for i, p in enumerate(progs)]


# ---------------------------------------------------------------------------------
# cross-compilation programs: random module-level globals reached only through behaviours /
# monitors / requirements / params.  The encoding stores values in dependency order only, so
# these are the programs where two compilations of the same text could disagree on the order.
# Globals have disjoint ranges (gi in [10i, 10i+1]) so that any permutation is visible.
# opts: sim = steps to simulate the decoded scene (and replay a recording) and compare actions;
#       recheck = the decoded sample must still satisfy the program's requirements
# ---------------------------------------------------------------------------------

_G_KINDS = {
    "d": lambda i: f"DiscreteRange({10 * i}, {10 * i + 1})",
    "r": lambda i: f"Range({10 * i}, {10 * i + 1})",
    "u": lambda i: f"Uniform({10 * i}, {10 * i + 1})",
    # single-outcome versions (still random values as far as the encoding is concerned): they keep
    # the number of scenes of the quick tier small
    "D": lambda i: f"DiscreteRange({10 * i}, {10 * i})",
    "U": lambda i: f"Uniform({10 * i})",
}


def _globals(kinds):
    return "".join(f"g{i} = {_G_KINDS[k](i)}\n" for i, k in enumerate(kinds, start=1))


def _behavior(names, name="B"):
    return f"behavior {name}():\n" + "".join(f"    take probe.Act({n})\n" for n in names)


def _monitor(names):
    return "monitor M():\n    while True:\n" + "".join(f"        probe.ev({n})\n" for n in names) + "        wait\nrequire monitor M()\n"


def cross_programs(tier):
    P = "import verif_probe as probe\n"
    EGO = "ego = new Object with name 'e', with behavior B\n"
    progs = []

    def add(name, feat, text, mode, **opts):
        progs.append((f"x_{name}", feat, text, mode, opts))

    def mode_of(kinds):
        return "lattice" if "r" in kinds else "exact"

    q = tier == "quick"
    K = (lambda quick, full: quick if q else full)  # kinds per tier

    def names(kinds):
        return [f"g{i}" for i in range(1, len(kinds) + 1)]

    # only behaviours: 2..6 globals, same kind (clean permutation) and mixed kinds
    behav = [(K("dD", "dd"), 4), (K("Dr", "dr"), 3), (K("DrU", "dru"), 4), (K("DDdD", "dddd"), 5), (K("DUDuD", "dudud"), 6), (K("DDDDDd", "dddddd"), 7)]
    if not q:
        behav += [("rr", 3), ("uu", 3), ("ddd", 4), ("rud", 4), ("uddu", 5), ("ddddd", 6), ("rdudd", 6), ("uuuuuu", 7)]
    for kinds, steps in behav:
        add(f"behav{len(kinds)}_{kinds.lower()}", "behavior-globals", P + _globals(kinds) + _behavior(names(kinds)) + EGO, mode_of(kinds), sim=steps)
    # behaviour uses them in another order than they are defined, two behaviours, unused global
    add("behav_rev", "behavior-globals", P + _globals(K("DdD", "ddd")) + _behavior(["g3", "g1"]) + EGO, "exact", sim=3)
    add("behav_two", "behavior-globals", P + _globals(K("DUdD", "dudd")) + _behavior(["g1", "g3"]) + _behavior(["g4", "g2"], "C") + EGO + "new Object at (0, 10, 0), with name 'f', with behavior C\n", "exact", sim=3)
    # only a monitor
    add("monitor3", "monitor-globals", P + _globals(K("DUd", "dud")) + _monitor(["g1", "g2", "g3"]) + "behavior B():\n    while True:\n        wait\n" + EGO, "exact", sim=2)
    # only requirements (with and without a behaviour in the module)
    reqs = lambda ks: "".join(f"require {10 * i - 1} < g{i} < {10 * i + 2}\n" for i in range(1, len(ks) + 1))
    add("req3", "requirement-globals", _globals(K("Ddd", "ddd")) + reqs("ddd") + "ego = new Object\n", "exact", recheck=True)
    add("req3_behav", "requirement-globals", P + _globals(K("DUd", "dud")) + reqs("dud") + "behavior B():\n    take probe.Act('x')\n" + EGO, "exact", recheck=True, sim=2)
    # only params
    add("par3", "param-globals", _globals(K("dUD", "dud")) + "param a = g3\nparam b = g1\nparam c = (g2, g1)\nego = new Object\n", "exact")
    add("par3_behav", "param-globals", P + _globals(K("DUd", "dud")) + "param a = g3\nparam b = g1\nparam c = g2\nbehavior B():\n    take probe.Act('x')\n" + EGO, "exact", sim=2)
    # mixtures: g1 behaviour, g2 requirement, g3 param, g4 behaviour + param, g5 monitor, g6 object property
    mix = (P + _globals(K("DDdUDD", "dddudd")) + "require 19 < g2 < 22\nparam a = g3\nparam b = g4\n" + _monitor(["g5"]) + _behavior(["g4", "g1"])
           + "ego = new Object with name 'e', with foo g6, with behavior B\n")
    add("mix6", "mixed-globals", mix, "exact", sim=3, recheck=True)
    add("mix4", "mixed-globals", P + _globals(K("DrUD", "drud")) + "require g2 > 0\nparam a = g4\n" + _behavior(["g3", "g1", "g2"]) + EGO, "lattice", sim=4, recheck=True)
    if tier != "quick":
        add("mix5_derived", "mixed-globals", P + _globals("ddddd") + "h = g1 + g2\nparam a = h\n" + _behavior(["g5", "g3", "h", "g4"]) + EGO, "exact", sim=5)
        add("req_behav_order", "mixed-globals", P + _globals("dddd") + "require g4 > 0\nrequire g2 > 0\n" + _behavior(["g1", "g2", "g3", "g4"]) + EGO, "exact", sim=5, recheck=True)
    return progs


# ---------------------------------------------------------------------------------
# dynamic programs (replay / divergence)
# ---------------------------------------------------------------------------------

DYN_PRELUDE = (
    "import verif_probe as probe\n"
    "class Move(probe.Act):\n"
    "    def applyTo(self, agent, simulation):\n"
    "        probe.Act.applyTo(self, agent, simulation)\n"
    "        d = self.tag if isinstance(self.tag, (int, float)) else len(str(self.tag))\n"
    "        agent.position = agent.position + Vector(float(d), 0.5, 0)\n"
    "        agent.yaw = agent.yaw + 0.01 * float(d)\n"
)

#: run-time value expressions drawn inside behaviors: (name, feature, expr, mode)
RT_VALUES = [
    ("r_str", "runtime-options", 'Uniform("a", "bb")', "exact"),
    ("r_252", "runtime-int", "DiscreteRange(252, 253)", "exact"),
    ("r_neg", "runtime-int", "DiscreteRange(-1, 0)", "exact"),
    ("r_p15", "runtime-int", "DiscreteRange(32767, 32768)", "exact"),
    ("r_p31", "runtime-int", "DiscreteRange(2147483647, 2147483648)", "exact"),
    ("r_float", "runtime-float", "Range(0, 1)", "lattice"),
    ("r_nested", "runtime-nested", "Uniform(Range(0, 1), DiscreteRange(5, 6))", "lattice"),
    ("r_disc", "runtime-options", 'Discrete({"p": 1, "qq": 3})', "exact"),
    ("r_big", "runtime-int", f"DiscreteRange({B63 - 1}, {B63}, (1, 1))", "exact"),
]


def _b_take(expr, steps):
    return "".join(f"    take Move({expr})\n" for _ in range(steps))


def dynamic_programs(tier):
    """(idx, name, feature, text, mode, maxSteps, divergence?)"""
    progs = []
    P = DYN_PRELUDE

    def add(name, feat, body, mode, steps, div=False):
        progs.append((name, feat, P + body, mode, steps, div))

    # one agent, one run-time value per step
    for name, feat, expr, mode in RT_VALUES:
        steps = 1 if name == "r_nested" else 2
        add(f"{name}/take", feat, f"behavior B():\n{_b_take(expr, steps)}ego = new Object with name 'e', with behavior B\n", mode, steps + 1)
    # value drawn once, then used; conditional termination on a run-time value
    add("r_cond/terminate", "runtime-control", "behavior B():\n    x = DiscreteRange(0, 2)\n    take Move(x)\n    if x == 1:\n        terminate\n    take Move(Uniform('u', 'vv'))\n"
        "ego = new Object with name 'e', with behavior B\n", "exact", 4)
    add("r_loop/record", "runtime-record", "behavior B():\n    while True:\n        take Move(DiscreteRange(1, 2))\n"
        "ego = new Object with name 'e', with behavior B\nrecord ego.position as pos\nrecord initial ego.yaw as yaw0\nrecord final ego.position.x as xend\nterminate when ego.position.x > 3.5\n", "exact", 4)
    # do choose / do shuffle
    sub = "behavior S1():\n    take Move('s1')\nbehavior S2():\n    take Move('s22')\nbehavior S3():\n    take Move('s333')\n"
    add("r_choose", "do-choose", sub + "behavior B():\n    do choose S1(), S2(), S3()\n    do choose {S1(): 1, S2(): 3}\nego = new Object with name 'e', with behavior B\n", "exact", 3)
    add("r_shuffle", "do-shuffle", sub + "behavior B():\n    do shuffle S1(), S2(), S3()\nego = new Object with name 'e', with behavior B\n", "exact", 4)
    # scene-level randomness + run-time randomness
    add("r_scene+rt", "scene-and-runtime", "g = DiscreteRange(250, 253)\nbehavior B(v):\n    take Move(v)\n    take Move(g)\n    take Move(Uniform('a', 'bb'))\n"
        "ego = new Object at (Uniform(0, 1), 0, 0), with name 'e', with behavior B(Uniform(1, 2))\n", "exact", 4)
    # two agents interleaving their draws
    add("r_two", "two-agents", "behavior B(k):\n    take Move(DiscreteRange(k, k + 1))\n    take Move(Uniform('a', 'bb'))\n"
        "ego = new Object with name 'e', with behavior B(1)\nnew Object at (0, 10, 0), with name 'f', with behavior B(252)\n", "exact", 3)
    # run-time rejection
    add("r_require", "runtime-require", "behavior B():\n    x = DiscreteRange(0, 2)\n    require x != 1\n    take Move(x)\n    take Move(DiscreteRange(0, 1))\n"
        "ego = new Object with name 'e', with behavior B\n", "exact", 3)
    # chain programs: a value is drawn at EVERY step, so a replay continued past the end of its
    # recording draws fresh values after the recorded ones (name prefix c_: roots of replay chains)
    add("c_loop", "chain-loop", "behavior B():\n    while True:\n        take Move(DiscreteRange(1, 2))\nego = new Object with name 'e', with behavior B\nrecord ego.position.x as px\n", "exact", 2)
    add("c_two", "chain-two-agents", "behavior B(k):\n    while True:\n        take Move(Uniform(k, k + 1))\n"
        "ego = new Object with name 'e', with behavior B(1)\nnew Object at (0, 10, 0), with name 'f', with behavior B(253)\n", "exact", 2)
    if tier != "quick":
        add("c_float", "chain-float", "behavior B():\n    while True:\n        take Move(Range(0, 1))\nego = new Object with name 'e', with behavior B\n", "lattice", 2)
        add("c_choose", "chain-choose", "behavior S1():\n    take Move(1)\nbehavior S2():\n    take Move(2)\nbehavior B():\n    while True:\n        do choose S1(), S2()\n"
            "ego = new Object with name 'e', with behavior B\nterminate when ego.position.x > 6.5\n", "exact", 3)
    # divergence programs: deterministic motion, k agents x steps
    beh = "behavior B(k):\n    while True:\n        take Move(k)\n"
    two = beh + "ego = new Object with name 'e', with behavior B(1)\nnew Object at (0, 10, 0), with name 'f', with behavior B(Uniform(2, 3))\n"
    add("d_two", "divergence", two, "exact", 2 if tier == "quick" else 3, True)
    if tier != "quick":
        three = beh + "ego = new Object with name 'e', with behavior B(1)\nnew Object at (0, 10, 0), with name 'f', with behavior B(2)\nnew Object at (0, 20, 0), with name 'g', facing (10 deg, 20 deg, 30 deg), with behavior B(DiscreteRange(3, 4))\n"
        add("d_three", "divergence", three, "exact", 5, True)
        add("d_rt", "divergence", "behavior B():\n    while True:\n        take Move(DiscreteRange(1, 2))\nego = new Object with name 'e', with behavior B\nnew Object at (0, 10, 0), with name 'f'\n", "exact", 3, True)
        # more run-time shapes: every value kind x 2 agents, 3 steps
        for name, feat, expr, mode in RT_VALUES:
            if mode == "lattice":
                continue
            add(f"{name}/two", feat, f"behavior B():\n{_b_take(expr, 2)}ego = new Object with name 'e', with behavior B\nnew Object at (0, 10, 0), with name 'f', with behavior B\n", mode, 3)
        add("r_float/long", "runtime-float", f"behavior B():\n{_b_take('Range(-1, 1)', 3)}ego = new Object with name 'e', with behavior B\n", "lattice", 4)
        add("r_three", "three-agents", "behavior B():\n    take Move(Uniform(1, 2))\n" + "    take Move(1)\n" * 4 +
            "ego = new Object with name 'e', with behavior B\nnew Object at (0, 10, 0), with name 'f', with behavior B\nnew Object at (0, 20, 0), with name 'g', with behavior B\n", "exact", 5)
    return [(i,) + p for i, p in enumerate(progs)]
