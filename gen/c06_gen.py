"""C06 — enumeration universe: specifier instances, classes, prelude, multisets.

Every specifier instance exists twice: as Scenic text (`at (1, 2, 0)`) and as a Python
expression over the names of a compiled Scenic namespace (`At((1, 2, 0))`, the call the
Scenic compiler emits for that syntax).  All instances use *distinct* argument values so
that the specifier which determined a property can be told from the property's value.
"""

from __future__ import annotations

import dataclasses
import itertools
import re
from typing import Dict, List, Optional, Tuple

from models import specres as M
from models.specres import SpecDesc

CORE, QUICK, THOROUGH, TABLE = 0, 1, 2, 3  # enumeration level of an instance


@dataclasses.dataclass(frozen=True)
class Inst:
    key: str
    family: str  # with | position | orientation
    text: str
    py: str
    desc: SpecDesc
    level: int
    classes: Optional[Tuple[str, ...]] = None  # None: every class
    modes: Tuple[bool, ...] = (False, True)  # allowed values of mode2D


_INSTS: List[Inst] = []
_counter = itertools.count(1)


def _pt():
    """A fresh position, distinct for every instance, inside all the prelude's regions."""
    i = next(_counter)
    return f"({i}, {-2 * i - 1}, 0)"


def _add(key, family, text, py, title, level, given=None, orient=False, vec=False, noproj=False, classes=None, modes=(False, True)):
    assert all(i.key != key for i in _INSTS), key
    _INSTS.append(Inst(key, family, text, py, SpecDesc(key, title, given, orient, vec, noproj), level, classes, modes))


def _with(key, prop, val, level, classes=None, modes=(False, True)):
    _add(key, "with", f"with {prop} {val}", f"With({prop!r}, {val})", M.T_WITH, level, given=prop, classes=classes, modes=modes)


# -- with ---------------------------------------------------------------------------
_with("w_foo", "foo", "11", QUICK)
_with("w_width", "width", "2.5", CORE)
_with("w_length", "length", "3.5", THOROUGH)
_with("w_height", "height", "4.5", THOROUGH)
_with("w_ct", "contactTolerance", "0.5", QUICK)
_with("w_po", "parentOrientation", "(0.7, 0, 0)", CORE)
_with("w_yaw", "yaw", "0.9", QUICK)
_with("w_pitch", "pitch", "0.2", THOROUGH)
_with("w_roll", "roll", "0.15", THOROUGH, modes=(False,))
_with("w_pos", "position", _pt(), QUICK)
_with("w_rci", "regionContainedIn", "r0", QUICK)
_with("w_heading", "heading", "1.1", CORE)  # derived in 3D; `facing 1.1` in 2D mode
# (not on Point classes: there `orientation` is an ordinary, untyped property and a tuple
# value breaks `left of <vector>` at evaluation: a typing matter, not one of resolution)
_with("w_orient", "orientation", "(1.2, 0, 0)", THOROUGH, classes=("Object", "OrientedPoint", "A", "B", "C", "Q", "H", "F"))
_with("w_ondir", "onDirection", "(0, 0, 1)", THOROUGH)
_with("w_base", "baseOffset", "(0, 0, -0.25)", THOROUGH)
_with("w_shape", "shape", "shp", THOROUGH)
USER = ("A", "B", "C", "P", "Q", "H", "F")
_with("w_a", "a", "21", QUICK, classes=USER)
_with("w_b", "b", "22", QUICK, classes=USER)
_with("w_c", "c", "23", THOROUGH, classes=USER)
_with("w_fin", "fin", "24", QUICK, classes=USER)
_with("w_tags", "tags", '"X"', QUICK, classes=USER)
_with("w_dyn", "dyn", "25", THOROUGH, classes=USER)

# dependencies of the generated class universes (GEN_KEYS), supplied by a specifier
for _k, _v in (("y1", "111"), ("y2", "222"), ("y3", "333"), ("y4", "444")):
    _with("w_" + _k, _k, _v, TABLE, classes=())
GEN_KEYS = {"chain": ("w_y1", "w_y2", "w_y3", "w_foo"), "mi": ("w_y1", "w_y2", "w_y3", "w_y4", "w_foo")}  # (nothing reads y4 in `chain`)

# -- position -----------------------------------------------------------------------
_p = _pt()
_add("at_v", "position", f"at {_p}", f"At({_p})", M.T_AT, CORE)
_add("at_pt", "position", "at pt", "At(pt)", M.T_AT, THOROUGH)
_add("at_op", "position", "at op", "At(op)", M.T_AT, TABLE)
_add("at_ob", "position", "at ob", "At(ob)", M.T_AT, TABLE)
_add("in_r0", "position", "in r0", "In(r0)", M.T_IN, QUICK)
_add("in_r1", "position", "in r1", "In(r1)", M.T_IN, CORE, orient=True)
_add("cin_r0", "position", "contained in r0", "ContainedIn(r0)", M.T_CONTAINED, QUICK)
_add("cin_r1", "position", "contained in r1", "ContainedIn(r1)", M.T_CONTAINED, THOROUGH, orient=True)
_add("on_m0", "position", "on m0", "On(m0)", M.T_ON, CORE)
_add("on_m1", "position", "on m1", "On(m1)", M.T_ON, CORE, orient=True)
# polygonal regions cannot project ("does not yet support projection using on"): fine as a
# specifying `on`, an argument-level refusal as a modifying one
_add("on_r0", "position", "on r0", "On(r0)", M.T_ON, THOROUGH, noproj=True)
_add("on_r1", "position", "on r1", "On(r1)", M.T_ON, QUICK, orient=True, noproj=True)
_add("on_ob", "position", "on ob", "On(ob)", M.T_ON, THOROUGH, orient=True, modes=(False,))  # ob.onSurface has an orientation
_p = _pt()
_add("on_v", "position", f"on {_p}", f"On({_p})", M.T_ON, QUICK, vec=True)
_p = _pt()
_add("offby", "position", f"offset by {_p}", f"OffsetBy({_p})", M.T_OFFSET_BY, QUICK)
_p = _pt()
_add("offalong_h", "position", f"offset along 0.3 by {_p}", f"OffsetAlongSpec(0.3, {_p})", M.T_OFFSET_ALONG, THOROUGH)
_p = _pt()
_add("offalong_vf", "position", f"offset along vf by {_p}", f"OffsetAlongSpec(vf, {_p})", M.T_OFFSET_ALONG, TABLE)
_p = _pt()
_add("beyond_s", "position", f"beyond {_p} by 2", f"Beyond({_p}, 2)", M.T_BEYOND, QUICK)
_p = _pt()
_add("beyond_v", "position", f"beyond {_p} by (1, 2, 0)", f"Beyond({_p}, (1, 2, 0))", M.T_BEYOND, TABLE)
_p = _pt()
_add("beyond_fv", "position", f"beyond {_p} by 2 from (0, 1, 0)", f"Beyond({_p}, 2, fromPt=(0, 1, 0))", M.T_BEYOND, THOROUGH)
_p = _pt()
_add("beyond_fop", "position", f"beyond {_p} by 2 from op", f"Beyond({_p}, 2, fromPt=op)", M.T_BEYOND, TABLE)
_add("vis", "position", "visible", "VisibleSpec()", M.T_VISIBLE, CORE)
_add("vis_pt", "position", "visible from pt", "VisibleFrom(pt)", M.T_VISIBLE, THOROUGH)
_add("vis_op", "position", "visible from op", "VisibleFrom(op)", M.T_VISIBLE, TABLE)
_add("vis_ob", "position", "visible from ob", "VisibleFrom(ob)", M.T_VISIBLE, TABLE)
_add("nvis", "position", "not visible", "NotVisibleSpec()", M.T_NOT_VISIBLE, CORE)
_add("nvis_pt", "position", "not visible from pt", "NotVisibleFrom(pt)", M.T_NOT_VISIBLE, THOROUGH)
_add("nvis_op", "position", "not visible from op", "NotVisibleFrom(op)", M.T_NOT_VISIBLE, TABLE)
_add("nvis_ob", "position", "not visible from ob", "NotVisibleFrom(ob)", M.T_NOT_VISIBLE, TABLE)

_DIRS = [
    ("left", "left of", "LeftSpec", (M.T_LR_VEC, M.T_LR_OP, M.T_LR_OBJ)),
    ("right", "right of", "RightSpec", (M.T_LR_VEC, M.T_LR_OP, M.T_LR_OBJ)),
    ("ahead", "ahead of", "Ahead", (M.T_AB_VEC, M.T_AB_OP, M.T_AB_OBJ)),
    ("behind", "behind", "Behind", (M.T_AB_VEC, M.T_AB_OP, M.T_AB_OBJ)),
    ("above", "above", "Above", (M.T_UD_VEC, M.T_UD_OP, M.T_UD_OBJ)),
    ("below", "below", "Below", (M.T_UD_VEC, M.T_UD_OP, M.T_UD_OBJ)),
]
_DIR_LEVEL = {
    "left_v": CORE,
    "left_op": QUICK,
    "left_ob": CORE,
    "left_pt": THOROUGH,
    "left_v_by": THOROUGH,
    "right_ob_by": THOROUGH,
    "ahead_v": QUICK,
    "ahead_ob": THOROUGH,
    "behind_op": THOROUGH,
    "above_v": THOROUGH,
    "below_ob": THOROUGH,
}
for _name, _syn, _fn, (_tv, _top, _tob) in _DIRS:
    for _by in (False, True):
        for _kind, _title in (("v", _tv), ("pt", _tv), ("op", _top), ("ob", _tob)):
            _key = f"{_name}_{_kind}" + ("_by" if _by else "")
            _arg = _pt() if _kind == "v" else _kind
            _d = 1 + next(_counter) / 8
            _text = f"{_syn} {_arg}" + (f" by {_d}" if _by else "")
            _py = f"{_fn}({_arg}" + (f", dist={_d})" if _by else ")")
            _add(_key, "position", _text, _py, _title, _DIR_LEVEL.get(_key, TABLE))

_add("follow", "position", "following vf for 3", "Following(vf, 3)", M.T_FOLLOWING, QUICK)
_add("follow_f", "position", "following vf from (1, 1, 0) for 4", "Following(vf, 4, fromPt=(1, 1, 0))", M.T_FOLLOWING, TABLE)

# -- orientation --------------------------------------------------------------------
_add("face_h", "orientation", "facing 0.6", "Facing(0.6)", M.T_FACING, CORE)
_add("face_o", "orientation", "facing (0.65, 0.1, 0.05)", "Facing((0.65, 0.1, 0.05))", M.T_FACING, THOROUGH, modes=(False,))
_add("face_vf", "orientation", "facing vf", "Facing(vf)", M.T_FACING_FIELD, QUICK)
_p = _pt()
_add("ftoward_v", "orientation", f"facing toward {_p}", f"FacingToward({_p})", M.T_FACING_TOWARD, CORE)
_add("ftoward_pt", "orientation", "facing toward pt", "FacingToward(pt)", M.T_FACING_TOWARD, TABLE)
_add("ftoward_ob", "orientation", "facing toward ob", "FacingToward(ob)", M.T_FACING_TOWARD, TABLE)
_p = _pt()
_add("faway_v", "orientation", f"facing away from {_p}", f"FacingAwayFrom({_p})", M.T_FACING_TOWARD, THOROUGH)
_p = _pt()
_add("fdtoward_v", "orientation", f"facing directly toward {_p}", f"FacingDirectlyToward({_p})", M.T_FACING_DIRECTLY, QUICK)
_p = _pt()
_add("fdaway_v", "orientation", f"facing directly away from {_p}", f"FacingDirectlyAwayFrom({_p})", M.T_FACING_DIRECTLY, THOROUGH)
_add("appface", "orientation", "apparently facing 0.8", "ApparentlyFacing(0.8)", M.T_APPARENTLY, QUICK)
_add("appface_f", "orientation", "apparently facing 0.85 from (1, 2, 0)", "ApparentlyFacing(0.85, fromPt=(1, 2, 0))", M.T_APPARENTLY, TABLE)

INSTS: Dict[str, Inst] = {i.key: i for i in _INSTS}
ORDER: Dict[str, int] = {i.key: n for n, i in enumerate(_INSTS)}


# ---------------------------------------------------------------------------------
# classes
# ---------------------------------------------------------------------------------
@dataclasses.dataclass(frozen=True)
class ClassDef:
    name: str
    base: object  # Object | OrientedPoint | Point | user class, or a tuple of user classes
    props: Tuple[Tuple[str, Tuple[str, ...], str], ...]  # (property, attributes, expression)
    modes: Tuple[bool, ...] = (False, True)
    group: str = "base"  # which prelude defines the class: base | chain | mi
    family: Optional[str] = None  # classes differing only in the order of their lines
    instantiate: bool = True

    @property
    def bases(self) -> Tuple[str, ...]:
        return self.base if isinstance(self.base, tuple) else (self.base,)


CLASSES: List[ClassDef] = [
    # plain, `self.`-dependent, additive, final and dynamic defaults + an overridden built-in one
    ClassDef(
        "A",
        "Object",
        (
            ("a", (), "5"),
            ("b", (), "self.a + 1"),
            ("c", (), "self.b * 2"),
            ("tags", ("additive",), '"tagA"'),
            ("fin", ("final",), "self.a * 3"),
            ("dyn", ("dynamic",), "7"),
            ("width", (), "2.25"),
        ),
    ),
    # inherited + overridden + additive chain + built-in properties depending on user ones
    ClassDef(
        "B",
        "A",
        (
            ("a", (), "6"),
            ("tags", ("additive",), '"tagB"'),
            ("yaw", (), "self.a / 100"),
            ("contactTolerance", (), "self.width / 8"),
        ),
    ),
    # a default depending on `position`: cyclic with every specifier that needs `width`
    ClassDef("C", "Object", (("a", (), "self.position.x + 1"), ("width", (), "self.a / 4 + 1"), ("b", (), "3"))),
    ClassDef("P", "Point", (("a", (), "1"), ("b", (), "self.a + 1"), ("fin", ("final",), "self.b + 1"))),
    ClassDef("Q", "OrientedPoint", (("a", (), "2"), ("b", (), "self.a * 2"), ("parentOrientation", (), "(self.a / 10, 0, 0)"))),
    # porting.rst: in 2D mode a default for `heading` is a default for `parentOrientation`
    ClassDef("H", "Object", (("a", (), "3"), ("heading", (), "self.a / 10")), modes=(True,)),
    # a derived (final) property that built-in specifiers other than `with` specify
    ClassDef("F", "Object", (("a", (), "4"), ("parentOrientation", ("final",), "(self.a / 40, 0, 0)"))),
]
BUILTIN = ("Object", "OrientedPoint", "Point")


# -- generated class universes: merging of defaults along inheritance -------------------
# One property `foo` is declared, per class of a hierarchy, in one of five ways; every level
# reads its own dependency y<k>, so that a merged default needs exactly the union.
FOO = ("0", "P", "Pd", "Ac", "Ad")  # absent | plain | plain, self. | additive | additive, self.


def _foo_line(opt, cls, k):
    if opt == "0":
        return None
    if opt == "P":
        return ("foo", (), f'"p_{cls}"')
    if opt == "Pd":
        return ("foo", (), f"self.y{k}")
    if opt == "Ac":
        return ("foo", ("additive",), f'"a_{cls}"')
    return ("foo", ("additive",), f"self.y{k}")


_ROOT_PROPS = (("y1", (), "101"), ("y2", (), "202"), ("y3", (), "303"), ("y4", (), "404"))


def _chain_universe(tier):
    """Single inheritance, depth 3: every way of declaring `foo` at every level (plain after
    additive, additive after plain, ...); the leaf also has a second reader `z` of the deep
    dependencies, written after `foo` and (family variant _r) before it."""
    # quick: rooted at Point (defining a subclass of Object costs 11 ms in Scenic, of Point
    # 3 ms; the merging code is the same) and without the constant plain declaration at the
    # two lower levels (`plain, self.` subsumes it); thorough: everything, rooted at Object
    quick = tier == "quick"
    lower = tuple(o for o in FOO if not (quick and o == "P"))
    out = [ClassDef("R0", "Point" if quick else "Object", _ROOT_PROPS, group="chain", instantiate=False)]
    z = ("z", (), "self.y1 + self.y2 + 1")
    for o1 in FOO:
        n1 = f"S_{o1}"
        out.append(ClassDef(n1, "R0", tuple(x for x in (_foo_line(o1, n1, 1),) if x), group="chain", family=n1))
        for o2 in lower:
            n2 = f"{n1}_{o2}"
            out.append(ClassDef(n2, n1, tuple(x for x in (_foo_line(o2, n2, 2),) if x), group="chain", family=n2))
            for o3 in lower:
                n3 = f"{n2}_{o3}"
                f = _foo_line(o3, n3, 3)
                out.append(ClassDef(n3, n2, tuple(x for x in (f, z) if x), group="chain", family=n3))
                if f:
                    out.append(ClassDef(n3 + "_r", n2, (z, f), group="chain", family=n3))
    return out


def _mi_universe(tier):
    """Multiple inheritance over a common root (diamonds): C(U, V) and C(V, U), `foo`
    declared in any way in the first base, the non-first base, the root and C itself;
    final / dynamic / `self.`-dependent plain defaults from first and non-first bases."""
    ij = ("0", "Pd", "Ad") if tier == "quick" else FOO
    cs = ("0", "Ac", "Ad") if tier == "quick" else ("0", "P", "Ac", "Ad")
    out = []
    for r, rline in (("0", None), ("1", ("foo", ("additive",), "self.y4"))):
        root = f"R{r}m"
        out.append(ClassDef(root, "Point" if tier == "quick" else "Object", _ROOT_PROPS + ((rline,) if rline else ()), group="mi", instantiate=False))
        for i in ij:
            n = f"U{r}_{i}"
            props = tuple(x for x in (_foo_line(i, n, 1),) if x) + (("fin", ("final",), "self.y1 + 10"), ("w", (), "self.y1 * 2"))
            out.append(ClassDef(n, root, props, group="mi", family=n))
        for j in ij:
            n = f"V{r}_{j}"
            props = (("dyn", ("dynamic",), "self.y2 + 20"), ("w", (), "self.y2 * 3")) + tuple(x for x in (_foo_line(j, n, 2),) if x)
            out.append(ClassDef(n, root, props, group="mi", family=n))
        z = ("z", (), "self.y1 + self.y2 + self.y4 + 1")
        # (partners that declare `foo` with a dependency first: a base class combined with one
        # partner must not change what it contributes when combined with the next)
        for i in reversed(ij):
            for j in reversed(ij):
                for c in cs:
                    for tag, bases in (("uv", (f"U{r}_{i}", f"V{r}_{j}")), ("vu", (f"V{r}_{j}", f"U{r}_{i}"))):
                        n = f"M{r}_{i}_{j}_{c}_{tag}"
                        f = _foo_line(c, n, 3)
                        out.append(ClassDef(n, bases, tuple(x for x in (f, z) if x), group="mi", family=n))
                        if f and tier != "quick":
                            out.append(ClassDef(n + "_r", bases, (z, f), group="mi", family=n))
    return out


_GEN_CACHE = {}


def generated(group: str, tier: str) -> List[ClassDef]:
    key = (group, "quick" if tier == "quick" else "thorough")
    if key not in _GEN_CACHE:
        _GEN_CACHE[key] = _chain_universe(tier) if group == "chain" else _mi_universe(tier)
    return _GEN_CACHE[key]


GROUPS = ("base", "chain", "mi")


def classes_of(group: str, tier: str = "quick") -> List[ClassDef]:
    return CLASSES if group == "base" else generated(group, tier)


def classdefs(group: str, tier: str = "quick") -> Dict[str, ClassDef]:
    return {c.name: c for c in classes_of(group, tier)}


CLASSDEFS = {c.name: c for c in CLASSES}


def class_text(c: ClassDef) -> str:
    lines = [f"class {c.name}({', '.join(c.bases)}):"]
    for prop, attrs, expr in c.props:
        a = f"[{', '.join(attrs)}]" if attrs else ""
        lines.append(f"    {prop}{a}: {expr}")
    if not c.props:
        lines.append("    pass")
    return "\n".join(lines)


def class_decls(c: ClassDef, mode2D: bool) -> Dict[str, M.Decl]:
    out = {}
    for prop, attrs, expr in c.props:
        deps = frozenset(re.findall(r"self\.(\w+)", expr))
        if mode2D and prop == "heading":
            prop = "parentOrientation"
        out[prop] = M.Decl(deps, "final" in attrs, "additive" in attrs, "dynamic" in attrs, expr)
    return out


def prelude(mode2D: bool, group: str = "base", tier: str = "quick", only_families=None) -> str:
    if group != "base":
        # class universes: nothing but the classes (plus what their families' bases need)
        cls = classes_of(group, tier)
        if only_families is not None:
            defs = {c.name: c for c in cls}
            need = set()

            def add(n):
                if n in defs and n not in need:
                    need.add(n)
                    for b in defs[n].bases:
                        add(b)

            for c in cls:
                if c.family in only_families:
                    add(c.name)
            cls = [c for c in cls if c.name in need]
        parts = ["import checks.c06 as c06mod"] + [class_text(c) for c in cls if mode2D in c.modes]
        return "\n".join(parts) + "\n"
    parts = [
        "import checks.c06 as c06mod",
        "workspace = Workspace(RectangularRegion((0, 0, 0), 0, 900, 900))",
        'vf = VectorField("vf", lambda pos: 0.4)',
        "r0 = RectangularRegion((5, 5, 0), 0, 700, 700)",
        "r1 = PolygonalRegion([(-340, -340), (340, -340), (340, 340), (-340, 340)], orientation=vf)",
        "m0 = BoxRegion(dimensions=(700, 700, 2), position=(0, 0, -1))",
        "m1 = BoxRegion(dimensions=(680, 680, 2), position=(0, 0, -1), orientation=vf)",
        "shp = BoxShape(dimensions=(1.25, 1.5, 1.75))",
    ]
    for c in CLASSES:
        if mode2D in c.modes:
            parts.append(class_text(c))
    parts += [
        "ego = new Object at (300, 301, 0), facing 0.25, with width 1.5, with length 2.5",
        "pt = new Point at (310, 311, 0)",
        "op = new OrientedPoint at (320, 321, 0), facing 0.5",
        "ob = new Object at (330, 331, 0), facing 0.75, with width 2, with length 3, with height 4",
    ]
    return "\n".join(parts) + "\n"


# ---------------------------------------------------------------------------------
# multisets
# ---------------------------------------------------------------------------------
def instances_for(cls: str, mode2D: bool, level: int, families=None) -> List[str]:
    out = []
    for i in _INSTS:
        if i.level > level or mode2D not in i.modes:
            continue
        if i.classes is not None and cls not in i.classes:
            continue
        if families is not None and i.family not in families:
            continue
        out.append(i.key)
    return out


def multisets(keys: List[str], size: int):
    return itertools.combinations_with_replacement(keys, size)


def permutations(ms: Tuple[str, ...]) -> List[Tuple[str, ...]]:
    seen = []
    for p in itertools.permutations(ms):
        if p not in seen:
            seen.append(p)
    return seen


def plan_generated(tier: str):
    """[(group, class, mode2D, multiset)] for the class universes: the dependencies of the
    merged defaults come from class defaults (empty multiset) or from a specifier."""
    out = []
    for group in ("chain", "mi"):
        for mode2D in ((False,) if tier == "quick" else (False, True)):
            for c in generated(group, tier):
                if not c.instantiate or mode2D not in c.modes:
                    continue
                for size in (0, 1) if tier == "quick" else (0, 1, 2):
                    for ms in multisets(list(GEN_KEYS[group]), size):
                        out.append((group, c.name, mode2D, ms))
    return out


def plan(tier: str):
    """[(class, mode2D, multiset)] — simplest first."""
    out = []
    user = [c.name for c in CLASSES]
    allc = list(BUILTIN) + user
    for mode2D in (False, True):
        for cls in allc:
            if cls in CLASSDEFS and mode2D not in CLASSDEFS[cls].modes:
                continue
            if tier == "quick":
                sizes = [(0, QUICK), (1, TABLE), (2, QUICK)]
                if cls in ("Object", "B"):
                    sizes.append((3, CORE))
            else:
                sizes = [(0, QUICK), (1, TABLE), (2, THOROUGH)]
                if cls == "Object":
                    sizes.append((3, THOROUGH))
                elif cls in ("B", "Point", "C"):
                    sizes.append((3, QUICK))
                else:
                    sizes.append((3, CORE))
            for size, level in sizes:
                for ms in multisets(instances_for(cls, mode2D, level), size):
                    out.append((cls, mode2D, ms))
            if tier == "thorough" and cls == "Object":
                # size 4 restricted to the position / orientation / `with` core
                keys4 = instances_for(cls, mode2D, CORE) + [k for k in ("w_yaw", "in_r0", "on_m0") if mode2D in INSTS[k].modes]
                for ms in multisets(sorted(set(keys4), key=ORDER.get), 4):
                    out.append((cls, mode2D, ms))
    return out
