"""C05 -- typed expression trees over random values: generator, Scenic builders, plain-Python oracle.

Three interpreters of one small IR (nested tuples):

* ``build``   constructs the expression through Scenic's *Python API* (operators applied to
              Distribution / Vector / Orientation objects, exactly what compiled Scenic code does);
* ``render``  prints the expression as *Scenic source text* (so the compiler's lifting is covered);
* ``pyeval``  evaluates it with ordinary Python arithmetic on the sampled values of its random
              leaves.  Vectors / orientations are modelled by the plain classes ``PVec`` / ``POri``
              written from the reference (docs/reference/data.rst, operators.rst): component-wise
              vector arithmetic, planar rotation, intrinsic ZXY Euler angles via scipy's Rotation --
              no Scenic code on this side.

IR
    ("c", v)                       constant (number, str, PVec, POri, 3-tuple used as a vector)
    ("L", name, i)                 random leaf #i, spec LEAVES[name]
    ("P", prop)                    pseudo leaf: final value of self.<prop>           (compiled only)
    ("D", kind, K)                 pseudo leaf: (K relative to vf).yaw, lazily evaluated (compiled only)
    ("M", mkind, i, kids...)       derived leaf (star / rng / drng / unif): value read back, membership oracle
    ("bin", op, a, b) ("un", op, a) ("rnd", a, n) ("attr", name, a) ("idx", a, i)
    ("slc", a, lo, hi) ("len", a) ("call", f, args, kw) ("meth", m, obj, args, kw)
    ("tup"|"lst"|"nt", items) ("dct", ((key, node), ...)) ("vec", items) ("euler", items)
"""

from __future__ import annotations

import builtins
import cmath
import collections
import itertools
import math
import operator
import typing
import warnings

from scipy.spatial.transform import Rotation

# ==========================================================================================
# plain-Python value model
# ==========================================================================================


def _norm_angle(a):
    while a > math.pi:
        a -= math.tau
    while a < -math.pi:
        a += math.tau
    return a


class PVec:
    """Plain 3-vector (reference semantics of Scenic vectors)."""

    __slots__ = ("x", "y", "z")

    def __init__(self, x, y, z=0):
        self.x, self.y, self.z = x, y, z

    @staticmethod
    def co(o):
        if isinstance(o, PVec):
            return (o.x, o.y, o.z)
        if isinstance(o, (tuple, list)) and len(o) == 3:
            return tuple(o)
        raise TypeError(f"not a vector: {o!r}")

    def __iter__(self):
        return iter((self.x, self.y, self.z))

    def __len__(self):
        return 3

    def __getitem__(self, i):
        return (self.x, self.y, self.z)[i]

    def __add__(self, o):
        a, b, c = PVec.co(o)
        return PVec(self.x + a, self.y + b, self.z + c)

    __radd__ = __add__

    def __sub__(self, o):
        a, b, c = PVec.co(o)
        return PVec(self.x - a, self.y - b, self.z - c)

    def __rsub__(self, o):
        a, b, c = PVec.co(o)
        return PVec(a - self.x, b - self.y, c - self.z)

    def __mul__(self, k):
        if isinstance(k, (PVec, POri, tuple, list, str)):
            raise TypeError("vector times non-scalar")
        return PVec(self.x * k, self.y * k, self.z * k)

    __rmul__ = __mul__

    def __truediv__(self, k):
        if isinstance(k, (PVec, POri, tuple, list, str)):
            raise TypeError("vector divided by non-scalar")
        return PVec(self.x / k, self.y / k, self.z / k)

    def distanceTo(self, other):
        a, b, c = PVec.co(other)
        return math.hypot(a - self.x, b - self.y, c - self.z)

    def norm(self):
        return math.hypot(self.x, self.y, self.z)

    def dot(self, other):
        a, b, c = PVec.co(other)
        return self.x * a + self.y * b + self.z * c

    def angleTo(self, other):
        a, b, c = PVec.co(other)
        return _norm_angle(math.atan2(b - self.y, a - self.x) - math.pi / 2)

    def rotatedBy(self, angleOrOrientation):
        a = angleOrOrientation
        if isinstance(a, POri):
            return PVec(*(float(t) for t in a.r.apply([self.x, self.y, self.z])))
        c, s = math.cos(a), math.sin(a)
        return PVec(c * self.x - s * self.y, s * self.x + c * self.y, self.z)

    def offsetRotated(self, a, offset):
        return self + offset.rotatedBy(a)

    def __repr__(self):
        return f"PVec({self.x!r}, {self.y!r}, {self.z!r})"


class GimbalLock(Exception):
    """Euler angles not unique for this rotation: nothing to compare."""


class POri:
    """Plain orientation: a scipy Rotation; intrinsic yaw (Z), pitch (X), roll (Y)."""

    __slots__ = ("r",)

    def __init__(self, r):
        self.r = r

    @staticmethod
    def fromEuler(yaw, pitch, roll):
        return POri(Rotation.from_euler("ZXY", [yaw, pitch, roll]))

    @staticmethod
    def heading(h):
        return POri(Rotation.from_euler("Z", h))

    def __mul__(self, o):
        if not isinstance(o, POri):
            raise TypeError("orientation times non-orientation")
        return POri(self.r * o.r)

    def __add__(self, o):
        if isinstance(o, POri):
            return self * o
        if isinstance(o, (int, float)) and not isinstance(o, bool):
            return self * POri.heading(o)
        raise TypeError("orientation plus non-heading")

    def __radd__(self, o):
        if isinstance(o, (int, float)) and not isinstance(o, bool):
            return POri.heading(o) * self
        raise TypeError("non-heading plus orientation")

    @property
    def inverse(self):
        return POri(self.r.inv())

    @property
    def euler(self):
        with warnings.catch_warnings():
            warnings.simplefilter("error")
            try:
                return tuple(float(t) for t in self.r.as_euler("ZXY"))
            except UserWarning:
                raise GimbalLock() from None

    yaw = property(lambda self: self.euler[0])
    pitch = property(lambda self: self.euler[1])
    roll = property(lambda self: self.euler[2])

    def localAnglesFor(self, o):
        return (self.inverse * o).euler

    def __repr__(self):
        return "POri.fromEuler(%r, %r, %r)" % self.euler


IDENT = POri.fromEuler(0, 0, 0)


def fieldfn_plain(x, y):
    return 0.1 * x - 0.2 * y + 0.0537


def fieldfn(pos):
    """Heading of the test vector field at a position (used from Scenic programs)."""
    return fieldfn_plain(pos.x, pos.y)


# ---- functions that get lifted (the Scenic side wraps them, the oracle calls them as is) ----


def f1(a, b=1):
    return a * 2 + b


def pair(a, b=0) -> typing.Tuple[float, float]:
    return (a + b, a - b)


def optf(a) -> typing.Optional[float]:
    return a * 3


NT = collections.namedtuple("NT", "a b")

PLAIN_FUNCS = {
    "f1": f1,
    "pair": pair,
    "optf": optf,
    "hypot": math.hypot,
    "max": builtins.max,
    "min": builtins.min,
    "sin": math.sin,
    "cos": math.cos,
}

_wrapped = {}


def scenic_funcs():
    """name -> the lifted (distributionFunction-wrapped) callable used on the Scenic side."""
    if not _wrapped:
        from scenic.core.distributions import distributionFunction
        import scenic.core.geometry as geo

        _wrapped.update(
            f1=distributionFunction(f1),
            pair=distributionFunction(pair),
            optf=distributionFunction(optf),
            hypot=geo.hypot,
            max=geo.max,
            min=geo.min,
            sin=geo.sin,
            cos=geo.cos,
        )
    return _wrapped


def __getattr__(name):  # G.F1 / G.PAIR / G.OPTF / G.GLOBAL from Scenic programs
    if name in ("F1", "PAIR", "OPTF"):
        return scenic_funcs()[{"F1": "f1", "PAIR": "pair", "OPTF": "optf"}[name]]
    if name == "GLOBAL":
        from scenic.core.vectors import globalOrientation

        return globalOrientation
    raise AttributeError(name)


RENDER_FUNC = {"f1": "G.F1", "pair": "G.PAIR", "optf": "G.OPTF"}

# probe used inside `require` statements: records what the requirement closure saw
PROBE = []


def probe(result, *seen):
    PROBE.append((result, seen))
    return result


# ==========================================================================================
# alphabet
# ==========================================================================================

# name -> (type, spec).  types: S scalar, I small int (index), V vector, O orientation,
# Q sequence (list/tuple valued), Z string
LEAVES = {
    "Ui": ("S", ("U", (-2, 1, 3))),
    "Uf": ("S", ("U", (0.5, -1.5))),
    "Di": ("S", ("Dis", ((1, 1), (4, 3)))),
    "Dp": ("S", ("DR", 1, 3)),
    "Dz": ("S", ("DR", -2, 2)),
    "Rp": ("S", ("R", 0.5, 2.5)),
    "Rz": ("S", ("R", -3, 2)),
    "Rn": ("S", ("R", -2.5, -0.5)),
    "No": ("S", ("N", 1, 2)),
    "Tn": ("S", ("TN", 0, 1, -2.5, 1.5)),
    "Ix": ("I", ("DR", 0, 1)),
    "Vu": ("V", ("UV", ((1, 2, 0), (-3, 0.5, 2)))),
    "Ou": ("O", ("UO", ((0.5, 0, 0), (-1, 0.4, 0.2)))),
    "Ll": ("Q", ("UL", ((1, 2, 3), (4, 5, 6)))),
    "Lm": ("Q", ("UL", ((1, 2), (3, 4, 5)))),
    "Lt": ("Q", ("UT", ((1, 2.5), (3, 4.5)))),
    "Su": ("Z", ("U", ("a", "bc"))),
}
CONTINUOUS = {"R", "N", "TN"}

# named constants: ("k", name) nodes
NAMED = {
    "$V0": PVec(0, 0, 0),
    "$V1": PVec(1, 2, 0),
    "$V2": PVec(-3, 0.5, 2),
    "$T0": (0, 0, 0),  # plain tuples used as vector operands
    "$T1": (1, 2, 0),
    "$I": IDENT,  # the global orientation
    "$O1": POri.fromEuler(0.3, 0.2, -0.1),
}
NAMED_SRC = {
    "$V0": "Vector(0, 0, 0)",
    "$V1": "Vector(1, 2, 0)",
    "$V2": "Vector(-3, 0.5, 2)",
    "$T0": "(0, 0, 0)",
    "$T1": "(1, 2, 0)",
    "$I": "G.GLOBAL",
    "$O1": "Orientation.fromEuler(0.3, 0.2, -0.1)",
}
NAMED_SHAPE = {"$V0": "vec0", "$V1": "vec", "$V2": "vec", "$T0": "tuple0", "$T1": "tuple", "$I": "identity", "$O1": "ori"}
CV0, CV1, CV2, TV0, TV1, CO1 = "$V0", "$V1", "$V2", "$T0", "$T1", "$O1"

BINOPS = ("+", "-", "*", "/", "//", "%", "**", "divmod")
PYOP = {
    "+": operator.add,
    "-": operator.sub,
    "*": operator.mul,
    "/": operator.truediv,
    "//": operator.floordiv,
    "%": operator.mod,
    "**": operator.pow,
    "divmod": divmod,
}
UNOPS = ("neg", "pos", "abs", "round")
PYUN = {"neg": operator.neg, "pos": operator.pos, "abs": abs, "round": round}

# (op, side-of-constant, constant) for which Scenic simplifies the expression forest
SHORTCUTS = {
    ("+", "r", 0): "x+0",
    ("+", "l", 0): "0+x",
    ("-", "r", 0): "x-0",
    ("*", "r", 1): "x*1",
    ("*", "l", 1): "1*x",
    ("/", "r", 1): "x/1",
    ("//", "r", 1): "x//1",
    ("**", "r", 1): "x**1",
}


def _alph(S, CS, CA, rrS, I=("Ix",), V=("Vu",), O=("Ou",), Q=("Ll",), Z=("Su",), CV=(CV1,), CO=(CO1,), IDX=(0,)):
    return dict(
        leaves=dict(S=list(S), I=list(I), V=list(V), O=list(O), Q=list(Q), Z=list(Z)),
        consts=dict(
            CS=list(CS),  # operands of scalar arithmetic
            CA=list(CA),  # arguments of everything else (calls, containers, vectors, ...)
            CM=[2, -1.5],  # vector scaling
            CE=[0.2],  # Euler angles
            IDX=list(IDX),
            IDX0=[0, 1],
            CI=[2],
            CV=[v for v in CV if not v.startswith("$T")],
            CVT=list(CV),
            CO=list(CO),
            CZ=["x"],
        ),
        rr=dict(S=list(rrS)),
    )


def alphabet(level):
    """Alphabets.  'full' is used for depth-1 trees; the nested levels use smaller ones."""
    if level == "full":
        return _alph(
            S=["Ui", "Uf", "Di", "Dp", "Dz", "Rp", "Rz", "Rn", "No", "Tn"],
            CS=[0, 1, 2, -3, 2.5, -1.5, 0.0, 1.0],
            CA=[0.5, -2],
            rrS=["Ui", "Dz", "Rp", "Rz", "No"],
            Q=["Ll", "Lm", "Lt"],
            CV=[CV0, CV1, CV2, TV0, TV1],
            CO=["$I", CO1],
            IDX=[0, 1, -1],
        )
    # ---- subtrees that get nested ----
    if level == "inner":
        return _alph(S=["Ui", "Rz", "No"], CS=[2, -1.5], CA=[0.5], rrS=["Ui", "Rz"])
    if level == "inner-small":
        return _alph(S=["Ui", "Rz", "No"], CS=[2], CA=[0.5], rrS=[])
    if level == "inner-tiny":
        return _alph(S=["Ui", "Rz"], CS=[-1.5], CA=[0.5], rrS=[], I=[], O=[], Z=[])
    # ---- what a non-leaf child is combined with ----
    if level == "outer":
        return _alph(S=["Ui", "Rz"], CS=[0, 1, 2, -1.5], CA=[0.5], rrS=[], Q=[], Z=[], CV=[CV0, CV1], CO=["$I", CO1], IDX=[0, -1])
    if level == "outer-small":
        return _alph(S=[], CS=[0, 1, -1.5], CA=[0.5], rrS=[], I=[], V=[], O=[], Q=[], Z=[], CV=[CV0, CV1], CO=["$I", CO1])
    if level == "outer-tiny":
        return _alph(S=[], CS=[2], CA=[0.5], rrS=[], I=[], V=[], O=[], Q=[], Z=[])
    raise ValueError(level)


# ==========================================================================================
# productions
# ==========================================================================================

Prod = collections.namedtuple("Prod", "name rtype slots make maxrand")
# slot = (type, constpool or None)


def _productions():
    P = []

    def add(name, rtype, slots, make, maxrand=2):
        P.append(Prod(name, rtype, tuple(slots), make, maxrand))

    S = ("S", "CS")
    for op in BINOPS:
        add(f"bin{op}", "Q" if op == "divmod" else "S", [S, S], lambda a, b, op=op: ("bin", op, a, b))
    S = ("S", "CA")  # everything that is not scalar arithmetic combines with the small pool
    for op in UNOPS:
        add(f"un-{op}", "S", [("S", None)], lambda a, op=op: ("un", op, a))
    add("round-ndigits", "S", [("S", None)], lambda a: ("rnd", a, 1))
    for at in ("x", "y", "z"):
        add(f"attr-{at}", "S", [("V", None)], lambda a, at=at: ("attr", at, a))
    for at in ("yaw", "pitch", "roll"):
        add(f"attr-{at}", "S", [("O", None)], lambda a, at=at: ("attr", at, a))
    add("attr-inverse", "O", [("O", None)], lambda a: ("attr", "inverse", a))
    add("idx", "S", [("Q", None), ("I", "IDX")], lambda a, i: ("idx", a, i))
    add("idx-str", "Z", [("Z", None), ("I", "IDX")], lambda a, i: ("idx", a, i))
    add("slice-lo", "Q", [("Q", None), ("I", "IDX")], lambda a, i: ("slc", a, i, None))
    add("slice-hi", "Q", [("Q", None), ("I", "IDX")], lambda a, i: ("slc", a, None, i))
    add("slice-str", "Z", [("Z", None), ("I", "IDX")], lambda a, i: ("slc", a, i, None))
    add("len", "S", [("Q", None)], lambda a: ("len", a))
    add("len-str", "S", [("Z", None)], lambda a: ("len", a))
    # lifted functions
    add("call-f1", "S", [("S", None)], lambda a: ("call", "f1", (a,), ()))
    add("call-f1-kw", "S", [S, S], lambda a, b: ("call", "f1", (a,), (("b", b),)))
    add("call-f1-allkw", "S", [S, S], lambda a, b: ("call", "f1", (), (("b", b), ("a", a))))
    add("call-pair", "Q", [("S", None)], lambda a: ("call", "pair", (a,), ()))
    add("call-pair-kw", "Q", [S, S], lambda a, b: ("call", "pair", (a,), (("b", b),)))
    add("call-optf", "S", [("S", None)], lambda a: ("call", "optf", (a,), ()))
    for fn in ("hypot", "max", "min"):
        add(f"call-{fn}", "S", [S, S], lambda a, b, fn=fn: ("call", fn, (a, b), ()))
    for fn in ("sin", "cos"):
        add(f"call-{fn}", "S", [("S", None)], lambda a, fn=fn: ("call", fn, (a,), ()))
    # methods
    V = ("V", "CV")
    add("meth-distanceTo", "S", [V, V], lambda a, b: ("meth", "distanceTo", a, (b,), ()))
    add("meth-distanceTo-kw", "S", [V, V], lambda a, b: ("meth", "distanceTo", a, (), (("other", b),)))
    add("meth-norm", "S", [("V", None)], lambda a: ("meth", "norm", a, (), ()))
    add("meth-dot", "S", [V, V], lambda a, b: ("meth", "dot", a, (b,), ()))
    add("meth-angleTo", "S", [V, V], lambda a, b: ("meth", "angleTo", a, (b,), ()))
    add("meth-rotatedBy", "V", [V, ("S", "CA")], lambda a, b: ("meth", "rotatedBy", a, (b,), ()))
    add("meth-rotatedBy-ori", "V", [V, ("O", "CO")], lambda a, b: ("meth", "rotatedBy", a, (b,), ()))
    add(
        "meth-offsetRotated",
        "V",
        [V, ("S", "CA")],
        lambda a, b: ("meth", "offsetRotated", a, (b, ("k", CV1)), ()),
    )
    add("meth-upper", "Z", [("Z", None)], lambda a: ("meth", "upper", a, (), ()))
    add("meth-count", "S", [("Q", None), S], lambda a, b: ("meth", "count", a, (b,), ()))
    add("meth-localAnglesFor", "Q", [("O", "CO"), ("O", "CO")], lambda a, b: ("meth", "localAnglesFor", a, (b,), ()))
    # vectors
    add("vec", "V", [S, S], lambda a, b: ("vec", (a, b)))
    add("vec3", "V", [S, S, S], lambda a, b, c: ("vec", (a, b, c)), maxrand=1)
    VT = ("V", "CVT")  # vector operands of + and - may also be plain 3-tuples
    add("vec+", "V", [VT, VT], lambda a, b: ("bin", "+", a, b))
    add("vec-", "V", [VT, VT], lambda a, b: ("bin", "-", a, b))
    add("vec*s", "V", [V, ("S", "CM")], lambda a, b: ("bin", "*", a, b))
    add("s*vec", "V", [("S", "CM"), V], lambda a, b: ("bin", "*", a, b))
    add("vec/s", "V", [V, ("S", "CM")], lambda a, b: ("bin", "/", a, b))
    # orientations
    O = ("O", "CO")
    add("ori*", "O", [O, O], lambda a, b: ("bin", "*", a, b))
    add("ori+s", "O", [O, ("S", "CA")], lambda a, b: ("bin", "+", a, b))
    add("s+ori", "O", [("S", "CA"), O], lambda a, b: ("bin", "+", a, b))
    add("euler", "O", [S, ("S", "CE"), ("S", "CE")], lambda a, b, c: ("euler", (a, b, c)), maxrand=1)
    add("euler-pitch", "O", [("S", "CE"), ("S", None), ("S", "CE")], lambda a, b, c: ("euler", (a, b, c)), maxrand=1)
    # strings
    Z = ("Z", "CZ")
    add("str+", "Z", [Z, Z], lambda a, b: ("bin", "+", a, b))
    add("str*", "Z", [("Z", None), ("I", "CI")], lambda a, b: ("bin", "*", a, b))
    add("int*str", "Z", [("I", "CI"), ("Z", None)], lambda a, b: ("bin", "*", a, b))
    # container literals (root only: type K is consumed by nothing)
    add("cont-tuple", "K", [S, S], lambda a, b: ("tup", (a, b)))
    add("cont-list", "K", [S, S], lambda a, b: ("lst", (a, b)))
    add("cont-namedtuple", "K", [S, S], lambda a, b: ("nt", (a, b)))
    add("cont-dict", "K", [S, S], lambda a, b: ("dct", (("a", a), ("b", b))))
    add("cont-nested-tuple", "K", [S, S], lambda a, b: ("tup", (("lst", (a, ("c", 7))), b)))
    add("cont-dict-in-tuple", "K", [S, S], lambda a, b: ("tup", (("dct", (("k", a),)), b)))
    add("cont-tuple-in-dict", "K", [S, S], lambda a, b: ("dct", (("k", ("tup", (a, ("c", 7)))), ("b", b))))
    add("cont-tuple-vec", "K", [("V", None), S], lambda a, b: ("tup", (a, b)))
    # indexing a container literal
    add("idx-literal", "S", [("S", None), S, ("I", "IDX0")], lambda a, b, i: ("idx", ("tup", (a, b)), i), maxrand=2)
    # derived leaves
    add("star", "S", [("Q", None)], lambda a: ("M", "star", None, a))
    add("star-extra", "S", [("Q", None), S], lambda a, b: ("M", "star", None, a, b))
    add("range-of", "S", [S, S], lambda a, b: ("M", "rng", None, a, b))
    add("discrete-range-of", "S", [S, S], lambda a, b: ("M", "drng", None, a, b))
    add("uniform-of", "S", [S, S], lambda a, b: ("M", "unif", None, a, b))
    return P


PRODUCTIONS = _productions()


QUICK_DEPTH1_ONLY = {
    "bindivmod", "un-pos", "round-ndigits", "call-f1-allkw", "call-pair-kw", "call-min", "call-cos", "cont-nested-tuple",
    "cont-dict-in-tuple", "cont-tuple-in-dict", "cont-list", "vec3", "s*vec", "vec/s", "meth-offsetRotated", "meth-angleTo", "meth-dot",
    "s+ori", "euler-pitch", "uniform-of", "star-extra", "slice-hi", "meth-localAnglesFor", "idx-literal", "call-pair",
}  # fmt: skip


def is_const(n):
    return n[0] in ("c", "k")


def nleaves(n):
    if not isinstance(n, tuple) or not n:
        return 0
    if n[0] in ("L", "P", "D"):
        return 1
    if n[0] in ("c", "k"):
        return 0
    return sum(nleaves(x) for x in n[1:] if isinstance(x, tuple))


def nderived(n):
    if not isinstance(n, tuple) or not n or n[0] in ("c", "k"):
        return 0
    return (1 if n[0] == "M" else 0) + sum(nderived(x) for x in n[1:] if isinstance(x, tuple))


def depth(n):
    if not isinstance(n, tuple) or not n or n[0] in ("c", "k", "L", "P", "D"):
        return 0
    if n[0] in ("tup", "lst", "nt", "vec", "euler"):
        return 1 + max(depth(x) for x in n[1])
    if n[0] == "dct":
        return 1 + max(depth(x) for _, x in n[1])
    if n[0] == "call":
        return 1 + max([depth(x) for x in n[2]] + [depth(x) for _, x in n[3]])
    if n[0] == "meth":
        return 1 + max([depth(n[2])] + [depth(x) for x in n[3]] + [depth(x) for _, x in n[4]])
    return 1 + max([depth(x) for x in n[1:] if isinstance(x, tuple)] or [0])


def shortcut_of(n):
    """Name of the identity simplification a ("bin", op, a, b) node is an instance of, if any."""
    if n[0] != "bin":
        return None
    for side, c in (("r", n[3]), ("l", n[2])):
        if c[0] == "c" and isinstance(c[1], (int, float)) and not isinstance(c[1], bool):
            for (op, sd, val), name in SHORTCUTS.items():
                if op == n[1] and sd == side and c[1] == val:
                    return name
    return None


def expand(fresh, older, consts, maxleaves=3, allow_ff=True, only=None, rr=None, lean=False):
    """All applications of the productions with >= 1 'fresh' child.

    fresh / older: dict type -> list of random expressions; consts: pool name -> values.
    rr: optional dict type -> list of leaf names allowed when two slots are both *leaves*.
    Returns dict rtype -> list of (family, node).
    """
    out = collections.defaultdict(list)
    for p in PRODUCTIONS:
        if only is not None and p.name not in only:
            continue
        cands = []
        for st, pool in p.slots:
            c = [(n, "f") for n in fresh.get(st, ())] + [(n, "o") for n in older.get(st, ())]
            if st == "S":  # index leaves are scalars too
                pass
            if pool is not None:
                c += [((("k", v) if isinstance(v, str) and v.startswith("$") else ("c", v)), "c") for v in consts.get(pool, ())]
            cands.append(c)
        if allow_ff:
            combos = itertools.product(*cands)
        else:  # exactly one fresh child: choose its slot, fill the others with older / constants
            combos = itertools.chain.from_iterable(
                itertools.product(
                    *[
                        [x for x in c if (x[1] == "f") == (j == i)]
                        for i, c in enumerate(cands)
                    ]
                )
                for j in range(len(cands))
            )
        for combo in combos:
            nf = sum(1 for _, t in combo if t == "f")
            if nf == 0:
                continue
            nrand = sum(1 for _, t in combo if t != "c")
            if nrand > p.maxrand:
                continue
            if nf > 1 and not allow_ff:
                continue
            if nrand > 1 and rr is not None:
                lv = [n for n, t in combo if t != "c" and n[0] == "L"]
                if len(lv) == nrand and any(n[1] not in rr.get(LEAVES[n[1]][0], [n[1]]) for n in lv):
                    continue
            if sum(nleaves(n) for n, _ in combo) > maxleaves:
                continue
            node = p.make(*[n for n, _ in combo])
            if lean and p.name.startswith("bin") and node[0] == "bin":
                # lean outer level: 0 and 1 only where they are identity elements
                cs = [n[1] for n, t in combo if t == "c"]
                if cs and cs[0] in (0, 1) and shortcut_of(node) is None:
                    continue
            fam = p.name + ":" + "".join("c" if t == "c" else "r" for _, t in combo)
            out[p.rtype].append((fam, node))
    return out


def leaf_nodes(alph):
    return {t: [("L", name) for name in names] for t, names in alph["leaves"].items()}


def number(node):
    """Give every leaf / derived-leaf occurrence its own id (left to right)."""
    counter = [0, 0]

    def rec(n):
        if not isinstance(n, tuple) or not n:
            return n
        k = n[0]
        if k in ("c", "k"):
            return n
        if k == "L":
            if len(n) == 3:
                return n
            counter[0] += 1
            return ("L", n[1], counter[0] - 1)
        if k in ("P",):
            return n
        if k == "D":
            return ("D", n[1], rec(n[2]))
        if k == "M":
            kids = tuple(rec(x) for x in n[3:])
            counter[1] += 1
            return ("M", n[1], counter[1] - 1) + kids
        if k in ("tup", "lst", "nt", "vec", "euler"):
            return (k, tuple(rec(x) for x in n[1]))
        if k == "dct":
            return (k, tuple((key, rec(x)) for key, x in n[1]))
        if k == "call":
            return (k, n[1], tuple(rec(x) for x in n[2]), tuple((key, rec(x)) for key, x in n[3]))
        if k == "meth":
            return (k, n[1], rec(n[2]), tuple(rec(x) for x in n[3]), tuple((key, rec(x)) for key, x in n[4]))
        return (k,) + tuple(rec(x) if isinstance(x, tuple) else x for x in n[1:])

    return rec(node)


def enumerate_trees(tier):
    """Deterministic list of (family, depth, tree), families interleaved round robin, simplest first."""
    full = alphabet("full")
    fams = collections.OrderedDict()

    def put(items, d):
        for fam, node in items:
            fams.setdefault((d, fam), []).append(node)

    # ---- depth 1: full alphabet -------------------------------------------------------
    d1 = expand(leaf_nodes(full), {}, full["consts"], rr=full["rr"])
    for t in d1:
        put(d1[t], 1)
    # shared leaf: x op x (a DAG, the one place where the same random value occurs twice)
    for name in full["leaves"]["S"]:
        for op in BINOPS:
            fams.setdefault((1, f"bin{op}:shared"), []).append(("bin", op, ("L", name, 0), ("L", name, 0)))

    # ---- depth 2 ------------------------------------------------------------------------
    inner = alphabet("inner" if tier == "thorough" else "inner-small")
    outer = alphabet("outer" if tier == "thorough" else "outer-small")
    i1 = expand(leaf_nodes(inner), {}, inner["consts"], rr=inner.get("rr"))
    fresh = {t: [n for _, n in i1[t]] for t in i1 if t != "K"}
    only2 = None
    if tier != "thorough":  # quick: near-duplicate productions are applied at depth 1 only
        only2 = {p.name for p in PRODUCTIONS} - QUICK_DEPTH1_ONLY
    d2 = expand(fresh, leaf_nodes(outer), outer["consts"], allow_ff=False, lean=(tier != "thorough"), only=only2)
    for t in d2:
        put(d2[t], 2)

    # ---- depth 3 (thorough) ---------------------------------------------------------------
    if tier == "thorough":
        tiny = alphabet("inner-tiny")
        otiny = alphabet("outer-tiny")
        scalar_only = {f"bin{op}" for op in BINOPS if op != "divmod"} | {
            "un-neg", "un-abs", "un-round", "call-f1-kw", "call-hypot", "call-max", "vec", "attr-x", "meth-norm",
            "range-of", "discrete-range-of", "cont-tuple", "cont-dict", "idx",
        }  # fmt: skip
        t1 = expand(leaf_nodes(tiny), {}, tiny["consts"], rr=tiny.get("rr"), only=scalar_only)
        f1_ = {t: [n for _, n in t1[t]] for t in t1 if t != "K"}
        t2 = expand(f1_, {}, otiny["consts"], allow_ff=False, only=scalar_only)
        f2_ = {t: [n for _, n in t2[t]] for t in t2 if t != "K"}
        o3 = alphabet("outer-small")
        t3 = expand(f2_, {}, o3["consts"], allow_ff=False, only=scalar_only, lean=True)
        for t in t3:
            put(t3[t], 3)

    # ---- interleave -----------------------------------------------------------------------
    out = []
    for d in (1, 2, 3):
        lists = [(fam, nodes) for (dd, fam), nodes in fams.items() if dd == d]
        i = 0
        while True:
            any_ = False
            for fam, nodes in lists:
                if i < len(nodes):
                    out.append((fam, d, number(nodes[i])))
                    any_ = True
            if not any_:
                break
            i += 1
    return out


# ==========================================================================================
# walking
# ==========================================================================================


def children(n):
    k = n[0]
    if k in ("c", "k", "L", "P"):
        return []
    if k == "D":
        return [n[2]]
    if k == "M":
        return list(n[3:])
    if k in ("tup", "lst", "nt", "vec", "euler"):
        return list(n[1])
    if k == "dct":
        return [x for _, x in n[1]]
    if k == "call":
        return list(n[2]) + [x for _, x in n[3]]
    if k == "meth":
        return [n[2]] + list(n[3]) + [x for _, x in n[4]]
    if k == "slc":
        return [x for x in n[1:] if isinstance(x, tuple)]
    if k == "rnd":
        return [n[1]]
    return [x for x in n[1:] if isinstance(x, tuple)]


def walk(n):
    """Post-order list of nodes."""
    out = []

    def rec(m):
        for c in children(m):
            rec(c)
        out.append(m)

    rec(n)
    return out


def shape(n):
    """Coarse description of an operand, for signatures."""
    k = n[0]
    if k == "k":
        return NAMED_SHAPE[n[1]]
    if k == "c":
        v = n[1]
        if isinstance(v, str):
            return "str"
        if v == 0:
            return "0"
        if v == 1:
            return "1"
        return "negconst" if v < 0 else "const"
    if k == "L":
        ty, spec = LEAVES[n[1]]
        return {"S": "leaf", "I": "leaf", "V": "vecleaf", "O": "orileaf", "Q": "seqleaf", "Z": "strleaf"}[ty]
    if k == "P":
        return "selfprop"
    if k == "D":
        return "delayed"
    if k == "vec":
        return "vecexpr"
    if k == "euler":
        return "oriexpr"
    return "expr"


def nodekey(n):
    """Stable, specific name of the construct at the root of n (for signatures)."""
    k = n[0]
    if k == "bin":
        return f"({shape(n[2])}{n[1]}{shape(n[3])})"
    if k == "un":
        return f"{n[1]}({shape(n[2])})"
    if k == "rnd":
        return f"round({shape(n[1])},n)"
    if k == "attr":
        return f"{shape(n[2])}.{n[1]}"
    if k == "idx":
        return f"{shape(n[1])}[{shape(n[2])}]"
    if k == "slc":
        return f"{shape(n[1])}[slice]"
    if k == "len":
        return f"len({shape(n[1])})"
    if k == "call":
        a = ",".join([shape(x) for x in n[2]] + [f"{key}={shape(x)}" for key, x in n[3]])
        return f"{n[1]}({a})"
    if k == "meth":
        a = ",".join([shape(x) for x in n[3]] + [f"{key}={shape(x)}" for key, x in n[4]])
        return f"{shape(n[2])}.{n[1]}({a})"
    if k in ("tup", "lst", "nt", "vec", "euler"):
        return f"{k}({','.join(shape(x) for x in n[1])})"
    if k == "dct":
        return "dict(" + ",".join(shape(x) for _, x in n[1]) + ")"
    if k == "M":
        return f"{n[1]}({','.join(shape(x) for x in n[3:])})"
    if k == "L":
        return f"leaf-{LEAVES[n[1]][1][0]}"
    return k


# ==========================================================================================
# rendering as Scenic source
# ==========================================================================================


def render_leaf(spec):
    k = spec[0]
    if k == "U":
        return "Uniform(" + ", ".join(repr(v) for v in spec[1]) + ")"
    if k == "Dis":
        return "Discrete({" + ", ".join(f"{v!r}: {w!r}" for v, w in spec[1]) + "})"
    if k == "DR":
        return f"DiscreteRange({spec[1]!r}, {spec[2]!r})"
    if k == "R":
        return f"Range({spec[1]!r}, {spec[2]!r})"
    if k == "N":
        return f"Normal({spec[1]!r}, {spec[2]!r})"
    if k == "TN":
        return f"TruncatedNormal({spec[1]!r}, {spec[2]!r}, {spec[3]!r}, {spec[4]!r})"
    if k == "UV":
        return "Uniform(" + ", ".join(f"Vector({a!r}, {b!r}, {c!r})" for a, b, c in spec[1]) + ")"
    if k == "UO":
        return "Uniform(" + ", ".join(f"Orientation.fromEuler({a!r}, {b!r}, {c!r})" for a, b, c in spec[1]) + ")"
    if k == "UL":
        return "Uniform(" + ", ".join(repr(list(t)) for t in spec[1]) + ")"
    if k == "UT":
        return "Uniform(" + ", ".join(repr(tuple(t)) for t in spec[1]) + ")"
    raise ValueError(k)


def render_expr(n):
    """Scenic source of the expression; leaves / derived leaves are variables L<i> / M<i>."""
    k = n[0]
    r = render_expr
    if k == "c":
        v = n[1]
        return f"({v!r})" if isinstance(v, (int, float)) and v < 0 else repr(v)
    if k == "k":
        return NAMED_SRC[n[1]]
    if k == "L":
        return f"L{n[2]}"
    if k == "M":
        return f"M{n[2]}"
    if k == "P":
        return f"self.{n[1]}"
    if k == "D":
        base = f"(({r(n[2])}) relative to vf).yaw"
        return base if n[1] == "f" else f"int(100 * {base})"
    if k == "bin":
        if n[1] == "divmod":
            return f"divmod({r(n[2])}, {r(n[3])})"
        return f"({r(n[2])} {n[1]} {r(n[3])})"
    if k == "un":
        return {"neg": "(-{})", "pos": "(+{})", "abs": "abs({})", "round": "round({})"}[n[1]].format(r(n[2]))
    if k == "rnd":
        return f"round({r(n[1])}, {n[2]})"
    if k == "attr":
        return f"({r(n[2])}).{n[1]}"
    if k == "idx":
        return f"({r(n[1])})[{r(n[2])}]"
    if k == "slc":
        lo = "" if n[2] is None else r(n[2])
        hi = "" if n[3] is None else r(n[3])
        return f"({r(n[1])})[{lo}:{hi}]"
    if k == "len":
        return f"len({r(n[1])})"
    if k == "call":
        args = [r(x) for x in n[2]] + [f"{key}={r(x)}" for key, x in n[3]]
        return f"{RENDER_FUNC.get(n[1], n[1])}({', '.join(args)})"
    if k == "meth":
        args = [r(x) for x in n[3]] + [f"{key}={r(x)}" for key, x in n[4]]
        return f"({r(n[2])}).{n[1]}({', '.join(args)})"
    if k == "tup":
        return "(" + ", ".join(r(x) for x in n[1]) + ",)"
    if k == "lst":
        return "[" + ", ".join(r(x) for x in n[1]) + "]"
    if k == "nt":
        return "G.NT(" + ", ".join(r(x) for x in n[1]) + ")"
    if k == "dct":
        return "{" + ", ".join(f"{key!r}: {r(x)}" for key, x in n[1]) + "}"
    if k == "vec":
        if len(n[1]) == 2:
            return f"({r(n[1][0])} @ {r(n[1][1])})"
        return "Vector(" + ", ".join(r(x) for x in n[1]) + ")"
    if k == "euler":
        return "Orientation.fromEuler(" + ", ".join(r(x) for x in n[1]) + ")"
    raise ValueError(k)


def render_derived(n):
    kids = [render_expr(x) for x in n[3:]]
    mk = n[1]
    if mk == "star":
        return "Uniform(*" + kids[0] + "".join(", " + x for x in kids[1:]) + ")"
    if mk == "rng":
        return f"Range({kids[0]}, {kids[1]})"
    if mk == "drng":
        return f"DiscreteRange({kids[0]}, {kids[1]})"
    if mk == "unif":
        return "Uniform(" + ", ".join(kids) + ")"
    raise ValueError(mk)


def describe(tree):
    """Expression text with the definitions of its leaves: `(L0 // 1) where L0 = Range(0.5, 2.5)`."""
    defs, seen = [], set()
    for n in walk(tree):
        if n[0] == "L" and n[2] not in seen:
            seen.add(n[2])
            defs.append(f"L{n[2]} = {render_leaf(LEAVES[n[1]][1])}")
        elif n[0] == "M":
            defs.append(f"M{n[2]} = {render_derived(n)}")
    return render_expr(tree) + (" where " + "; ".join(defs) if defs else "")


PRELUDE = "import gen.expr_c05 as G\n"


def render_program(tree, require=None):
    """Scenic program observing the tree as a global parameter and as an object property.

    require = (op, const): additionally `require <tree> <op> <const>` (through G.probe).
    """
    lines = [PRELUDE]
    seen = set()
    leafids = []
    for n in walk(tree):
        if n[0] == "L" and n[2] not in seen:
            seen.add(n[2])
            leafids.append(n[2])
            lines.append(f"L{n[2]} = {render_leaf(LEAVES[n[1]][1])}")
            lines.append(f"param leaf{n[2]} = L{n[2]}")
        elif n[0] == "M":
            lines.append(f"M{n[2]} = {render_derived(n)}")
            lines.append(f"param m{n[2]} = M{n[2]}")
    lines.append(f"X = {render_expr(tree)}")
    lines.append("param p = X")
    if require is not None:
        op, c = require
        seen_args = ", ".join(["X"] + [f"L{i}" for i in leafids])
        lines.append(f"require G.probe(X {op} {c!r}, {seen_args})")
    lines.append("ego = new Object with foo X")
    return "\n".join(lines) + "\n"


# ==========================================================================================
# building through the Python API
# ==========================================================================================


class Built:
    def __init__(self):
        self.leaf = {}  # id -> object
        self.leafnode = {}
        self.derived = {}  # id -> (node, object)
        self.nodes = []  # (node, object) post order, internal nodes only
        self.shortcuts = []  # names of simplifications observed (result is an operand)


def to_scenic(name):
    from scenic.core.vectors import Orientation, Vector, globalOrientation

    v = NAMED[name]
    if isinstance(v, PVec):
        return Vector(v.x, v.y, v.z)
    if name == "$I":
        return globalOrientation
    if name == "$O1":
        return Orientation.fromEuler(0.3, 0.2, -0.1)
    return v


def make_leaf(spec):
    from scenic.core import distributions as D
    from scenic.core.vectors import Orientation, Vector

    k = spec[0]
    if k == "U":
        return D.Uniform(*spec[1])
    if k == "Dis":
        return D.Options(dict(spec[1]))
    if k == "DR":
        return D.DiscreteRange(spec[1], spec[2])
    if k == "R":
        return D.Range(spec[1], spec[2])
    if k == "N":
        return D.Normal(spec[1], spec[2])
    if k == "TN":
        return D.TruncatedNormal(*spec[1:])
    if k == "UV":
        return D.Uniform(*[Vector(*c) for c in spec[1]])
    if k == "UO":
        return D.Uniform(*[Orientation.fromEuler(*c) for c in spec[1]])
    if k == "UL":
        return D.Uniform(*[list(t) for t in spec[1]])
    if k == "UT":
        return D.Uniform(*[tuple(t) for t in spec[1]])
    raise ValueError(k)


def build(tree):
    """Construct the expression with Scenic's Python API.  Returns (root object, Built)."""
    from scenic.core import distributions as D
    from scenic.core.vectors import Orientation, Vector
    import scenic.syntax.veneer as veneer

    B = Built()
    funcs = scenic_funcs()

    def rec(n):
        k = n[0]
        if k == "c":
            return n[1]
        if k == "k":
            return to_scenic(n[1])
        if k == "L":
            if n[2] not in B.leaf:
                B.leaf[n[2]] = make_leaf(LEAVES[n[1]][1])
                B.leafnode[n[2]] = n
            return B.leaf[n[2]]
        if k == "M":
            kids = [rec(x) for x in n[3:]]
            mk = n[1]
            if mk == "star":
                obj = veneer.callWithStarArgs(D.Uniform, *veneer.wrapStarredValue(kids[0], 1), *kids[1:])
            elif mk == "rng":
                obj = D.Range(kids[0], kids[1])
            elif mk == "drng":
                obj = D.DiscreteRange(kids[0], kids[1])
            else:
                obj = D.Uniform(*kids)
            B.derived[n[2]] = (n, obj)
            B.nodes.append((n, obj))
            return obj
        if k == "bin":
            a, b = rec(n[2]), rec(n[3])
            obj = PYOP[n[1]](a, b)
            if obj is a and not is_const(n[2]):
                B.shortcuts.append((n, "r", n[3]))
            elif obj is b and not is_const(n[3]):
                B.shortcuts.append((n, "l", n[2]))
        elif k == "un":
            obj = PYUN[n[1]](rec(n[2]))
        elif k == "rnd":
            obj = round(rec(n[1]), n[2])
        elif k == "attr":
            obj = getattr(rec(n[2]), n[1])
        elif k == "idx":
            obj = rec(n[1])[rec(n[2])]
        elif k == "slc":
            lo = None if n[2] is None else rec(n[2])
            hi = None if n[3] is None else rec(n[3])
            obj = rec(n[1])[lo:hi]
        elif k == "len":
            obj = veneer.len(rec(n[1]))
        elif k == "call":
            args = [rec(x) for x in n[2]]
            kw = {key: rec(x) for key, x in n[3]}
            obj = funcs[n[1]](*args, **kw)
        elif k == "meth":
            o = rec(n[2])
            args = [rec(x) for x in n[3]]
            kw = {key: rec(x) for key, x in n[4]}
            obj = getattr(o, n[1])(*args, **kw)
        elif k == "tup":
            obj = tuple(rec(x) for x in n[1])
        elif k == "lst":
            obj = [rec(x) for x in n[1]]
        elif k == "nt":
            obj = NT(*[rec(x) for x in n[1]])
        elif k == "dct":
            obj = {key: rec(x) for key, x in n[1]}
        elif k == "vec":
            obj = Vector(*[rec(x) for x in n[1]])
        elif k == "euler":
            obj = Orientation.fromEuler(*[rec(x) for x in n[1]])
        else:
            raise ValueError(k)
        B.nodes.append((n, obj))
        return obj

    root = rec(tree)
    return root, B


# ==========================================================================================
# plain-Python evaluation
# ==========================================================================================


class Unsampled:
    """Marker: a value that still contains an unsampled Scenic object."""

    def __init__(self, what):
        self.what = what

    def __repr__(self):
        return f"<UNSAMPLED {self.what}>"


def to_plain(v):
    """Convert a sampled Scenic value to the plain model (numbers stay numbers)."""
    from scenic.core.lazy_eval import isLazy
    from scenic.core.vectors import Orientation, Vector

    if isLazy(v):
        return Unsampled(repr(type(v).__name__))
    if isinstance(v, Vector):
        return PVec(*(to_plain(c) for c in v.coordinates))
    if isinstance(v, Orientation):
        return POri(Rotation.from_quat(v.q))
    if isinstance(v, tuple) and hasattr(v, "_fields"):
        return type(v)(*(to_plain(c) for c in v))
    if isinstance(v, (tuple, list)):
        return type(v)(to_plain(c) for c in v)
    if isinstance(v, dict):
        return {k: to_plain(c) for k, c in v.items()}
    return v


def pyeval(tree, vals, known=None, top=False):
    """Ordinary Python evaluation.

    vals: ("L", i) / ("M", i) / ("P", name) -> plain value, "D" -> {"f": yaw, "i": int}.
    known: optional id(node) -> already observed plain value of that node; used for the operands
    (and, unless top=True, for the tree itself), so a node can be judged on the sampled values of
    its operands.
    """
    memo = {}

    def ev(n, use_known=True):
        key = id(n)
        if key in memo:
            return memo[key]
        if use_known and known is not None and key in known:
            v = known[key]
        else:
            v = ev_(n)
        memo[key] = v
        return v

    def ev_(n):
        k = n[0]
        if k == "c":
            return n[1]
        if k == "k":
            return NAMED[n[1]]
        if k == "L":
            return vals[("L", n[2])]
        if k == "M":
            return vals[("M", n[2])]
        if k == "P":
            return vals[("P", n[1])]
        if k == "D":
            return vals["D"][n[1]]
        if k == "bin":
            return PYOP[n[1]](ev(n[2]), ev(n[3]))
        if k == "un":
            return PYUN[n[1]](ev(n[2]))
        if k == "rnd":
            return round(ev(n[1]), n[2])
        if k == "attr":
            return getattr(ev(n[2]), n[1])
        if k == "idx":
            return ev(n[1])[ev(n[2])]
        if k == "slc":
            lo = None if n[2] is None else ev(n[2])
            hi = None if n[3] is None else ev(n[3])
            return ev(n[1])[lo:hi]
        if k == "len":
            return len(ev(n[1]))
        if k == "call":
            return PLAIN_FUNCS[n[1]](*[ev(x) for x in n[2]], **{key: ev(x) for key, x in n[3]})
        if k == "meth":
            return getattr(ev(n[2]), n[1])(*[ev(x) for x in n[3]], **{key: ev(x) for key, x in n[4]})
        if k == "tup":
            return tuple(ev(x) for x in n[1])
        if k == "lst":
            return [ev(x) for x in n[1]]
        if k == "nt":
            return NT(*[ev(x) for x in n[1]])
        if k == "dct":
            return {key: ev(x) for key, x in n[1]}
        if k == "vec":
            return PVec(*[ev(x) for x in n[1]])
        if k == "euler":
            return POri.fromEuler(*[ev(x) for x in n[1]])
        raise ValueError(k)

    return ev(tree, use_known=not top)


def member_ok(n, value, kidvals):
    """Membership oracle of a derived leaf; returns None if fine, else a message."""
    mk = n[1]
    if mk == "star":
        pool = list(kidvals[0]) + list(kidvals[1:])
        return None if any(same(p, value) is None for p in pool) else f"{value!r} not among {pool!r}"
    if mk == "unif":
        return None if any(same(p, value) is None for p in kidvals) else f"{value!r} not among {kidvals!r}"
    lo, hi = kidvals
    if mk == "rng":
        a, b = min(lo, hi), max(lo, hi)
        tol = 1e-12 * max(1.0, abs(a), abs(b))
        return None if a - tol <= value <= b + tol else f"{value!r} outside [{a!r}, {b!r}]"
    if mk == "drng":
        a, b = math.ceil(lo), math.floor(hi)
        ok = isinstance(value, int) and a <= value <= b
        return None if ok else f"{value!r} not an integer of [{lo!r}, {hi!r}]"
    raise ValueError(mk)


REL = 1e-12
GEO = 1e-9


def _isnum(v):
    return isinstance(v, (int, float, complex)) and not isinstance(v, bool)


def _denumpy(v):
    if hasattr(v, "dtype") and hasattr(v, "item") and getattr(v, "shape", None) == ():
        return v.item()
    if type(v).__name__ == "ndarray" and v.ndim == 1:  # e.g. Euler angle triples: compared as tuples
        return tuple(v.tolist())
    return v


def same(exp, act, tol=REL):
    """None if the plain values agree (numbers by value, containers by type and elements), else a reason."""
    if isinstance(act, Unsampled) or isinstance(exp, Unsampled):
        return f"unsampled value {act!r}"
    exp, act = _denumpy(exp), _denumpy(act)
    if isinstance(exp, bool) or isinstance(act, bool):
        ok = (_isnum(exp) or isinstance(exp, bool)) and (_isnum(act) or isinstance(act, bool)) and exp == act
        return None if ok else f"{exp!r} != {act!r}"
    if _isnum(exp) and _isnum(act):
        if isinstance(exp, int) and isinstance(act, int):
            return None if exp == act else f"{exp!r} != {act!r}"
        if isinstance(exp, complex) or isinstance(act, complex):
            return None if cmath.isclose(exp, act, rel_tol=tol, abs_tol=tol) else f"{exp!r} != {act!r}"
        if math.isnan(exp) and math.isnan(act):
            return None
        return None if exp == act or math.isclose(exp, act, rel_tol=tol, abs_tol=tol) else f"{exp!r} != {act!r}"
    if isinstance(exp, PVec) and isinstance(act, PVec):
        for a, b in zip(exp, act):
            if same(a, b, max(tol, GEO)):
                return f"vector {exp!r} != {act!r}"
        return None
    if isinstance(exp, POri) and isinstance(act, POri):
        d = abs(float(sum(a * b for a, b in zip(exp.r.as_quat(), act.r.as_quat()))))
        return None if d > 1 - GEO else f"orientation {exp!r} != {act!r}"
    if isinstance(exp, str) or isinstance(act, str):
        return None if type(exp) is type(act) and exp == act else f"{exp!r} != {act!r}"
    if isinstance(exp, dict) and isinstance(act, dict):
        if list(exp) != list(act):
            return f"dict keys {list(exp)!r} != {list(act)!r}"
        for key in exp:
            r = same(exp[key], act[key], tol)
            if r:
                return f"at key {key!r}: {r}"
        return None
    if isinstance(exp, (tuple, list)) and isinstance(act, (tuple, list)):
        if type(exp) is not type(act):
            return f"container type {type(exp).__name__} != {type(act).__name__}"
        if len(exp) != len(act):
            return f"{exp!r} != {act!r}"
        for i, (a, b) in enumerate(zip(exp, act)):
            r = same(a, b, tol)
            if r:
                return f"at [{i}]: {r}"
        return None
    return f"{exp!r} ({type(exp).__name__}) != {act!r} ({type(act).__name__})"


def to_json(n):
    """IR -> JSON-serialisable nested lists."""
    if isinstance(n, tuple):
        return [to_json(x) for x in n]
    return n


def from_json(n):
    if isinstance(n, list):
        if len(n) == 2 and n[0] == "c":
            return ("c", n[1])
        return tuple(from_json(x) for x in n)
    return n
