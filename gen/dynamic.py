"""IR, renderer and bounded-exhaustive generators for dynamic Scenic programs (DESIGN §2.3).

IR (plain tuples / dicts, JSON friendly):
  statements: ("take", tag...), ("wait",), ("waitfor", k, unit), ("waituntil", c),
    ("do", B), ("dofor", B, k, unit), ("dountil", B, c), ("choose", [(B, w)..], form),
    ("shuffle", [(B, w)..], form), ("terminate",), ("termsim",), ("require", c),
    ("try", body, [(c, handler)..]), ("loop", n|None, body), ("if", c, body), ("ev",),
    ("abort",), ("break",), ("continue",), ("return",)
  program: {"behaviors": {name: {"pre": [c], "inv": [c], "body": [...]}},
            "monitors": {name: {"body": [...]}}, "agents": [(objname, behavior)],
            "top": {"terminate_after": (k, unit)|None, "terminate_when": [c],
                    "termsim_when": [c], "monitors": [name], "records": n, "records_final": n},
            "timestep": dt, "maxSteps": n|None}
Every statement is preceded, in the rendered text, by probe.ev("<path>") where path is
the statement's position (the reference machine logs the same tag).
"""

import itertools


def _c(c):
    return f'probe.cond("{c}")'


def _subs(x):
    if isinstance(x, (list, tuple)):
        return ", ".join(f"{n}()" for n in x)
    return f"{x}()"


def render_block(stmts, prefix, ind, out):
    pad = "    " * ind
    if not stmts:
        out.append(pad + "pass")
    for i, st in enumerate(stmts):
        path = f"{prefix}.{i}"
        k = st[0]
        out.append(f'{pad}probe.ev("{path}")')
        if k == "take":
            out.append(pad + "take " + ", ".join(f'probe.Act("{t}")' for t in st[1:]))
        elif k == "wait":
            out.append(pad + "wait")
        elif k == "waitfor":
            out.append(f"{pad}wait for {st[1]} {st[2]}")
        elif k == "waituntil":
            out.append(f"{pad}wait until {_c(st[1])}")
        elif k == "do":
            out.append(f"{pad}do {_subs(st[1])}")
        elif k == "dofor":
            out.append(f"{pad}do {_subs(st[1])} for {st[2]} {st[3]}")
        elif k == "dountil":
            out.append(f"{pad}do {_subs(st[1])} until {_c(st[2])}")
        elif k in ("choose", "shuffle"):
            items, form = st[1], st[2]
            if form == "dict":
                arg = "{" + ", ".join(f"{b}(): {w}" for b, w in items) + "}"
            else:
                arg = ", ".join(f"{b}()" for b, w in items)
            out.append(f"{pad}do {k} {arg}")
        elif k == "takernd":
            kind, params = st[1]
            if kind == "uniform":
                e = "Uniform(" + ", ".join(repr(x) for x in params) + ")"
            elif kind == "discrete":
                e = "Discrete({" + ", ".join(f"{v!r}: {w!r}" for v, w in params) + "})"
            else:
                e = f"DiscreteRange({params[0]}, {params[1]})"
            out.append(f"{pad}take probe.Act({e})")
        elif k == "terminate":
            out.append(pad + "terminate")
        elif k == "termsim":
            out.append(pad + "terminate simulation")
        elif k == "require":
            out.append(f"{pad}require {_c(st[1])}")
        elif k == "try":
            out.append(pad + "try:")
            render_block(st[1], path + ".b", ind + 1, out)
            for j, (c, h) in enumerate(st[2]):
                out.append(f"{pad}interrupt when {_c(c)}:")
                render_block(h, f"{path}.h{j}", ind + 1, out)
        elif k == "loop":
            if st[1] is None:
                out.append(pad + "while True:")
            else:
                out.append(f"{pad}for _i{ind} in range({st[1]}):")
            render_block(st[2], path, ind + 1, out)
        elif k == "if":
            out.append(f"{pad}if {_c(st[1])}:")
            render_block(st[2], path, ind + 1, out)
        elif k == "ev":
            pass
        elif k == "set":
            out.append(f'{pad}probe.setflag("{st[1]}", {bool(st[2])})')
        elif k in ("abort", "break", "continue", "return"):
            out.append(pad + k)
        else:
            raise ValueError(k)


def render(prog):
    out = ["import verif_probe as probe"]
    for name, b in prog.get("behaviors", {}).items():
        out.append(f"behavior {name}():")
        for c in b.get("pre", ()):
            out.append(f"    precondition: {_c(c)}")
        for c in b.get("inv", ()):
            out.append(f"    invariant: {_c(c)}")
        render_block(b["body"], name, 1, out)
    for name, m in prog.get("monitors", {}).items():
        out.append(f"monitor {name}():")
        render_block(m["body"], name, 1, out)
    agents = dict(prog["agents"])
    objects = prog.get("objects", prog["agents"])
    objlines = []
    for i, (oname, _) in enumerate(objects):
        tgt = "ego" if i == 0 else f"ob{i}"
        beh = agents.get(oname)
        behs = f", with behavior {beh}()" if beh else ""
        objlines.append(f'{tgt} = new Object at ({10 * i}, 0, 0), with name "{oname}", with allowCollisions True{behs}')
    top = prog.get("top", {})
    if prog.get("main"):
        # modular program: every scenario gets a setup block (probe + termination constructs)
        # and optionally a compose block; the objects live in the main scenario's setup
        for name, d in prog["scenarios"].items():
            out.append(f"scenario {name}():")
            for c in d.get("pre", ()):
                out.append(f"    precondition: {_c(c)}")
            for c in d.get("inv", ()):
                out.append(f"    invariant: {_c(c)}")
            out.append("    setup:")
            out.append(f'        probe.ev("{name}.setup")')
            if name == prog["main"]:
                out.extend("        " + l for l in objlines)
                for m in top.get("monitors", ()):
                    out.append(f"        require monitor {m}()")
                for c in top.get("termsim_when", ()):
                    out.append(f"        terminate simulation when {_c(c)}")
                for r in range(top.get("records", 0)):
                    out.append(f'        record probe.rec("r{r}") as r{r}')
                for r in range(top.get("records_final", 0)):
                    out.append(f'        record final probe.rec("rf{r}") as rf{r}')
            if d.get("terminate_after") is not None:
                k, unit = d["terminate_after"]
                out.append(f"        terminate after {k} {unit}")
            for c in d.get("terminate_when", ()):
                out.append(f"        terminate when {_c(c)}")
            if name != prog["main"]:
                for c in d.get("termsim_when", ()):
                    out.append(f"        terminate simulation when {_c(c)}")
                for r in range(d.get("records", 0)):
                    out.append(f'        record probe.rec("{name}.r{r}") as {name}_r{r}')
                for m in d.get("monitors", ()):
                    out.append(f"        require monitor {m}()")
            if d.get("compose") is not None:
                out.append("    compose:")
                render_block(d["compose"], name, 2, out)
        return "\n".join(out) + "\n"
    out.extend(objlines)
    for m in top.get("monitors", ()):
        out.append(f"require monitor {m}()")
    if top.get("terminate_after") is not None:
        k, unit = top["terminate_after"]
        out.append(f"terminate after {k} {unit}")
    for c in top.get("terminate_when", ()):
        out.append(f"terminate when {_c(c)}")
    for c in top.get("termsim_when", ()):
        out.append(f"terminate simulation when {_c(c)}")
    for r in range(top.get("records", 0)):
        out.append(f'record probe.rec("r{r}") as r{r}')
    for r in range(top.get("records_final", 0)):
        out.append(f'record final probe.rec("rf{r}") as rf{r}')
    return "\n".join(out) + "\n"


def conditions_of(prog):
    """Names of all scripted conditions used by the program, in order of appearance."""
    seen = []

    def add(c):
        if c.startswith(("flag:", "notflag:")):
            return  # program state, not a scripted truth table
        if c not in seen:
            seen.append(c)

    def walk(stmts):
        for st in stmts:
            k = st[0]
            if k in ("waituntil", "require"):
                add(st[1])
            elif k == "dountil":
                add(st[2])
            elif k == "try":
                walk(st[1])
                for c, h in st[2]:
                    add(c)
                    walk(h)
            elif k == "loop":
                walk(st[2])
            elif k == "if":
                add(st[1])
                walk(st[2])

    for b in prog.get("behaviors", {}).values():
        for c in b.get("pre", ()):
            add(c)
        for c in b.get("inv", ()):
            add(c)
        walk(b["body"])
    for m in prog.get("monitors", {}).values():
        walk(m["body"])
    for d in prog.get("scenarios", {}).values():
        for c in d.get("pre", ()):
            add(c)
        for c in d.get("inv", ()):
            add(c)
        if d.get("compose"):
            walk(d["compose"])
        for c in d.get("terminate_when", ()):
            add(c)
        for c in d.get("termsim_when", ()):
            add(c)
    top = prog.get("top", {})
    for c in top.get("terminate_when", ()):
        add(c)
    for c in top.get("termsim_when", ()):
        add(c)
    return seen


# ---------------------------------------------------------------------------------------
# C12: core fragment (no interrupts): all bodies up to a length bound
# ---------------------------------------------------------------------------------------

SUBS = {
    "S1": {"body": [("take", "s1")]},
    "S2": {"body": [("take", "s1"), ("take", "s2")]},
    "S3": {"body": [("wait",), ("take", "s1"), ("take", "s2"), ("take", "s3")]},
}

MONITOR = {
    "M": {
        "body": [
            (
                "loop",
                None,
                [("if", "mt", [("terminate",)]), ("if", "ms", [("termsim",)]), ("if", "mr", [("require", "never")]), ("wait",)],
            )
        ]
    }
}


def c12_alphabet(thorough):
    al = [
        ("take", "a"),
        ("wait",),
        ("waitfor", 2, "steps"),
        ("waitfor", 1, "seconds"),
        ("waituntil", "c1"),
        ("do", "S2"),
        ("dofor", "S3", 2, "steps"),
        ("dofor", "S3", 1.5, "seconds"),
        ("dountil", "S3", "c1"),
        ("terminate",),
        ("termsim",),
        ("loop", 2, [("take", "l")]),
    ]
    if thorough:
        al += [
            ("take", "a", "b"),
            ("waitfor", 1, "steps"),
            ("waitfor", 0.5, "seconds"),
            ("do", "S1"),
            ("dofor", "S2", 3, "steps"),
            ("dofor", "S1", 2, "steps"),
            ("dountil", "S2", "c1"),
            ("require", "c1"),
            ("loop", None, [("take", "z"), ("waituntil", "c1")]),
            ("if", "c1", [("take", "i")]),
        ]
    return al


def c12_programs(tier):
    """Yield (index, prog, sim_variants).  sim_variants: list of dict(timestep, maxSteps)."""
    thorough = tier == "thorough"
    al = c12_alphabet(thorough)
    maxlen = 2
    idx = 0
    tops = [
        {"terminate_after": None},
        {"terminate_after": (3, "steps")},
        {"terminate_after": (1.5, "seconds")},
    ]
    for n in range(1, maxlen + 1):
        for body in itertools.product(al, repeat=n):
            if n == 3 and thorough:
                # third statement must differ in kind from the first (symmetric repeats add little)
                if body[0][0] == body[2][0] == body[1][0]:
                    continue
            for ti, top in enumerate(tops):
                if ti != 1 and all(st[0] == "require" for st in body):
                    # a behavior that never takes an action / waits is rejected at compile
                    # time ("does not take any actions"): not a program of the fragment
                    continue
                for two in (False, True):
                    if two and (ti != 0 and not thorough):
                        continue
                    behaviors = dict(SUBS)
                    if ti == 1:
                        behaviors["B"] = {"body": list(body) + [("loop", None, [("take", "end")])]}
                    else:
                        behaviors["B"] = {"body": list(body)}
                    agents = [("A1", "B")]
                    if two:
                        behaviors["C"] = {"body": [("take", "c1"), ("waituntil", "c2"), ("take", "c2"), ("dofor", "S2", 1, "steps"), ("take", "c3")]}
                        agents.append(("A2", "C"))
                    prog = {
                        "behaviors": behaviors,
                        "monitors": dict(MONITOR),
                        "agents": agents,
                        "top": dict(top, terminate_when=["tw"], termsim_when=["ts"], monitors=["M"], records=1, records_final=1),
                    }
                    yield idx, prog
                    idx += 1


def fire_tables(names, horizon, max_dev, shapes=("step",), times=None):
    """All truth-table assignments in which at most max_dev conditions ever become true.
    shape "step": false before k, true from k on; "pulse": true only at k."""
    base = {n: [False] * (horizon + 1) for n in names}
    yield dict(base)
    opts = []
    for n in names:
        for k in (times if times is not None else range(horizon + 1)):
            for sh in shapes:
                if sh == "step":
                    tab = [False] * k + [True] * (horizon + 1 - k)
                else:
                    tab = [False] * (horizon + 1)
                    tab[k] = True
                    if k == horizon:
                        continue
                opts.append((n, tab))
    for d in range(1, max_dev + 1):
        for combo in itertools.combinations(opts, d):
            ns = [c[0] for c in combo]
            if len(set(ns)) < d:
                continue
            t = dict(base)
            for n, tab in combo:
                t[n] = tab
            yield t


# ---------------------------------------------------------------------------------------
# C13: interrupt fragment
# ---------------------------------------------------------------------------------------

C13_BODIES = [
    [("take", "b1"), ("take", "b2"), ("take", "b3")],
    [("do", "S2"), ("take", "b3")],
    [("take", "b1"), ("do", "S2")],
]

C13_HANDLERS = [
    [("take", "h")],
    [("take", "h"), ("take", "h2")],
    [("do", "S1")],
    [("take", "h"), ("abort",)],
    [("abort",)],
    [("take", "h"), ("return",)],
    [("return",)],
]
C13_LOOP_HANDLERS = [
    [("take", "h"), ("break",)],
    [("break",)],
    [("take", "h"), ("continue",)],
]


def c13_programs(tier):
    """Yield (index, prog).  Conditions: c1, c2 (interrupts), inv / pre / sinv (guards)."""
    thorough = tier == "thorough"
    idx = 0
    subs = {"S1": SUBS["S1"], "S2": SUBS["S2"]}

    def wrap(tryst, mode):
        if mode == "plain":
            return [tryst, ("take", "after")]
        if mode == "for":
            return [("loop", 2, [tryst, ("take", "inloop")]), ("take", "after")]
        if mode == "while":
            return [("loop", None, [tryst, ("take", "inloop")])]
        raise ValueError(mode)

    def emit(body, guards=None, via_sub=False, subinv=False):
        nonlocal idx
        behaviors = dict(subs)
        if subinv:
            behaviors["S2"] = dict(SUBS["S2"], inv=["sinv"])
        if via_sub:
            behaviors["W"] = {"body": body}
            behaviors["B"] = dict(guards or {}, body=[("try", [("do", "W"), ("take", "b9")], [("c2", [("take", "o")])])])
        else:
            behaviors["B"] = dict(guards or {}, body=body)
        prog = {"behaviors": behaviors, "monitors": {}, "agents": [("A1", "B")], "top": {}}
        i = idx
        idx += 1
        return i, prog

    handlers = C13_HANDLERS
    for body in C13_BODIES:
        # one handler
        for h in handlers + C13_LOOP_HANDLERS:
            modes = ("for", "while") if h in C13_LOOP_HANDLERS else (("plain", "for") if thorough else ("plain",))
            for mode in modes:
                yield emit(wrap(("try", body, [("c1", h)]), mode))
        # two handlers on one statement
        for h1 in handlers:
            for h2 in handlers if thorough else handlers[:4]:
                yield emit(wrap(("try", body, [("c1", h1), ("c2", h2)]), "plain"))
        for h1 in C13_LOOP_HANDLERS:
            for h2 in handlers[:2] + C13_LOOP_HANDLERS[:1]:
                yield emit(wrap(("try", body, [("c1", h1), ("c2", h2)]), "for"))
                yield emit(wrap(("try", body, [("c2", h2), ("c1", h1)]), "for"))
        # nested statements: inner (c1) inside outer (c2)
        for h1 in handlers:
            for h2 in handlers if thorough else handlers[:4]:
                inner = ("try", body, [("c1", h1)])
                yield emit(wrap(("try", [inner, ("take", "mid")], [("c2", h2)]), "plain"))
        for h1 in C13_LOOP_HANDLERS:
            for h2 in handlers[:2] + C13_LOOP_HANDLERS[:2]:
                inner = ("try", body, [("c1", h1)])
                yield emit(wrap(("try", [inner, ("take", "mid")], [("c2", h2)]), "for"))
                # handler of the outer statement containing a nested try
                yield emit(wrap(("try", body, [("c2", [("try", [("take", "n1"), ("take", "n2")], [("c1", h1)]), ("take", "n3")])]), "for"))
    # conditions reading state written by the handlers themselves: a clause may become
    # enabled by the last statements of another handler (or of the body) within one step
    SET, CLR = ("set", "F", True), ("set", "F", False)
    low_handlers = [
        [("take", "h"), SET],
        [("take", "h"), SET, ("take", "h2")],
        [("take", "h"), ("take", "h2"), SET],
    ]
    high_handlers = [[("take", "hh"), CLR], [CLR, ("take", "hh")], [("take", "hh"), ("take", "hh2"), CLR], [CLR]]
    long_body = [("take", "b1"), ("take", "b2"), ("take", "b3"), ("take", "b4")]
    for hl in low_handlers:
        for hh in high_handlers:
            # later clause enabled by the tail of an earlier handler
            yield emit(wrap(("try", long_body, [("c1", hl), ("flag:F", hh)]), "plain"))
            # earlier clause enabled by the tail of a later handler
            yield emit(wrap(("try", long_body, [("flag:F", hh), ("c1", hl)]), "plain"))
    for hh in high_handlers:
        # enabled by the body itself, between two of its actions
        yield emit(wrap(("try", [("take", "b1"), SET, ("take", "b2"), ("take", "b3")], [("c1", [("take", "h")]), ("flag:F", hh)]), "plain"))
        # nested: the inner handler's tail enables the outer clause
        inner = ("try", long_body, [("c1", [("take", "h"), SET])])
        yield emit(wrap(("try", [inner, ("take", "mid")], [("flag:F", hh)]), "plain"))
    # try inside a sub-behaviour which is itself run under an outer try
    for body in C13_BODIES[:2]:
        for h in handlers[:5]:
            yield emit([("try", body, [("c1", h)]), ("take", "w9")], via_sub=True)
    # guards
    for body in C13_BODIES:
        for h in handlers[:4]:
            for guards in ({"inv": ["inv"]}, {"pre": ["pre"], "inv": ["inv"]}):
                yield emit(wrap(("try", body, [("c1", h)]), "plain"), guards=guards, subinv=True)
    for st in [("dofor", "S2", 2, "steps"), ("dountil", "S2", "c1"), ("do", "S2"), ("waitfor", 2, "steps"), ("waituntil", "c1")]:
        yield emit([("take", "g0"), st, ("take", "g1"), ("take", "g2")], guards={"pre": ["pre"], "inv": ["inv"]}, subinv=True)


def c13_modular_programs(tier, start_index=0):
    """Guards and interrupts of modular scenarios (compose blocks)."""
    idx = start_index
    subs = {
        "T1": {"compose": [("wait",), ("wait",)]},
    }
    bodies = [
        [("try", [("wait",), ("wait",), ("wait",)], [("c1", [("wait",)])]), ("wait",)],
        [("try", [("do", ["T1"]), ("wait",)], [("c1", [("wait",), ("abort",)])]), ("wait",)],
        [("loop", 2, [("try", [("wait",), ("wait",)], [("c1", [("break",)])]), ("wait",)]), ("wait",)],
        [("wait",), ("do", ["T1"]), ("wait",)],
        [("dofor", ["T1"], 1, "steps"), ("wait",)],
        [("try", [("wait",), ("wait",)], [("c1", [("wait",)]), ("c2", [("do", ["T1"])])]), ("wait",)],
    ]
    for body in bodies:
        for guards in ({}, {"inv": ["inv"]}, {"pre": ["pre"], "inv": ["inv"]}):
            scen = dict(subs)
            scen["G"] = dict(guards, compose=body)
            scen["Main"] = {"terminate_after": (7, "steps"), "compose": [("wait",), ("do", ["G"]), ("loop", None, [("wait",)])]}
            prog = {
                "behaviors": {"B": {"body": [("loop", None, [("take", "a")])]}},
                "monitors": {},
                "agents": [("A1", "B")],
                "scenarios": scen,
                "main": "Main",
                "top": {},
            }
            yield idx, prog
            idx += 1


def all_tables(names, steps):
    """Every truth table of the named conditions over steps 0..steps-1 (false afterwards)."""
    n = len(names) * steps
    for bits in itertools.product((False, True), repeat=n):
        t = {}
        for i, name in enumerate(names):
            t[name] = list(bits[i * steps : (i + 1) * steps]) + [False]
        yield t


# ---------------------------------------------------------------------------------------
# C19: do choose / do shuffle / run-time random values
# ---------------------------------------------------------------------------------------

C19_ITEMS = {
    "PA": {"pre": ["pa"], "body": [("take", "a")]},
    "PB": {"pre": ["pb"], "body": [("take", "b1"), ("take", "b2")]},
    "PC": {"pre": ["pc"], "body": [("take", "c")]},
}

C19_ITEMS["PD"] = {"pre": ["pd"], "body": [("take", "d1"), ("take", "d2"), ("take", "d3")]}
C19_WEIGHTS4 = [(1, 1, 1, 1), (1, 2, 3, 0.5), (3, 1, 1, 2)]
C19_WEIGHTS2 = [(1, 1), (1, 2), (3, 1), (0.5, 1), (2, 0.5)]
C19_WEIGHTS3 = [(1, 1, 1), (1, 2, 3), (2, 2, 1), (0.5, 1, 3), (3, 0.5, 0.5)]


def c19_programs(tier):
    thorough = tier == "thorough"
    idx = 0
    names = ["PA", "PB", "PC", "PD"]

    def emit(body):
        nonlocal idx
        behaviors = dict(C19_ITEMS)
        behaviors["B"] = {"body": body}
        prog = {"behaviors": behaviors, "monitors": {}, "agents": [("A1", "B")], "top": {}}
        i = idx
        idx += 1
        return i, prog

    for kind in ("choose", "shuffle"):
        for n, wsets in ((2, C19_WEIGHTS2), (3, C19_WEIGHTS3)) + (((4, C19_WEIGHTS4),) if thorough else ()):
            for wi, ws in enumerate(wsets):
                forms = ("dict", "list") if wi == 0 else ("dict",)
                for form in forms:
                    items = [(names[i], ws[i] if form == "dict" else 1) for i in range(n)]
                    st = (kind, items, form)
                    yield emit([st, ("take", "after")])
                    if wi < (5 if thorough else 2):
                        # twice in a row: independence of successive picks
                        yield emit([st, st, ("take", "after")])
                        yield emit([("loop", 2, [st]), ("take", "after")])
                    if thorough or wi < 2:
                        yield emit([("take", "pre0"), st, ("take", "after")])
    # eligibility must be judged at the moment of EACH pick: items that finish without consuming
    # a time step and write program state (flag F) that another item's precondition reads, so
    # two picks happen in the same time step with different sets of eligible items
    flag_items = {
        "ZS": {"pre": ["pa"], "body": [("loop", 0, [("take", "zz")]), ("set", "F", True)]},  # zero duration, enables FN
        "ZC": {"pre": ["pb"], "body": [("loop", 0, [("take", "zz")]), ("set", "G", True)]},  # zero duration, disables GN
        "FN": {"pre": ["flag:F"], "body": [("take", "f")]},
        "GN": {"pre": ["notflag:G"], "body": [("take", "g")]},
        "ZT": {"pre": ["pc"], "body": [("take", "z"), ("set", "F", True)]},  # one step, then enables FN
    }
    for kind in ("shuffle", "choose"):
        for names_ in (("ZS", "FN"), ("ZC", "GN"), ("ZS", "FN", "PA"), ("ZC", "GN", "PA"), ("ZT", "FN"), ("ZS", "ZC", "FN", "GN")):
            for ws in ((1,) * len(names_), (1, 2, 3, 0.5)[: len(names_)]):
                for form in ("dict", "list") if ws[0] == ws[-1] else ("dict",):
                    st = (kind, [(n_, w if form == "dict" else 1) for n_, w in zip(names_, ws)], form)
                    for body in ([st, ("take", "after")], [("take", "pre0"), st, ("take", "after")]):
                        behaviors = dict(C19_ITEMS)
                        behaviors.update(flag_items)
                        behaviors["B"] = {"body": body}
                        i = idx
                        idx += 1
                        yield i, {"behaviors": behaviors, "monitors": {}, "agents": [("A1", "B")], "top": {}}
    # do choose / do shuffle over sub-scenarios in a compose block
    scns = {
        "QA": {"pre": ["pa"], "compose": [("wait",)]},
        "QB": {"pre": ["pb"], "compose": [("wait",), ("wait",)]},
        "QC": {"pre": ["pc"], "terminate_after": (1, "steps"), "compose": None},
    }
    snames = ["QA", "QB", "QC"]
    for kind in ("choose", "shuffle"):
        for n, wsets in ((2, C19_WEIGHTS2[:3]), (3, C19_WEIGHTS3[:3])):
            for wi, ws in enumerate(wsets):
                for form in (("dict", "list") if wi == 0 else ("dict",)):
                    items = [(snames[i], ws[i] if form == "dict" else 1) for i in range(n)]
                    st = (kind, items, form)
                    for body in ([st, ("wait",)], [("wait",), st, st]):
                        sc = dict(scns)
                        sc["Main"] = {"terminate_after": (8, "steps"), "compose": body}
                        prog = {"behaviors": {"B": {"body": [("loop", None, [("take", "a")])]}}, "monitors": {}, "agents": [("A1", "B")], "scenarios": sc, "main": "Main", "top": {}}
                        i = idx
                        idx += 1
                        yield i, prog
    # run-time random values evaluated inside a behavior, twice in a row
    for spec in [
        ("uniform", ("u1", "u2", "u3")),
        ("discrete", (("d1", 1), ("d2", 3))),
        ("range", (1, 3)),
        ("discrete", (("e1", 0.5), ("e2", 1), ("e3", 0.5))),
    ]:
        yield emit([("takernd", spec), ("takernd", spec), ("take", "after")])
        yield emit([("loop", 3, [("takernd", spec)])])


def constant_tables(names):
    """All assignments of constant truth values, plus every single switch-over step."""
    for bits in itertools.product((True, False), repeat=len(names)):
        yield {n: [b] for n, b in zip(names, bits)}


def switching_tables(names, steps):
    """One condition changes value at step k (both directions), the others stay true."""
    for n in names:
        for k in range(1, steps):
            for first in (True, False):
                t = {m: [True] for m in names}
                t[n] = [first] * k + [not first]
                yield t


# ---------------------------------------------------------------------------------------
# C12: modular fragment (nested scenarios with setup / compose)
# ---------------------------------------------------------------------------------------

C12_SUBSCENARIOS = {
    "S1": {"terminate_after": (2, "steps"), "compose": [("wait",), ("wait",), ("wait",), ("wait",)]},
    "S2": {"terminate_after": (1.5, "seconds"), "compose": None},
    "S3": {"compose": [("wait",), ("terminate",), ("wait",)]},
    "S4": {"compose": [("wait",), ("termsim",)]},
    "S5": {"terminate_when": ["tws"], "compose": None},
    "S6": {"compose": [("wait",), ("wait",)]},
    "S7": {"compose": [("do", ["S1"]), ("wait",)]},
    "S8": {"compose": [("dofor", ["S6", "S3"], 3, "steps"), ("waituntil", "c1")]},
    "S9": {"termsim_when": ["tss"], "terminate_after": (3, "steps"), "compose": None},
    "S10": {"termsim_when": ["tss"], "records": 1, "compose": [("wait",), ("wait",), ("wait",), ("wait",)]},
    "S11": {"monitors": ["M2"], "compose": [("wait",), ("wait",), ("wait",), ("wait",)]},
    "S12": {"compose": [("do", ["S11"]), ("wait",)]},
}

MONITOR2 = {
    "M2": {"body": [("loop", None, [("if", "m2t", [("terminate",)]), ("if", "m2s", [("termsim",)]), ("wait",)])]}
}


def c12_modular_alphabet(thorough):
    al = [
        ("wait",),
        ("do", ["S1"]),
        ("do", ["S6", "S3"]),
        ("do", ["S7"]),
        ("dofor", ["S6"], 1, "steps"),
        ("dofor", ["S1", "S2"], 3, "steps"),
        ("dountil", ["S1"], "c1"),
        ("do", ["S2"]),
        ("do", ["S4"]),
        ("waitfor", 1, "seconds"),
        ("waituntil", "c1"),
        ("terminate",),
        ("termsim",),
        ("loop", 2, [("do", ["S6"])]),
    ]
    if thorough:
        al += [("do", ["S8"]), ("dountil", ["S7", "S2"], "c1"), ("dofor", ["S7"], 2, "steps"), ("do", ["S1", "S2", "S3"]), ("require", "c1")]
    return al


def c12_modular_programs(tier, start_index=0):
    thorough = tier == "thorough"
    al = c12_modular_alphabet(thorough)
    idx = start_index
    bodies = [[a] for a in al] + [[a, b] for a in al for b in al]
    if thorough:
        bodies += [[("wait",), a, b] for a in al for b in al if a[0] != b[0]]
    for body in bodies:
        for ti, ta in enumerate((None, (3, "steps"))):
            if ti == 1 and all(st[0] == "require" for st in body):
                # '"compose" block does not invoke any scenarios': not in the fragment
                continue
            scen = dict(C12_SUBSCENARIOS)
            scen["Main"] = {"terminate_after": ta, "terminate_when": ["tw"], "compose": list(body) + [("loop", None, [("wait",)])] if ti == 0 else list(body)}
            prog = {
                "behaviors": {"B": {"body": [("loop", None, [("take", "a")])]}},
                "monitors": dict(MONITOR),
                "agents": [("A1", "B")],
                "scenarios": scen,
                "main": "Main",
                "top": {"termsim_when": ["ts"], "monitors": ["M"], "records": 1, "records_final": 1},
            }
            yield idx, prog
            idx += 1
    # `terminate when` / `terminate simulation when` in the setup block of a sub-scenario
    W = ("wait",)
    for body, ta in (
        ([("do", ["S5"])], 4),
        ([W, ("do", ["S5", "S1"])], 4),
        ([("dofor", ["S5"], 2, "steps")], 4),
        ([("do", ["S9"])], 4),
        ([W, ("do", ["S1", "S9"]), W], 4),
        ([("dountil", ["S9", "S5"], "c1")], 4),
        # a sub-scenario stopped early (by `for` / `until`, by its own limit, or with its
        # parent) while the simulation goes on: its records and `terminate simulation when`
        # must not be evaluated any more
        ([("dofor", ["S10"], 1, "steps"), W, W, W, W], 6),
        ([("dofor", ["S9"], 1, "steps"), W, W, W], 5),
        ([("dountil", ["S10"], "c1"), W, W, W], 6),
        ([W, ("dofor", ["S10", "S6"], 2, "steps"), W, W], 6),
        ([("do", ["S10"]), W], 6),
        ([("do", ["S9"]), W, W], 6),
        ([("do", ["S10", "S3"]), W], 6),
        # monitors instantiated by a sub-scenario: `terminate` stops that sub-scenario only
        ([("do", ["S11"]), W, W], 6),
        ([("do", ["S11", "S6"]), W], 6),
        ([("dofor", ["S11"], 2, "steps"), W, W], 6),
        ([W, ("do", ["S12"]), W], 6),
    ):
        scen = dict(C12_SUBSCENARIOS)
        scen["Main"] = {"terminate_after": (ta, "steps"), "terminate_when": ["tw"], "compose": list(body)}
        prog = {
            "behaviors": {"B": {"body": [("loop", None, [("take", "a")])]}},
            "monitors": dict(MONITOR, **MONITOR2),
            "agents": [("A1", "B")],
            "scenarios": scen,
            "main": "Main",
            "top": {"termsim_when": ["ts"], "monitors": ["M"], "records": 1, "records_final": 1},
        }
        yield idx, prog
        idx += 1
