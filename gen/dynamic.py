"""IR, renderer and bounded-exhaustive generators for dynamic Scenic programs (DESIGN §2.3).

IR (plain tuples / dicts, JSON friendly):
  statements: ("take", tag...), ("wait",), ("waitfor", k, unit), ("waituntil", c),
    ("do", B), ("dofor", B, k, unit), ("dountil", B, c), ("choose", [(B, w)..], form),
    ("shuffle", [(B, w)..], form), ("terminate",), ("termsim",), ("require", c),
    ("try", body, [(c, handler)..]), ("loop", n|None, body), ("if", c, body), ("ev",),
    ("abort",), ("break",), ("continue",), ("return",)
  program: {"behaviors": {name: {"pre": [c], "inv": [c], "body": [...]}},
            "monitors": {name: {"body": [...]}}, "agents": [(objname, behavior)],
            "top": {"terminate_after": (k, unit)|None, "terminate_when": [c],
                    "termsim_when": [c], "monitors": [name], "records": n, "records_final": n},
            "timestep": dt, "maxSteps": n|None}
Every statement is preceded, in the rendered text, by probe.ev("<path>") where path is
the statement's position (the reference machine logs the same tag).
"""

import itertools


def _c(c):
    return f'probe.cond("{c}")'


def render_block(stmts, prefix, ind, out):
    pad = "    " * ind
    if not stmts:
        out.append(pad + "pass")
    for i, st in enumerate(stmts):
        path = f"{prefix}.{i}"
        k = st[0]
        out.append(f'{pad}probe.ev("{path}")')
        if k == "take":
            out.append(pad + "take " + ", ".join(f'probe.Act("{t}")' for t in st[1:]))
        elif k == "wait":
            out.append(pad + "wait")
        elif k == "waitfor":
            out.append(f"{pad}wait for {st[1]} {st[2]}")
        elif k == "waituntil":
            out.append(f"{pad}wait until {_c(st[1])}")
        elif k == "do":
            out.append(f"{pad}do {st[1]}()")
        elif k == "dofor":
            out.append(f"{pad}do {st[1]}() for {st[2]} {st[3]}")
        elif k == "dountil":
            out.append(f"{pad}do {st[1]}() until {_c(st[2])}")
        elif k in ("choose", "shuffle"):
            items, form = st[1], st[2]
            if form == "dict":
                arg = "{" + ", ".join(f"{b}(): {w}" for b, w in items) + "}"
            else:
                arg = ", ".join(f"{b}()" for b, w in items)
            out.append(f"{pad}do {k} {arg}")
        elif k == "terminate":
            out.append(pad + "terminate")
        elif k == "termsim":
            out.append(pad + "terminate simulation")
        elif k == "require":
            out.append(f"{pad}require {_c(st[1])}")
        elif k == "try":
            out.append(pad + "try:")
            render_block(st[1], path + ".b", ind + 1, out)
            for j, (c, h) in enumerate(st[2]):
                out.append(f"{pad}interrupt when {_c(c)}:")
                render_block(h, f"{path}.h{j}", ind + 1, out)
        elif k == "loop":
            if st[1] is None:
                out.append(pad + "while True:")
            else:
                out.append(f"{pad}for _i{ind} in range({st[1]}):")
            render_block(st[2], path, ind + 1, out)
        elif k == "if":
            out.append(f"{pad}if {_c(st[1])}:")
            render_block(st[2], path, ind + 1, out)
        elif k == "ev":
            pass
        elif k in ("abort", "break", "continue", "return"):
            out.append(pad + k)
        else:
            raise ValueError(k)


def render(prog):
    out = ["import verif_probe as probe"]
    for name, b in prog.get("behaviors", {}).items():
        out.append(f"behavior {name}():")
        for c in b.get("pre", ()):
            out.append(f"    precondition: {_c(c)}")
        for c in b.get("inv", ()):
            out.append(f"    invariant: {_c(c)}")
        render_block(b["body"], name, 1, out)
    for name, m in prog.get("monitors", {}).items():
        out.append(f"monitor {name}():")
        render_block(m["body"], name, 1, out)
    agents = dict(prog["agents"])
    objects = prog.get("objects", prog["agents"])
    for i, (oname, _) in enumerate(objects):
        tgt = "ego" if i == 0 else f"ob{i}"
        beh = agents.get(oname)
        behs = f", with behavior {beh}()" if beh else ""
        out.append(f'{tgt} = new Object at ({10 * i}, 0, 0), with name "{oname}", with allowCollisions True{behs}')
    top = prog.get("top", {})
    for m in top.get("monitors", ()):
        out.append(f"require monitor {m}()")
    if top.get("terminate_after") is not None:
        k, unit = top["terminate_after"]
        out.append(f"terminate after {k} {unit}")
    for c in top.get("terminate_when", ()):
        out.append(f"terminate when {_c(c)}")
    for c in top.get("termsim_when", ()):
        out.append(f"terminate simulation when {_c(c)}")
    for r in range(top.get("records", 0)):
        out.append(f'record probe.rec("r{r}") as r{r}')
    for r in range(top.get("records_final", 0)):
        out.append(f'record final probe.rec("rf{r}") as rf{r}')
    return "\n".join(out) + "\n"


def conditions_of(prog):
    """Names of all scripted conditions used by the program, in order of appearance."""
    seen = []

    def add(c):
        if c not in seen:
            seen.append(c)

    def walk(stmts):
        for st in stmts:
            k = st[0]
            if k in ("waituntil", "require"):
                add(st[1])
            elif k == "dountil":
                add(st[2])
            elif k == "try":
                walk(st[1])
                for c, h in st[2]:
                    add(c)
                    walk(h)
            elif k == "loop":
                walk(st[2])
            elif k == "if":
                add(st[1])
                walk(st[2])

    for b in prog.get("behaviors", {}).values():
        for c in b.get("pre", ()):
            add(c)
        for c in b.get("inv", ()):
            add(c)
        walk(b["body"])
    for m in prog.get("monitors", {}).values():
        walk(m["body"])
    top = prog.get("top", {})
    for c in top.get("terminate_when", ()):
        add(c)
    for c in top.get("termsim_when", ()):
        add(c)
    return seen
