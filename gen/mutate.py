"""Seeds and bounded-exhaustive token / byte mutations for C10 (DESIGN §C10).

Seeds (finite, enumerated completely):
  * every ``.scenic`` file under <repo>/examples and <repo>/tests,
  * every string literal passed as first argument to the test-suite's compile helpers in
    <repo>/tests/syntax/*.py (extracted with ``ast``, ``inspect.cleandoc`` applied as the
    helpers do),
  * every code block of <repo>/docs/reference/*.rst, and every expansion of every grammar form
    the reference quotes (``.. _form with {placeholders} [optional] (a | b):`` labels and
    ``scenic-grammar`` blocks): see ``doc_forms``.

Mutations of one seed (``mutants``): for every token position delete / duplicate / swap with
next / replace by (and, in the thorough tier, insert) each token of ALPHABET; for every line
re-indentations; for every character offset truncation.  ``pair_mutants`` composes two token
mutations.  All enumerations are complete and deterministic; duplicates (same text) are
dropped by the caller.
"""

import ast
import inspect
import io
import itertools
import os
import re
import token as T
import tokenize

HELPERS = {
    "compileScenic", "sampleSceneFrom", "sampleEgoFrom", "sampleParamPFrom", "checkIfSamples",
    "scenarioFromString", "parse_string_helper", "assert_equal_source_ast", "parse_string",
    "sampleEgoActionsFrom", "sampleResultFrom",
}  # fmt: skip

# ~40 tokens: keywords of both languages, brackets, operators, literals, layout
ALPHABET = [
    "new", "at", "of", "by", "to", "from", "for", "in", "with", "require", "until", "do", "not", "and",
    "if", "else", "def", "class", "try", "lambda", "visible", "ego", "behavior", "interrupt", "when",
    "x", "1", "'s'", "(", ")", "[", "]", "{", "}", ",", ":", "=", ".", "@", "*", "-", "<", ";",
    "\n", "\n+", "\n-",
]  # fmt: skip
QUICK_ALPHABET = ALPHABET


# ---------------------------------------------------------------------------------------
# seeds


def scenic_files(repo):
    out = []
    for top in ("examples", "tests"):
        for root, dirs, files in os.walk(os.path.join(repo, top)):
            dirs.sort()
            for f in sorted(files):
                if f.endswith(".scenic"):
                    out.append(os.path.join(root, f))
    return out


def test_snippets(repo):
    """[(origin, text)] -- string arguments of the compile helpers in tests/syntax/*.py."""
    out = []
    d = os.path.join(repo, "tests", "syntax")
    for f in sorted(os.listdir(d)):
        if not f.endswith(".py"):
            continue
        path = os.path.join(d, f)
        try:
            tree = ast.parse(open(path, encoding="utf-8").read())
        except SyntaxError:
            continue
        for node in ast.walk(tree):
            if not isinstance(node, ast.Call) or not node.args:
                continue
            fn = node.func
            name = fn.id if isinstance(fn, ast.Name) else fn.attr if isinstance(fn, ast.Attribute) else None
            if name not in HELPERS:
                continue
            a = node.args[0]
            if isinstance(a, ast.Constant) and isinstance(a.value, str):
                text = inspect.cleandoc(a.value)
                if text.strip():
                    out.append((f"{f}:{node.lineno}", text + "\n"))
    return out


def doc_blocks(repo):
    """[(origin, text)] -- literal / code blocks of docs/reference/*.rst (dedented)."""
    out = []
    d = os.path.join(repo, "docs", "reference")
    for f in sorted(os.listdir(d)):
        if not f.endswith(".rst"):
            continue
        lines = open(os.path.join(d, f), encoding="utf-8").read().expandtabs(4).split("\n")
        i = 0
        while i < len(lines):
            line = lines[i]
            starts = (".. code-block:: scenic" in line and "grammar" not in line) or (
                line.rstrip().endswith("::") and not line.lstrip().startswith("..")
            )
            if not starts:
                i += 1
                continue
            base = len(line) - len(line.lstrip())
            j = i + 1
            block = []
            while j < len(lines) and (not lines[j].strip() or len(lines[j]) - len(lines[j].lstrip()) > base):
                block.append(lines[j])
                j += 1
            while block and block[0].strip().startswith(":"):  # directive options
                block.pop(0)
            text = inspect.cleandoc("\n".join(block))
            if text.strip():
                out.append((f"{f}:{i + 1}", text + "\n"))
            i = j
    return out


# --- grammar forms quoted by the reference ---------------------------------------------------

PLACEHOLDER = {
    # expression-like
    "vector": "V", "scalar": "S", "boolean": "B", "condition": "C", "heading": "H", "region": "R", "value": "X",
    "Point": "P", "OrientedPoint": "OP", "Object": "O", "vectorField": "F", "field": "F",
    "direction": "D", "orientation": "OR", "number": "0.5", "object": "O", "action": "A",
    "monitor": "M()", "behavior/scenario": "Sub()", "LTL formula": "always B", "exception": "E",
    "polygon": "PG", "polyline": "PL", "shape": "SH", "expr": "X", "angle": "H", "recorder": "REC",
    # names
    "name": "N", "identifier": "I", "property": "prop", "class": "Object", "superclass": "Object",
    "module": "N", "arguments": "a, b=1",
    # statements / specifiers
    "statement": "pass", "specifier": "at V",
}  # fmt: skip


class FormError(Exception):
    pass


def _expand(s):
    """All expansions of a quoted grammar form.  `[x]` optional (a literal bracket when it
    directly follows a word character, as in require[p]); `[x]*` 0/1/2 copies; `(a | b)` and
    `[a | b]` alternatives; `{name}` / `<name>` placeholders; `<name>+` one or two copies;
    `, {...}` one more of the previous item.  Returns a list of strings."""
    pos = 0

    def joiner(at):
        ls = s.rfind("\n", 0, at) + 1
        lead = s[ls:at]
        return "\n" + lead if ls > 0 or "\n" in s else ""

    def alternatives(closer):
        nonlocal pos
        alts, cur = [], [""]
        while True:
            if pos >= len(s):
                if closer:
                    raise FormError(f"unbalanced {closer!r} in {s!r}")
                break
            c = s[pos]
            if closer and c == closer:
                break
            if c == "|" and closer:
                alts.extend(cur)
                cur = [""]
                pos += 1
            elif c == "[" and not (pos > 0 and s[pos - 1].isalnum()):
                at = pos
                line_leading = not s[s.rfind("\n", 0, at) + 1 : at].strip() and "\n" in s
                pos += 1
                inner = alternatives("]")
                pos += 1
                reps = [0, 1]
                if pos < len(s) and s[pos] == "*":
                    pos += 1
                    reps = [0, 1, 2]
                sep = joiner(at) if line_leading else ""
                opts = [sep.join(combo) for n in reps for combo in itertools.product(inner, repeat=n)]
                cur = [x + y for x in cur for y in opts]
            elif c == "(" and _is_group(s, pos):
                pos += 1
                inner = alternatives(")")
                pos += 1
                cur = [x + y for x in cur for y in inner]
            elif c in "{<" and (("}" if c == "{" else ">") in s[pos:]):
                at = pos
                end = s.index("}" if c == "{" else ">", pos)
                name = s[pos + 1 : end]
                pos = end + 1
                if name == "...":
                    k = 2 if s.lstrip().startswith("param") else 1
                    cur = [y for x in cur for y in _repeat_last(x, k)]
                    continue
                if name not in PLACEHOLDER:
                    raise FormError(f"unknown placeholder {name!r} in {s!r}")
                val = PLACEHOLDER[name]
                if c == "<" and pos < len(s) and s[pos] == "+":
                    pos += 1
                    cur = [x + y for x in cur for y in (val, val + joiner(at) + val)]
                else:
                    cur = [x + "\0" + val for x in cur]
            else:
                cur = [x + c for x in cur]
                pos += 1
        alts.extend(cur)
        return alts

    res = alternatives(None)
    return [_number_names(x.replace("\0", "")) for x in res]


def _number_names(x):
    """Repeated copies of a name placeholder get distinct names (prop, prop2, ...)."""
    for w in ("prop", "N", "I"):
        count = itertools.count(1)

        def sub(m):
            k = next(count)
            return w if k == 1 else f"{w}{k}"

        x = re.sub(rf"\b{w}\b", sub, x)
    return x


def _is_group(s, pos):
    """A parenthesis opens an alternative group iff it contains a top-level '|'."""
    depth = 0
    for i in range(pos, len(s)):
        if s[i] in "([{<":
            depth += 1
        elif s[i] in ")]}>":
            depth -= 1
            if depth == 0:
                return False
        elif s[i] == "|" and depth == 1:
            return True
    return False


def _repeat_last(a, k=1):
    """'take \\0A, ' + {...}  ->  without and with one more item; the item is the text of the
    last k placeholders (marked by \\0) before the trailing comma."""
    m = re.match(r"^(.*),\s*$", a, re.S)
    if not m:
        return [a]
    body = m.group(1)
    idx = len(body)
    for _ in range(k):
        idx = body.rfind("\0", 0, idx)
        if idx < 0:
            return [body]
    item = body[idx:]
    return [body, body + ", " + item]


def doc_forms(repo):
    """[(origin, kind, form, [expansions])] for every grammar form the reference shows.
    kind: 'statement' | 'specifier' | 'operator' | 'block'."""
    out = []
    d = os.path.join(repo, "docs", "reference")
    kinds = {"statements.rst": "statement", "specifiers.rst": "specifier", "operators.rst": "operator"}
    for f, kind in kinds.items():
        text = open(os.path.join(d, f), encoding="utf-8").read()
        for i, line in enumerate(text.split("\n")):
            m = re.match(r"^\.\. _(.*\{.*):\s*$", line)
            if not m:
                continue
            form = m.group(1).replace("\\:", ":")
            out.append((f"{f}:{i + 1}", kind, form, sorted(set(" ".join(x.split()) for x in _expand(form)))))
    for f in ("statements.rst", "classes.rst"):
        lines = open(os.path.join(d, f), encoding="utf-8").read().expandtabs(4).split("\n")
        i = 0
        while i < len(lines):
            if ".. code-block:: scenic-grammar" in lines[i]:
                j = i + 1
                block = []
                while j < len(lines) and (not lines[j].strip() or lines[j].startswith(" ")):
                    block.append(lines[j])
                    j += 1
                form = inspect.cleandoc("\n".join(block))
                exps = []
                for x in sorted(set(_expand(form))):
                    x = "\n".join(l.rstrip() for l in x.split("\n") if l.strip()) + "\n"
                    if _blocks_nonempty(x):
                        exps.append(x)
                out.append((f"{f}:{i + 1}", "block" if "\n" in form else "newexpr", form, exps))
                i = j
            else:
                i += 1
    return out


def _blocks_nonempty(text):
    """Every header line (ending with ':') is followed by a more indented line; and a `try:`
    has at least one clause (the quoted grammar is looser than the language there)."""
    lines = text.rstrip("\n").split("\n")
    ind = lambda l: len(l) - len(l.lstrip())
    for i, l in enumerate(lines):
        if l.rstrip().endswith(":") and not l.lstrip().startswith(("precondition", "invariant")):
            if i + 1 >= len(lines) or ind(lines[i + 1]) <= ind(l):
                return False
    if lines[0].startswith("try:") and not any(l.startswith(("interrupt", "except", "finally")) for l in lines):
        return False
    return True


# ---------------------------------------------------------------------------------------
# mutations


def tokens_of(text):
    """Tokens with (type, string, start offset, end offset) in character offsets; None if the
    text does not tokenize."""
    starts = [0]
    for line in text.split("\n")[:-1]:
        starts.append(starts[-1] + len(line) + 1)
    out = []
    try:
        for tok in tokenize.generate_tokens(io.StringIO(text).readline):
            if tok.type == T.ENDMARKER:
                break
            if tok.start[0] - 1 >= len(starts):
                break
            a = starts[tok.start[0] - 1] + tok.start[1]
            b = (starts[tok.end[0] - 1] if tok.end[0] - 1 < len(starts) else len(text)) + tok.end[1]
            out.append((tok.type, tok.string, a, min(b, len(text))))
    except (tokenize.TokenError, SyntaxError, IndentationError):
        return None
    return out


def _line_indent(text, off):
    ls = text.rfind("\n", 0, off) + 1
    m = re.match(r"[ \t]*", text[ls:])
    return m.group(0)


def _render_alpha(sym, text, off):
    if sym == "\n":
        return "\n"
    if sym == "\n+":
        return "\n" + _line_indent(text, off) + "    "
    if sym == "\n-":
        ind = _line_indent(text, off)
        return "\n" + ind[:-4] if len(ind) >= 4 else "\n"
    return sym


def _glue(left, mid, right):
    """Concatenate making sure `mid` stays a separate token."""
    if mid and left and (left[-1].isalnum() or left[-1] in "_'\"") and (mid[0].isalnum() or mid[0] in "_'\""):
        mid = " " + mid
    if mid and right and (right[0].isalnum() or right[0] in "_'\"") and (mid[-1].isalnum() or mid[-1] in "_'\""):
        mid = mid + " "
    return left + mid + right


def token_mutations(text, toks, alphabet, insert=False):
    """Yield (description, mutated text) for every single token-level mutation."""
    real = [(i, t) for i, t in enumerate(toks) if t[0] not in (T.DEDENT,) and t[3] > t[2]]
    for n, (i, (ty, s, a, b)) in enumerate(real):
        yield (f"delete@{n}", text[:a] + text[b:])
        if ty not in (T.NEWLINE, T.NL, T.INDENT, T.COMMENT):
            yield (f"duplicate@{n}", _glue(text[:b], s, text[b:]))
        elif ty == T.INDENT:
            yield (f"duplicate@{n}", text[:b] + s + text[b:])
        if n + 1 < len(real):
            _, (ty2, s2, a2, b2) = real[n + 1]
            if a2 >= b:
                yield (f"swap@{n}", text[:a] + text[a2:b2] + text[b:a2] + text[a:b] + text[b2:])
        for sym in alphabet:
            r = _render_alpha(sym, text, a)
            if r != s:
                yield (f"replace@{n}:{sym!r}", _glue(text[:a], r, text[b:]))
            if insert:
                yield (f"insert@{n}:{sym!r}", _glue(text[:a], r, text[a:]))


def line_mutations(text):
    lines = text.split("\n")
    for i, l in enumerate(lines):
        if not l.strip():
            continue
        ind = len(l) - len(l.lstrip(" "))
        variants = {"indent+4": "    " + l, "indent+1": " " + l, "tab": "\t" + l.lstrip(" ")}
        if ind >= 4:
            variants["dedent-4"] = l[4:]
        if ind >= 1:
            variants["dedent-1"] = l[1:]
            variants["dedent-all"] = l.lstrip(" ")
        for k, v in variants.items():
            yield (f"{k}@line{i + 1}", "\n".join(lines[:i] + [v] + lines[i + 1 :]))
        yield (f"delete-line@{i + 1}", "\n".join(lines[:i] + lines[i + 1 :]))
        yield (f"duplicate-line@{i + 1}", "\n".join(lines[: i + 1] + [l] + lines[i + 1 :]))
        if i + 1 < len(lines) and lines[i + 1].strip():
            yield (f"swap-lines@{i + 1}", "\n".join(lines[:i] + [lines[i + 1], l] + lines[i + 2 :]))


def truncations(text):
    for k in range(len(text)):
        yield (f"truncate@{k}", text[:k])


def mutants(text, alphabet=ALPHABET, insert=False):
    """All single mutations of a seed, duplicates (and the seed itself) removed."""
    toks = tokens_of(text)
    seen = {text}
    gens = [line_mutations(text), truncations(text)]
    if toks is not None:
        gens.insert(0, token_mutations(text, toks, alphabet, insert))
    for g in gens:
        for desc, m in g:
            if m not in seen:
                seen.add(m)
                yield desc, m


def pair_mutants(text, alphabet=ALPHABET):
    """All pairs: a single token mutation (no truncation) followed by a single token mutation
    of the result."""
    toks = tokens_of(text)
    if toks is None:
        return
    seen = {text}
    for d1, m1 in token_mutations(text, toks, alphabet):
        t2 = tokens_of(m1)
        if t2 is None:
            continue
        for d2, m2 in token_mutations(m1, t2, alphabet):
            if m2 not in seen:
                seen.add(m2)
                yield d1 + "+" + d2, m2


def features(text):
    """The keyword / operator tokens of a seed (for the coverage-driven seed selection)."""
    toks = tokens_of(text)
    if toks is None:
        return frozenset(), 0
    feats = set()
    for ty, s, a, b in toks:
        if ty == T.OP or (ty == T.NAME and s.islower() and len(s) > 1):
            feats.add(s)
        elif ty in (T.NUMBER, T.STRING, T.INDENT, T.FSTRING_START):
            feats.add(T.tok_name[ty])
    return frozenset(feats), sum(1 for t in toks if t[3] > t[2])


# ---------------------------------------------------------------------------------------
# forms derived from the grammar itself: every Scenic-specific rule with each optional part
# absent / present, each repetition 0 / 1 / 2 times, each alternative taken

NL, IND, DED = "<NEWLINE>", "<INDENT>", "<DEDENT>"
_BLOCK = [NL, IND, "pass", NL, DED]
GRAMMAR_TERMINALS = {
    "NAME": ["N"], "NUMBER": ["1"], "STRING": ["'s'"], "NEWLINE": [NL], "INDENT": [IND], "DEDENT": [DED],
    "ENDMARKER": [], "TYPE_COMMENT": None, "FSTRING_START": None, "FSTRING_MIDDLE": None, "FSTRING_END": None,
    "SOFT_KEYWORD": None, "ASYNC": None, "AWAIT": None, "OP": None,
    # Python nonterminals: one representative each
    "expression": ["x"], "expressions": ["x"], "disjunction": ["x"], "conjunction": ["x"], "inversion": ["x"],
    "comparison": ["x"], "bitwise_or": ["x"], "bitwise_xor": ["x"], "bitwise_and": ["x"], "shift_expr": ["x"],
    "sum": ["x"], "term": ["x"], "factor": ["x"], "power": ["x"], "primary": ["x"], "await_primary": ["x"],
    "atom": ["x"], "named_expression": ["x"], "star_expressions": ["x"], "star_expression": ["x"],
    "star_named_expression": ["x"], "yield_expr": ["yield"], "lambdef": ["lambda", ":", "x"], "strings": ["'s'"],
    "star_targets": ["t"], "star_target": ["t"], "single_target": ["t"], "params": ["a", ",", "b", "=", "1"],
    "arguments": ["a", ",", "b", "=", "1"], "dotted_name": ["m", ".", "n"], "block": _BLOCK,
    "statements": ["pass", NL], "statement": ["pass", NL], "simple_stmts": ["pass", NL], "simple_stmt": ["pass"],
    "compound_stmt": ["if", "x", ":"] + _BLOCK, "except_block": ["except", "E", ":"] + _BLOCK,
    "else_block": ["else", ":"] + _BLOCK, "finally_block": ["finally", ":"] + _BLOCK,
}  # fmt: skip
GRAMMAR_EXTRA_ROOTS = ("interrupt_when_block",)
GRAMMAR_FORM_CONTEXTS = (
    ("statement", "", ""),
    ("behavior", "behavior B():\n", "    "),
    ("assignment", "x = ", None),
    ("require", "require ", None),
    ("specifier", "ego = new Object ", None),
    ("continuation", "ego = new Object,\n", "    "),
    ("setup", "scenario S():\n    setup:\n", "        "),
    ("class", "class C:\n", "    "),
)
PRODUCT_LIMIT = 48
RULE_LIMIT = 300


def _is_scenic_rule(name):
    return (name.startswith("scenic_") or name in GRAMMAR_EXTRA_ROOTS) and "invalid" not in name


class _Expander:
    def __init__(self, rules):
        self.rules = rules
        self._min = {}
        self.truncated = {}

    # -- a shortest expansion of any rule (fallback representative) -------------------------
    def minimal(self, name, stack=()):
        if name in GRAMMAR_TERMINALS:
            return GRAMMAR_TERMINALS[name]
        if name in self._min:
            return self._min[name]
        if name in stack or name not in self.rules or name.startswith("invalid_"):
            return None
        best = None
        for alt in self.rules[name].rhs.alts:
            seq = self._min_items([i.item for i in alt.items], stack + (name,))
            if seq is not None and (best is None or len(seq) < len(best)):
                best = seq
        if not stack:
            self._min[name] = best
        return best

    def _min_items(self, items, stack):
        out = []
        for it in items:
            s = self._min_item(it, stack)
            if s is None:
                return None
            out += s
        return out

    def _min_item(self, it, stack):
        t = type(it).__name__
        if t == "StringLeaf":
            return [it.value[1:-1]]
        if t == "NameLeaf":
            return self.minimal(it.value, stack)
        if t in ("Opt", "Repeat0", "PositiveLookahead", "NegativeLookahead", "Cut"):
            return []
        if t in ("Repeat1", "Forced"):
            return self._min_item(it.node, stack)
        if t == "Gather":
            return self._min_item(it.node, stack)
        if t in ("Group", "Rhs"):
            rhs = it.rhs if t == "Group" else it
            best = None
            for alt in rhs.alts:
                seq = self._min_items([i.item for i in alt.items], stack)
                if seq is not None and (best is None or len(seq) < len(best)):
                    best = seq
            return best
        return None

    # -- all bounded expansions -------------------------------------------------------------
    def rule(self, name, depth):
        out, seen = [], set()
        for alt in self.rules[name].rhs.alts:
            for seq in self.alt(alt, depth):
                k = tuple(seq)
                if k not in seen:
                    seen.add(k)
                    out.append(seq)
        if len(out) > RULE_LIMIT:
            self.truncated[name] = len(out)
            out = out[:RULE_LIMIT]
        return out

    def alt(self, alt, depth):
        lists = []
        for named in alt.items:
            xs = self.item(named.item, depth)
            if not xs:
                return []
            lists.append(xs)
        total = 1
        for xs in lists:
            total *= len(xs)
        if total <= PRODUCT_LIMIT:
            combos = itertools.product(*lists)
        else:  # one-at-a-time around the all-first baseline, plus all-last
            base = [xs[0] for xs in lists]
            cs = [tuple(base), tuple(xs[-1] for xs in lists)]
            for i, xs in enumerate(lists):
                for x in xs[1:]:
                    cs.append(tuple(base[:i] + [x] + base[i + 1 :]))
            combos = cs
        out = []
        for combo in combos:
            seq = []
            for part in combo:
                seq += part
            out.append(seq)
        return out

    def item(self, it, depth):
        t = type(it).__name__
        if t == "StringLeaf":
            return [[it.value[1:-1]]]
        if t == "NameLeaf":
            name = it.value
            if name.startswith("invalid_"):
                return []
            if name in GRAMMAR_TERMINALS:
                v = GRAMMAR_TERMINALS[name]
                return [] if v is None else [list(v)]
            if _is_scenic_rule(name) and depth > 0 and name in self.rules:
                return self.rule(name, depth - 1)
            m = self.minimal(name)
            return [] if m is None else [list(m)]
        if t == "Opt":
            return [[]] + self.item(it.node, depth)
        if t == "Repeat0":
            xs = self.item(it.node, depth)
            return [[]] + xs + ([xs[0] + xs[0]] if xs else [])
        if t == "Repeat1":
            xs = self.item(it.node, depth)
            return xs + ([xs[0] + xs[0]] if xs else [])
        if t == "Gather":
            xs = self.item(it.node, depth)
            sep = self.item(it.separator, depth)
            return xs + ([xs[0] + sep[0] + xs[-1]] if xs and sep else [])
        if t == "Forced":
            return self.item(it.node, depth)
        if t in ("PositiveLookahead", "NegativeLookahead", "Cut"):
            return [[]]
        if t == "Group":
            return self.rhs(it.rhs, depth)
        if t == "Rhs":
            return self.rhs(it, depth)
        return []

    def rhs(self, rhs, depth):
        out = []
        for alt in rhs.alts:
            out += self.alt(alt, depth)
        return out


def render_tokens(seq):
    """Token list with layout markers -> text (no trailing newline)."""
    lines, cur, level = [], [], 0
    for tok in seq:
        if tok == NL:
            lines.append("    " * level + " ".join(cur))
            cur = []
        elif tok == IND:
            level += 1
        elif tok == DED:
            level = max(level - 1, 0)
        else:
            cur.append(tok)
    if cur:
        lines.append("    " * level + " ".join(cur))
    return "\n".join(lines)


def grammar_forms(gram_path, depth=2):
    """-> ([(root rule, text)], stats).  Every Scenic-specific rule of the grammar, expanded with each
    optional element absent / present, repetitions 0 / 1 / 2, every alternative (nested Scenic
    rules down to `depth`), rendered and placed in each of GRAMMAR_FORM_CONTEXTS."""
    from pegen.build import build_parser

    grammar = build_parser(gram_path)[0]
    ex = _Expander(grammar.rules)
    roots = sorted(n for n in grammar.rules if _is_scenic_rule(n))
    out, seen = [], set()
    per_root = {}
    for root in roots:
        bodies = []
        for seq in ex.rule(root, depth):
            body = render_tokens(seq).rstrip("\n")
            if body.strip() and body not in bodies:
                bodies.append(body)
        per_root[root] = len(bodies)
        for body in bodies:
            for label, head, indent in GRAMMAR_FORM_CONTEXTS:
                if indent is None:
                    if "\n" in body:  # continuation lines keep their own indentation
                        first, rest = body.split("\n", 1)
                        text = head + first + "\n" + rest + "\n"
                    else:
                        text = head + body + "\n"
                else:
                    text = head + "\n".join(indent + l if l else l for l in body.split("\n")) + "\n"
                if text not in seen:
                    seen.add(text)
                    out.append((f"{root}@{label}", text))
    stats = {"roots": len(roots), "bodies": sum(per_root.values()), "texts": len(out), "truncated_rules": ex.truncated,
             "bodies_per_root": per_root}  # fmt: skip
    return out, stats


# ---------------------------------------------------------------------------------------
# literal alphabets and nesting depth: every NUMBER spelling in every grammar position that
# converts a number, every pair of string-literal prefixes for adjacent literals, and every
# nesting shape at depths 5 / 20 / 40 / 100

NUMBER_ALPHABET = ["1", "0", "0.5", "1.", ".5", "1e-1", "1E3", "1_0", "1_0.0_1", "0x1", "0XfF", "0o7", "0b1", "1j", "1.5J",
                   "1e1j", "0_0", "00", "01", "1e400", "0x", "1__0", "1_", "0b2", "1.e", "9" * 30]  # fmt: skip
NUMBER_POSITIONS = [
    "require[{n}] x", "require[{n}] x as y", "x = {n}", "x = -{n}", "x = {n} deg", "x = {n} @ {n}", "x = y[{n}]", "param p = {n}",
    "require x as {n}", "record x as {n}", "terminate when x as {n}", "mutate x by {n}", "ego = new Object at {n} @ {n}",
    "behavior B():\n    wait for {n} seconds", "behavior B():\n    do C() for {n} steps", "terminate after {n} seconds",
    "match x:\n    case {n}:\n        pass", "match x:\n    case -{n}:\n        pass", "match x:\n    case {n} + 1j:\n        pass",
    "match x:\n    case 1 + {n}:\n        pass", "match x:\n    case -{n} - {n}:\n        pass", "match x:\n    case {{{n}: y}}:\n        pass",
    "match x:\n    case [{n}, *_]:\n        pass", "match x:\n    case A(b={n}):\n        pass",
]  # fmt: skip
STRING_PREFIXES = ["", "b", "r", "u", "f", "rb", "br", "rf", "fr", "B", "F", "Rb", "bR", "U"]
STRING_POSITIONS = [
    'x = {a}"a" {b}"b"', "x = {a}'a' {b}'''b'''", 'x = ({a}"a"\n     {b}"b")', 'x = f({a}"a" {b}"b", c)', 'x = {a}"a" {b}"b" {a}"c"',
    'ego = new Object with name {a}"a" {b}"b"', 'require x as {a}"a"', 'param {a}"p" = 1', 'x = y[{a}"a" {b}"b"]',
    'behavior B():\n    {a}"doc" {b}"string"\n    wait',
]  # fmt: skip
NESTING_DEPTHS = (5, 20, 40, 100)
NESTING_SHAPES = {
    "paren": lambda d: "(" * d + "x" + ")" * d,
    "list": lambda d: "[" * d + "x" + "]" * d,
    "set": lambda d: "{" * d + "x" + "}" * d,
    "dict": lambda d: "{1:" * d + "x" + "}" * d,
    "tuple": lambda d: "(" * d + "x" + ",)" * d,
    "call": lambda d: "f(" * d + "x" + ")" * d,
    "unary-minus": lambda d: "-" * d + "x",
    "unary-not": lambda d: "not " * d + "x",
    "attribute": lambda d: "x" + ".a" * d,
    "subscript": lambda d: "x" + "[0]" * d,
    "call-chain": lambda d: "x" + "()" * d,
    "sum": lambda d: "x" + " + x" * d,
    "power": lambda d: "x" + " ** x" * d,
    "compare": lambda d: "x" + " < x" * d,
    "and": lambda d: "x" + " and x" * d,
    "ternary": lambda d: "x if x else (" * d + "x" + ")" * d,
    "ternary-flat": lambda d: "x if x else " * d + "x",
    "lambda": lambda d: "lambda: " * d + "x",
    "vector": lambda d: "x" + " @ x" * d,
    "relative-to": lambda d: "x" + " relative to x" * d,
    "visible": lambda d: "visible " * d + "x",
    "distance-to": lambda d: "distance to " * d + "x",
    "fstring": lambda d: ("f'{" * min(d, 5)) + "x" + ("}'" * min(d, 5)),
}
NESTING_POSITIONS = ["x = {e}", "require {e}", "ego = new Object at {e}", "behavior B():\n    take {e}", "f({e})", "x = [y for y in {e}]"]
BLOCK_SHAPES = {
    "if": "if x:", "while": "while x:", "for": "for y in x:", "def": "def f():", "class": "class C:", "with": "with x:",
    "try": "try:", "behavior-if": None,
}  # fmt: skip


def literal_and_nesting_forms():
    """-> [(origin, text)], all distinct."""
    out, seen = [], set()

    def add(origin, text):
        if text not in seen:
            seen.add(text)
            out.append((origin, text))

    for pos in NUMBER_POSITIONS:
        for n in NUMBER_ALPHABET:
            add("number:" + pos.split("\n")[-1].strip()[:24], pos.replace("{n}", n) + "\n")
    for pos in STRING_POSITIONS:
        for a in STRING_PREFIXES:
            for b in STRING_PREFIXES:
                add("strings:" + pos.split("\n")[-1].strip()[:24], pos.replace("{a}", a).replace("{b}", b) + "\n")
    for shape, mk in NESTING_SHAPES.items():
        for d in NESTING_DEPTHS:
            for pos in NESTING_POSITIONS:
                add(f"nesting:{shape}:{d}", pos.replace("{e}", mk(d)) + "\n")
    for shape, head in BLOCK_SHAPES.items():
        for d in NESTING_DEPTHS:
            lines = []
            if head is None:
                lines.append("behavior B():")
                for i in range(d):
                    lines.append(" " * (i + 1) + "if x:")
                lines.append(" " * (d + 1) + "wait")
            else:
                for i in range(d):
                    lines.append(" " * i + head)
                lines.append(" " * d + "pass")
                if shape == "try":
                    for i in reversed(range(d)):
                        lines.append(" " * i + "finally:")
                        lines.append(" " * (i + 1) + "pass")
            add(f"nesting:block-{shape}:{d}", "\n".join(lines) + "\n")
    return out
