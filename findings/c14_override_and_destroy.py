"""Reproducer (plain script) for two C14 defects fixed in /repo:
1. "fix: revert every override when a scenario overrides an object more than once"
2. "fix: roll back simulation state even if the simulator's destroy() fails"
Run: /venv/bin/python findings/c14_override_and_destroy.py   (exit 0 = OK)
"""
import sys

import scenic
import scenic.syntax.veneer as veneer
from scenic.core.simulators import DummySimulation, DummySimulator

OVERRIDE = """
scenario Sub():
    setup:
        override ego with foo 5
        override ego with bar 6
        terminate after 2 steps
scenario Main():
    setup:
        ego = new Object with foo 1, with bar 2
        record (ego.foo, ego.bar) as fb
        terminate after 5 steps
    compose:
        wait
        do Sub()
        wait
        wait
"""
ok = True
scene, _ = scenic.scenarioFromString(OVERRIDE, scenario="Main").generate(maxIterations=1)
sim = DummySimulator().simulate(scene, maxSteps=8)
fb = dict(sim.result.records["fb"])
print("record (foo, bar) per step:", fb)
ok &= fb[0] == (1, 2) and fb[1] == (5, 6) and fb[4] == (1, 2)


class FailingDestroy(DummySimulation):
    def destroy(self):
        raise RuntimeError("simulator crashed while cleaning up")


class FailingSimulator(DummySimulator):
    def createSimulation(self, scene, **kwargs):
        return FailingDestroy(scene, **kwargs)


PROG = """
behavior B():
    take 1
    take 2
ego = new Object with behavior B()
terminate after 2 steps
"""
scene, _ = scenic.scenarioFromString(PROG).generate(maxIterations=1)
try:
    FailingSimulator().simulate(scene, maxSteps=3)
except RuntimeError as e:
    print("simulate raised:", e)
print("veneer.currentSimulation afterwards:", veneer.currentSimulation)
ok &= veneer.currentSimulation is None
try:
    sim = DummySimulator().simulate(scene, maxSteps=3)
    print("second simulation of the same scene: ok")
except Exception as e:  # noqa: BLE001
    print("second simulation of the same scene failed:", type(e).__name__, e)
    ok = False
sys.exit(0 if ok else 1)
