"""Reproducer (plain script, no explorer) for the C13 defect fixed by the commit
"fix: propagate break/continue/return out of nested try-interrupt statements".

Run: /venv/bin/python findings/c13_nested_try_interrupt.py   (exit 0 = behaves as documented)

1. `return` in the handler of a try-interrupt nested in the body of another try-interrupt
   must return from the behavior (statements.rst); before the fix it only ended the
   *outer* try statement and the behavior carried on with the statements after it.
2. `break` in such a nested handler, inside a loop that encloses the *outer* statement, is a
   valid program; before the fix compilation failed with "'break' outside loop".
"""
import sys

import scenic
from scenic.core.simulators import DummySimulator

RETURN_PROG = """
behavior B():
    try:
        try:
            take 1
            take 2
            take 3
        interrupt when simulation().currentTime == 1:
            take 10
            return
        take 4
    interrupt when False:
        take 20
    take 5
    take 6
ego = new Object with behavior B()
terminate after 6 steps
"""

BREAK_PROG = """
behavior B():
    for i in range(2):
        try:
            try:
                take 1
                take 2
            interrupt when simulation().currentTime == 1:
                break
            take 4
        interrupt when False:
            take 20
        take 5
    take 6
    take 7
ego = new Object with behavior B()
terminate after 5 steps
"""


def actions(src):
    scenario = scenic.scenarioFromString(src)
    scene, _ = scenario.generate(maxIterations=1)
    sim = DummySimulator().simulate(scene, maxSteps=8)
    return [tuple(a for acts in step.values() for a in acts) for step in sim.result.actions]


ok = True
got = actions(RETURN_PROG)
want = [(1,), (10,), (), (), (), ()]
print("return:", got, "expected", want)
ok &= got == want
try:
    got = actions(BREAK_PROG)
    want = [(1,), (6,), (7,), (), ()]
    print("break: ", got, "expected", want)
    ok &= got == want
except Exception as e:  # noqa: BLE001
    print("break:  failed to compile/run:", type(e).__name__, e)
    ok = False
sys.exit(0 if ok else 1)
