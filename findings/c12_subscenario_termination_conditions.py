"""Reproducer (plain script) for the C12 defect fixed by
"fix: termination conditions and records defined in sub-scenario setup blocks".
Run: /venv/bin/python findings/c12_subscenario_termination_conditions.py   (exit 0 = OK)
"""
import sys

import scenic
from scenic.core.simulators import DummySimulator

P = """
scenario Sub():
    setup:
        {STMT}
scenario Main():
    setup:
        ego = new Object
    compose:
        do Sub()
        wait
"""
ok = True
for stmt, want in [
    ("terminate when simulation().currentTime == 2", ("scenarioComplete", 3)),
    ("terminate simulation when simulation().currentTime == 2", ("simulationTerminationCondition", 2)),
    ("record simulation().currentTime as subt\n        terminate after 2 steps", ("scenarioComplete", 3)),
]:
    scene, _ = scenic.scenarioFromString(P.replace("{STMT}", stmt), scenario="Main").generate(maxIterations=1)
    sim = DummySimulator().simulate(scene, maxSteps=6)
    got = None if sim is None else (sim.result.terminationType.name, sim.currentTime)
    print(f"{stmt.splitlines()[0]:60s} -> {got}   expected {want}")
    ok &= got == want
    if sim is not None and "record" in stmt:
        ok &= "subt" in sim.result.records
sys.exit(0 if ok else 1)
