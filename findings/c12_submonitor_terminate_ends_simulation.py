"""C12: `terminate` executed by a monitor of a sub-scenario must stop that sub-scenario only
(reference, dynamic_scenarios.rst step 3); it ended the whole simulation."""
import scenic
from scenic.core.simulators import DummySimulator

prog = '''
monitor Stopper():
    wait
    terminate
scenario Sub():
    setup:
        require monitor Stopper()
    compose:
        while True:
            wait
scenario Main():
    setup:
        ego = new Object
    compose:
        do Sub()
        wait
        wait
        wait
'''
sc = scenic.scenarioFromString(prog, scenario="Main")
scene, _ = sc.generate()
sim = DummySimulator().simulate(scene, maxSteps=10)
r = sim.result
print(len(r.trajectory), r.terminationType, r.terminationReason)
assert len(r.trajectory) == 6, len(r.trajectory)  # Sub ends in step 1, Main waits 3 more steps
assert "scenarioComplete" in str(r.terminationType)
print("ok")
