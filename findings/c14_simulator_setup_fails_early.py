"""C14: a simulator interface whose setup() raises before calling the parent implementation
(e.g. it cannot connect) left Scenic in simulation mode: Simulation.agents did not exist yet,
so the clean-up raised AttributeError and skipped veneer.endSimulation."""
import scenic
from scenic.core.simulators import DummySimulation, DummySimulator
import scenic.syntax.veneer as veneer


class BrokenSimulation(DummySimulation):
    def setup(self):
        raise ConnectionError("cannot reach the simulator")


class BrokenSimulator(DummySimulator):
    def createSimulation(self, scene, **kwargs):
        return BrokenSimulation(scene, **kwargs)


sc = scenic.scenarioFromString("ego = new Object\n")
scene, _ = sc.generate()
try:
    BrokenSimulator().simulate(scene, maxSteps=2)
except ConnectionError:
    pass
assert veneer.currentSimulation is None, "Scenic left in simulation mode"
scenic.scenarioFromString("ego = new Object\n")  # used to raise RuntimeError
sim = DummySimulator().simulate(scene, maxSteps=2)
assert len(sim.result.trajectory) == 3
print("ok")
