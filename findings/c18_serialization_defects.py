"""Reproducers (plain script) for the C18 defects of Scenic's scene / replay serialization.
Run: /venv/bin/python findings/c18_serialization_defects.py   (exit 0 = every defect absent)

 1. truncated multi-byte ints / strings decode silently          serialization.py readInt / readBytes
 2. corrupted option index -> IndexError instead of SerializationError  distributions.py MultiplexerDistribution.deserializeValue
 3. corrupted float -> AssertionError / endless loop in normalizeAngle   geometry.py normalizeAngle (+ readScene does not wrap)
 4. `mutate`: the decoded scene is NOT the encoded scene           object_types.py Point.sampleGiven (noise from random.gauss, never stored)
 5. negative scalar divergences are never reported                simulators.py Simulation.valuesHaveDiverged
 6. option hash: param override 1 and "1" give the same hash       serialization.py deterministicHash
"""
import random
import signal
import sys

import scenic
from scenic.core.serialization import SerializationError, Serializer
from scenic.core.simulators import DivergenceError, DummySimulation, DummySimulator

bad = []


def report(name, ok, detail):
    print(("ok      " if ok else "DEFECT  ") + name + ": " + detail)
    if not ok:
        bad.append(name)


def decode(scenario, data, limit=5):
    def alarm(*a):
        raise TimeoutError("still decoding after %d s" % limit)

    signal.signal(signal.SIGALRM, alarm)
    signal.alarm(limit)
    try:
        return ("scene", scenario.sceneFromBytes(data))
    except SerializationError as e:
        return ("SerializationError", str(e))
    except BaseException as e:  # noqa: BLE001
        return (type(e).__name__, str(e))
    finally:
        signal.alarm(0)


# 1 -- truncation ---------------------------------------------------------------------
sc = scenic.scenarioFromString("ego = new Object with foo DiscreteRange(32766, 32769)\n")
random.seed(0)
while True:
    scene, _ = sc.generate()
    if scene.objects[0].foo == 32768:
        break
data = sc.sceneToBytes(scene)  # ... fe 00 80 00 00
out = decode(sc, data[:-3])
report("truncated-int", out[0] == "SerializationError", f"{data.hex()} cut to {data[:-3].hex()} -> {out[0]}"
       + (f" with foo={out[1].objects[0].foo} (was 32768)" if out[0] == "scene" else ""))
ser = Serializer()
ser.writeValue("squeamish", str)
try:
    v = Serializer(ser.getBytes()[:4]).readValue(str)
    report("truncated-str", False, f"readValue(str) of the 4-byte prefix of {ser.getBytes().hex()} returned {v!r}")
except SerializationError:
    report("truncated-str", True, "refused")

# 2 -- option index -------------------------------------------------------------------
sc = scenic.scenarioFromString('param p = Uniform("a", "b")\nego = new Object\n')
scene, _ = sc.generate()
data = sc.sceneToBytes(scene)
corrupt = data[:10] + bytes([data[10] ^ 0x80]) + data[11:]
out = decode(sc, corrupt)
report("corrupt-option-index", out[0] in ("SerializationError", "scene"), f"{data.hex()} -> {corrupt.hex()}: {out[0]} {out[1] if out[0] != 'scene' else ''}")

# 3 -- corrupted float reaching normalizeAngle ---------------------------------------------
sc = scenic.scenarioFromString("ego = new Object at Range(0, 1) @ 0, facing Range(0, 90) deg\n", mode2D=True)
random.seed(0)
scene, _ = sc.generate()
data = sc.sceneToBytes(scene)
for label, edit in (("nan", lambda b: b[:-2] + b"\xf8\x7f"), ("huge", lambda b: b[:-1] + b"\x7f")):
    corrupt = edit(data)
    out = decode(sc, corrupt)
    report(f"corrupt-float-{label}", out[0] in ("SerializationError", "scene"), f"{data.hex()} -> {corrupt.hex()}: {out[0]} {out[1] if out[0] != 'scene' else ''}")

sc = scenic.scenarioFromString("ego = new Object at Range(3, 5) @ 2\nnew Object at 10 @ 10, facing toward ego\n")
random.seed(0)
scene, _ = sc.generate()
data = sc.sceneToBytes(scene)  # header, Range float, then the Vector (x, y, z) of `toward ego`
corrupt = data[:33] + b"\xff" + data[34:]  # high byte of y: a finite number of magnitude ~1e305
out = decode(sc, corrupt)
report("corrupt-vector-hang", out[0] in ("SerializationError", "scene"), f"{data.hex()} -> {corrupt.hex()}: {out[0]} {out[1] if out[0] != 'scene' else ''}")

# 4 -- mutate -------------------------------------------------------------------------
sc = scenic.scenarioFromString("ego = new Object at Range(3, 5) @ 2\nmutate\n")
random.seed(1)
scene, _ = sc.generate()
data = sc.sceneToBytes(scene)
random.seed(7)
scene2 = sc.sceneFromBytes(data)
same = tuple(scene.objects[0].position) == tuple(scene2.objects[0].position) and scene.objects[0].yaw == scene2.objects[0].yaw
report("mutate-roundtrip", same, f"encoded position {scene.objects[0].position} yaw {scene.objects[0].yaw}; decoded position {scene2.objects[0].position} yaw {scene2.objects[0].yaw}")

# 5 -- sign of a divergence -----------------------------------------------------------
sc = scenic.scenarioFromString("behavior B():\n    while True:\n        wait\nego = new Object with behavior B\n")
scene, _ = sc.generate()
sim = DummySimulator().simulate(scene, maxSteps=2, enableDivergenceCheck=True)


def off_by(delta):
    class S(DummySimulation):
        def getProperties(self, obj, properties):
            vals = super().getProperties(obj, properties)
            vals["yaw"] = vals["yaw"] + delta
            return vals

    class Sim(DummySimulator):
        def createSimulation(self, scene, **kw):
            return S(scene, drift=self.drift, **kw)

    try:
        Sim().simulate(scene, maxSteps=2, replay=sim.getReplay(), divergenceTolerance=0.1)
        return "no error"
    except DivergenceError:
        return "DivergenceError"


plus, minus = off_by(+0.2), off_by(-0.2)
report("divergence-sign", plus == minus == "DivergenceError", f"yaw off by +0.2: {plus}; yaw off by -0.2: {minus} (tolerance 0.1)")

# 6 -- option hash ---------------------------------------------------------------------
text = "ego = new Object\nparam x = 0\n"
s1 = scenic.scenarioFromString(text, params={"x": 1})
s2 = scenic.scenarioFromString(text, params={"x": "1"})
out = decode(s2, s1.sceneToBytes(s1.generate()[0]))
report("option-hash-int-vs-str", out[0] == "SerializationError", f'scene of params={{"x": 1}} given to params={{"x": "1"}}: {out[0]}'
       + (f" with x={out[1].params['x']!r}" if out[0] == "scene" else ""))

sys.exit(1 if bad else 0)
