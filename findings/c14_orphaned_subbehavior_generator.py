"""Reproducer (plain script) for the C14 defect fixed by the commit
"fix: stop abandoned try-interrupt blocks immediately".

Run: /venv/bin/python findings/c14_orphaned_subbehavior_generator.py   (exit 0 = OK)

A simulation is rejected by an invariant of behavior B that is checked while B waits in
`do Sub() for 3 steps`.  The exception leaves the sub-behaviour's generator suspended; it
was only closed when the exception's traceback was released -- after the simulation had
ended -- and closing it restored `veneer.currentBehavior = B()`.  From then on the
process was poisoned: compiling any scenario failed with
"tried to create an object inside a behavior".
"""
import sys

import scenic
import scenic.syntax.veneer as veneer
from scenic.core.simulators import DummySimulator

PROG = """
behavior Sub():
    take 1
    take 2
    take 3
behavior B():
    invariant: simulation().currentTime != 1
    do Sub() for 3 steps
    take 4
ego = new Object with behavior B()
terminate after 6 steps
"""

scenario = scenic.scenarioFromString(PROG)
scene, _ = scenario.generate(maxIterations=1)
sim = DummySimulator().simulate(scene, maxSteps=8)
print("simulation rejected:", sim is None)
print("veneer.currentBehavior afterwards:", veneer.currentBehavior)
ok = sim is None and veneer.currentBehavior is None
try:
    scenic.scenarioFromString("ego = new Object")
    print("follow-up compile: ok")
except Exception as e:  # noqa: BLE001
    print("follow-up compile failed:", type(e).__name__, e)
    ok = False
sys.exit(0 if ok else 1)
