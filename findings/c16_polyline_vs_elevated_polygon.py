"""C16: intersects / difference between a polyline (z = 0) and a polygon at another height
ignored the polygon's height."""
from scenic.core.regions import PolygonalRegion, PolylineRegion

poly = PolygonalRegion(points=[(0, 0), (2, 0), (2, 2), (0, 2)], z=5)
line = PolylineRegion([(-1, 1), (3, 1)])
assert not poly.intersects(line)
assert not line.intersects(poly)
d = line.difference(poly)
assert d.containsPoint((1, 1, 0)), "part of the polyline below the polygon was removed"
ground = PolygonalRegion(points=[(0, 0), (2, 0), (2, 2), (0, 2)])
assert ground.intersects(line) and line.intersects(ground)
assert not line.difference(ground).containsPoint((1, 1, 0))
print("ok")
