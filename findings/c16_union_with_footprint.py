"""C16: PolygonalRegion.union(PolygonalFootprintRegion) flattened the footprint (an infinite
vertical column) to a planar polygon at the polygon's height."""
from scenic.core.regions import PolygonalRegion, PolygonalFootprintRegion
import shapely.geometry as sg

fp = PolygonalFootprintRegion(sg.Polygon([(0, 0), (2, 0), (2, 2), (0, 2)]))
poly = PolygonalRegion(points=[(5, 5), (7, 5), (7, 7), (5, 7)], z=5)
for R in (poly.union(fp), fp.union(poly)):
    assert R.containsPoint((1, 1, 7)), "point of the footprint column lost"
    assert R.containsPoint((6, 6, 5))
    try:
        d = R.distanceTo((1, 1, 7))  # was 2.0 (distance to the flattened polygon)
    except NotImplementedError:
        d = 0  # footprints do not implement distances; refusing is fine
    assert d == 0, d
print("ok")
