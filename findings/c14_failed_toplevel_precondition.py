"""C14: a top-level scenario whose precondition fails when a simulation starts was left
marked as running, so every later simulation of the same scenario died with an
AssertionError even once the precondition held."""
import scenic
from scenic.core.simulators import DummySimulator
from scenic.core.dynamics import GuardViolation
flag = {"ok": False}
prog = '''
import builtins
scenario Main():
    precondition: builtins.FLAG["ok"]
    setup:
        ego = new Object
    compose:
        wait
        wait
'''
import builtins
builtins.FLAG = flag
sc = scenic.scenarioFromString(prog)
scene, _ = sc.generate()
for i in range(3):
    try:
        sim = DummySimulator().simulate(scene, maxSteps=5, raiseGuardViolations=True)
        print(i, "ok", None if sim is None else len(sim.result.trajectory))
        assert i > 0
    except BaseException as e:
        print(i, type(e).__name__, str(e)[:100])
        assert i == 0, "later simulations must work"
    flag["ok"] = (i >= 0)
