"""Reproducers (plain script, no explorer, no randomness in the verdicts) for the defects found by
check C03 in scenic/core/regions.py.  A proposed minimal patch is in c03_proposed_fixes.patch.

Run: /venv/bin/python findings/c03_region_sampling_defects.py   (exit 0 = all behave as documented)

D1  PolygonalRegion.intersect / union / difference lose the height: the result of composing two
    planar regions at z = 5 is a region at z = 0 (regionFromShapelyObject / PolygonalRegion(...) are
    called without z).  Also: polygon(z != 0).intersect(polyline) is a polyline at z = 0 instead of
    nothing (PolylineRegion.intersect has the guard, PolygonalRegion.intersect has not).
D2  SectorRegion.circumcircle uses (radius/2)*cos(angle/2) instead of (radius/2)/cos(angle/2): the
    "circumcircle" does not contain the sector, so PointSetRegion & SectorRegion silently drops
    member points (the point-set sampler pre-filters with query_ball_point on that circle).
D3  PointSetRegion.intersect(other) needs other.circumcircle, which PolygonalRegion,
    PolylineRegion, PathRegion and VoxelRegion do not have: AttributeError at sampling time.
D4  PointSetRegion.intersect(PointSetRegion / GridRegion): unbounded recursion.
    (already fixed in /repo while this check was being built.)
D5  The point-set sampler tests o.containsPoint(p); for plain polygonal regions (RectangularRegion,
    PolygonalRegion) that is the footprint test, which ignores z: points above / below the
    rectangle are produced.  (IntersectionRegion.genericSampler uses _trueContainsPoint.)
D6  UnionRegion double counts: GridRegion._trueContainsPoint is "nearest grid cell is free", so a
    point of the other operand lying in a free cell counts as contained in the grid although the
    grid can only produce its grid points; such points are produced half as often as the others.
D7  SectorRegion._makePolygons masks the disc with a kite whose tip is at 2*radius: for
    angle > 2*pi/3 the kite's edges cut into the disc, so the polygon (used by every
    intersection / union / difference and by `size`) misses part of the sector.
    (already fixed in /repo: "fix: SectorRegion polygon is no longer clipped for angles above
    120 degrees".)
D8  PolylineRegion.containsPoint is an exact test (shapely.intersects_xy) that fails for the
    polyline's own samples; IntersectionRegion.genericSampler asks every operand, including the
    one that was sampled, so a generic intersection with a polyline can never be sampled.
"""
import math
import sys
import warnings

warnings.filterwarnings("ignore")

import shapely.geometry as sg

from scenic.core.distributions import RejectionException
from scenic.core.regions import (
    CircularRegion,
    GridRegion,
    PathRegion,
    PointSetRegion,
    PolygonalRegion,
    PolylineRegion,
    RectangularRegion,
    SectorRegion,
    UnionRegion,
    nowhere,
)
from scenic.core.vectors import Vector

bad = []


def check(name, ok, detail=""):
    print(("ok   " if ok else "FAIL ") + name + (": " + detail if detail else ""))
    if not ok:
        bad.append(name)


# D1
A = PolygonalRegion(polygon=sg.Polygon([(0, 0), (2, 0), (2, 2), (0, 2)]), z=5)
B = CircularRegion(Vector(1, 1, 5), 1)
for op in ("intersect", "union", "difference"):
    r = getattr(A, op)(B)
    check(f"D1 {op} keeps z", getattr(r, "z", None) == 5, f"z = {getattr(r, 'z', None)}")
pl = PolylineRegion([(-1, 1), (3, 1.5)])
check("D1 polygon(z=5) & polyline(z=0) is empty", A.intersect(pl) is nowhere, type(A.intersect(pl)).__name__)

# D2 / D7
S = SectorRegion(Vector(0, 0, 0), 2.0, 0.0, 1.2)
c, r = S.circumcircle
p = Vector(0, 1.9, 0)
check("D2 circumcircle contains the sector", S.containsPoint(p) and c.distanceTo(p) <= r, f"centre {tuple(c)}, radius {r:.3f}, member {tuple(p)}")
W = SectorRegion(Vector(0, 0, 0), 1.5, 0.3, 4.0)
check("D7 polygon of a wide sector", abs(W.polygons.area - 0.5 * 1.5**2 * 4.0) < 0.02, f"polygon area {W.polygons.area:.3f}, sector area {0.5 * 1.5 ** 2 * 4.0:.3f}")

# D3
ps = PointSetRegion("ps", [(0.5, 0.5, 0), (5, 5, 0)])
for other in (
    PolygonalRegion(polygon=sg.Polygon([(0, 0), (2, 0), (2, 2), (0, 2)])),
    PolylineRegion([(0, 0), (1, 1)]),
    PathRegion(points=[(0, 0, 0), (1, 1, 1)]),
):
    try:
        try:
            ps.intersect(other).uniformPointInner()
        except RejectionException:
            pass
        check(f"D3 pointset & {type(other).__name__}", True)
    except AttributeError as e:
        check(f"D3 pointset & {type(other).__name__}", False, str(e))

# D4
try:
    ps.intersect(PointSetRegion("q", [(0.5, 0.5, 0)]))
    check("D4 pointset & pointset", True)
except RecursionError:
    check("D4 pointset & pointset", False, "RecursionError")

# D5: the only candidate is above the rectangle, so any sample is wrong
R = RectangularRegion(Vector(0, 0, 0), 0, 2, 2)
I = PointSetRegion("ps2", [(0.5, 0.5, 0.4)]).intersect(R)
try:
    q = I.uniformPointInner()
    check("D5 pointset & rectangle respects z", False, f"produced {tuple(q)} for a rectangle at z = 0")
except RejectionException:
    check("D5 pointset & rectangle respects z", True)

# D6: acceptance probability of the union sampler for the point (0.2, 0.2) of the point set
G = GridRegion("g", [[0, 0], [0, 0]], 1.0, 1.0, 0.0, 0.0)
P = PointSetRegion("p", [(0.2, 0.2, 0), (7, 7, 0)])
U = P.union(G)
assert isinstance(U, UnionRegion)
counts = [sum(int(reg._trueContainsPoint(Vector(*pt))) for reg in U.regions) for pt in ((0.2, 0.2, 0), (7, 7, 0), (0, 0, 0))]
check("D6 multiplicity of a point that only one operand can produce", counts == [1, 1, 1], f"containment counts {counts} (a count of 2 halves the probability)")

# D8
pl2 = PolylineRegion([(-0.4, 0.2), (1.3, 0.9), (1.6, 2.7)])
a, b = pl2.segments[0]
mid = Vector(a[0] + 0.3 * (b[0] - a[0]), a[1] + 0.3 * (b[1] - a[1]), 0)
check("D8 polyline contains a point of its own segment", pl2.containsPoint(mid), f"containsPoint({tuple(mid)}) = {pl2.containsPoint(mid)}, distance {pl2.distanceTo(mid):.2e}")

sys.exit(1 if bad else 0)
