"""Reproducer (plain script) for the C15 defect fixed by
"fix: sample requirement dependencies in a reproducible order".

Random values referenced only from requirements were collected in identity-hashed sets, so
the order in which they are sampled (Scenario.dependencies) depended on memory addresses:
recompiling the same program in one process -- or running it in another process -- with
the same seed could give different scenes.

Run: /venv/bin/python findings/c15_requirement_dependency_order.py   (exit 0 = OK)
"""
import random
import sys

import numpy
import scenic
from scenic.core.distributions import Range

N = 16
PROG = "\n".join(f"v{i} = Range({i}, {i + 1})" for i in range(N)) + "\nego = new Object at (Range(0, 1), 0, 0)\n" + "\n".join(f"require v{i} < {i + 0.9}" for i in range(N)) + "\n"

orders, scenes = set(), set()
keep = []
for k in range(6):
    scenario = scenic.scenarioFromString(PROG)
    keep.append(scenario)  # keep alive so that addresses differ between compilations
    order = tuple(int(d.low) for d in scenario.dependencies if isinstance(d, Range) and d.low >= 0 and d.high - d.low == 1 and d.low == int(d.low) and d is not scenario.objects[0].position)
    orders.add(order)
    random.seed(3)
    numpy.random.seed(3)
    scene, its = scenario.generate(maxIterations=1000)
    scenes.add((repr(scene.objects[0].position), its))
print("distinct sampling orders of the requirement-only values over 6 compilations:", len(orders))
print("distinct (ego position, iterations) with the same seed:", len(scenes), sorted(scenes)[:3])
sys.exit(0 if len(orders) == 1 and len(scenes) == 1 else 1)
