"""Reproducer (plain script) for the KNOWN C13 finding
"invariant-checked-while-sub-behaviour-runs" (recorded, not repaired).

docs/reference/statements.rst (Behavior Definition): invariants are checked at every time
step while the behavior is executing, "but *not* including time spent inside
sub-behaviors: this allows sub-behaviors to break and restore invariants before they
return".  With `do Sub()` this holds; with `do Sub() for N steps`, `do Sub() until C` and
for a `do Sub()` inside the body of a try-interrupt statement, runTryInterrupt
(src/scenic/core/dynamics/invocables.py) re-checks the *invoking* behavior's invariants
after every step of the sub-behaviour.

Exit status 1 while the defect is present.
"""
import sys

import scenic
from scenic.core.simulators import DummySimulator

PROG = """
behavior Sub():
    take 1
    take 2
    take 3
behavior B():
    invariant: simulation().currentTime != 1     # broken only while Sub runs (step 1)
    {DO}
    take 4
ego = new Object with behavior B()
terminate after 5 steps
"""

results = {}
for form in ("do Sub()", "do Sub() for 3 steps", "do Sub() until False"):
    scenario = scenic.scenarioFromString(PROG.replace("{DO}", form))
    scene, _ = scenario.generate(maxIterations=1)
    sim = DummySimulator().simulate(scene, maxSteps=8)
    results[form] = "accepted" if sim is not None else "REJECTED"
    print(f"{form:28s} -> {results[form]}")
sys.exit(0 if all(v == "accepted" for v in results.values()) else 1)
