"""C12: a sub-scenario stopped by `do Sub() for 2 steps` stayed in its parent's list of
sub-scenarios, so its `record` and `terminate simulation when` statements kept being
evaluated: the simulation below ended at time 4 through Sub's condition (expected: Main
runs to the end of its compose block, 8 states; Sub records only steps 0 and 1)."""
import scenic
from scenic.core.simulators import DummySimulator
prog = '''
count = [0]
scenario Sub():
    setup:
        terminate simulation when simulation().currentTime >= 4
        record simulation().currentTime as subtime
    compose:
        while True:
            wait
scenario Main():
    setup:
        ego = new Object
    compose:
        do Sub() for 2 steps
        wait
        wait
        wait
        wait
        wait
'''
sc = scenic.scenarioFromString(prog)
scene, _ = sc.generate()
sim = DummySimulator().simulate(scene, maxSteps=10)
r = sim.result
print("steps", len(r.trajectory), "reason", r.terminationReason, r.terminationType)
print({k: (v if not isinstance(v, (list, tuple)) else v[-3:]) for k, v in r.records.items()})
assert len(r.trajectory) == 8, len(r.trajectory)
assert [t for t, _ in r.records["subtime"]] == [0, 1], r.records
print("ok")
