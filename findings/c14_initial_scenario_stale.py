"""C14 / C15: `initial scenario` in the setup block of the top-level scenario was true only
for the first compilation in a process (veneer.inInitialScenario was never reset), so compiling
the same program again gave a different scene."""
import scenic
prog = '''
scenario Main():
    setup:
        if initial scenario:
            ego = new Object with foo 1
        else:
            ego = new Object with foo 2
'''
for i in range(3):
    sc = scenic.scenarioFromString(prog)
    scene, _ = sc.generate()
    print(i, scene.egoObject.foo)
    assert scene.egoObject.foo == 1
