"""C06: resolving an additive default mutated the declaring class's dependency set in place,
so merging it in one (never instantiated) subclass changed the dependencies of the same
declaration in every class defined later.

Expected: `new W` works and W.foo == ('u',).  Before the fix: SpecifierError (depends on itself).
"""
import scenic

PROGRAM = '''
class U:
    foo[additive]: "u"
class V:
    y: 1
    foo[additive]: self.y
class X(U, V):      # never instantiated
    pass
class W(U):
    y: len(self.foo)
ego = new W
'''
scene, _ = scenic.scenarioFromString(PROGRAM).generate(maxIterations=1)
assert scene.egoObject.foo == ("u",), scene.egoObject.foo
assert scene.egoObject.y == 1
print("ok")
