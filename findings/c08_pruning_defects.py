"""Reproducers (plain script: no explorer, no seam, no randomness in the verdicts) for the defects
found by check C08 in Scenic's compile-time pruning.  A proposed minimal patch for all of them is
in c08_proposed_fixes.patch (with it `./check C08 --tier quick` exits 0).

Run: /venv/bin/python findings/c08_pruning_defects.py     (exit 0 = all behave as documented)

Every case names a program P, one concrete scene S of P (given as the point drawn in the region
= "base point") and shows (a) S satisfies all requirements: the same program with the position
fixed to S compiles, validates and generates; (b) the region the *pruned* P samples from does not
contain the base point of S, or compiling P with pruning fails / does not terminate.

D1  pruneContainment (pruning.py:233-270) intersects the base region with the container even
    when the offset is longer than the object's inradius (maxErosion <= 0): then the base point
    may lie OUTSIDE the container (by up to maxDistance - minRadius) while the object is inside.
    Scenes whose base point is outside the container are lost.  Same when the support of the
    offset is unknown (maxDistance None).
D2  RequirementMatcher.matchBoundsInner (relations.py:147-182) treats every comparison operator
    that is not > / >= as an upper (constant on the right) or lower (constant on the left) bound:
    `require (distance to X) != 25` becomes `distance <= 25`, `abs(Q) != c` becomes |Q| <= c,
    also `is`, `is not`.  Relative-heading pruning then removes feasible cells.
D3  PendingRequirement.compile (requirements.py:97-99) infers pruning relations from soft
    requirements (`require[0.5] ...`), which only hold with probability p.
D4  relativeHeadingRange (pruning.py:596-614) returns the *unnormalised* difference of the cell
    headings (e.g. -170 deg - 170 deg = -340 deg) while `relative heading of` is normalised to
    (-180, 180] (+20 deg).  Feasible cell pairs are dropped; when all are dropped the pruned
    polygon is empty and compilation dies with a bare AssertionError (regions.py:2937).
D5  VoxelRegion.dilation (regions.py:2359-2383) dilates inside the dense array of the original
    voxel grid, which has no room to grow: the result never extends beyond the bounding box of
    the original region.  MeshVolumeRegion._bufferOverapproximate therefore returns (at most) the
    filled bounding box of the view region and visibility pruning loses every scene in which the
    object is visible but its centre is outside that box.
D6  MeshVolumeRegion._bufferOverapproximate (regions.py:1883): the number of dilation passes is
    computed from the relative `pitch` although each pass grows the region by `target_pitch` =
    pitch * max(extents).  For regions smaller than 1 (visibleDistance < 0.5) the buffer is too
    thin.  (Masked by D5; visible once D5 is repaired.)
D7  pruneContainment retry loop (pruning.py:246-255) calls _erodeOverapproximate with
    PRUNING_PITCH instead of current_pitch: when the voxel mesh is not a volume
    (VoxelRegion.mesh returns None) the loop repeats the same computation forever.
"""
import math
import signal
import sys
import warnings

warnings.filterwarnings("ignore")

import scenic
import scenic.core.pruning as pruning
import scenic.syntax.translator as translator
from scenic.core.vectors import Vector

bad = []


def check(name, ok, detail=""):
    print(("ok   " if ok else "FAIL ") + name + (": " + detail if detail else ""))
    if not ok:
        bad.append(name)


def compiled(text, prune=True):
    old = translator.usePruning
    translator.usePruning = prune
    try:
        return scenic.scenarioFromString(text)
    finally:
        translator.usePruning = old


def feasible(text):
    """The program with all positions fixed compiles (validate) and generates in one try."""
    try:
        compiled(text, prune=False).generate(maxIterations=1)
        return True
    except Exception as e:
        print("     (not feasible:", repr(e), ")")
        return False


def pruned_region(scenario, i):
    return pruning.matchInRegion(scenario.objects[i].position._conditioned)[0]


# ---------------------------------------------------------------------------------------------
HEAD = "R = PolygonalRegion([0@0, 8@0, 8@6, 0@6])\nworkspace = Workspace(PolygonalRegion([2@1, 12@1, 12@8, 2@8]))\n"
P1 = HEAD + "ego = new Object at (new Point in R) offset by (3, 0)\n"
base = Vector(0.25, 3, 0)  # in R, outside the workspace; ego itself is at (3.25, 3)
ok_scene = feasible(HEAD + "ego = new Object at (0.25, 3, 0) offset by (3, 0)\n")
reg = pruned_region(compiled(P1), 0)
check("D1 scene with base point (0.25,3) is feasible", ok_scene)
check("D1 pruned region keeps base point (0.25,3)", reg.containsPoint(base), f"pruned region bounds {reg.polygons.bounds}")

# ---------------------------------------------------------------------------------------------
FIELD = (
    "r0 = PolygonalRegion([0@0, 10@0, 10@10, 0@10])\n"
    "r1 = PolygonalRegion([20@0, 30@0, 30@10, 20@10])\n"
    "r2 = PolygonalRegion([50@0, 60@0, 60@10, 50@10])\n"
    'vf = PolygonalVectorField("F", [[r0.polygons, {h0}], [r1.polygons, {h1}], [r2.polygons, {h1}]])\n'
    "union = r0.union(r1).union(r2)\n"
)
F090 = FIELD.format(h0="0", h1="90 deg")
P2 = F090 + "ego = new Object in union, facing vf\nother = new Object in union, facing vf\nrequire (relative heading of other) >= 60 deg\nrequire (distance to other) != 25\n"
fixed = F090 + "ego = new Object at (5, 5, 0), facing vf\nother = new Object at (55, 5, 0), facing vf\nrequire (relative heading of other) >= 60 deg\n"
check("D2 scene ego (5,5), other (55,5) [distance 50 != 25] is feasible", feasible(fixed + "require (distance to other) != 25\n"))
reg = pruned_region(compiled(P2), 1)
check("D2 `!= 25` keeps other at (55,5)", reg.containsPoint(Vector(55, 5, 0)), f"pruned region of `other`: bounds {reg.polygons.bounds}")

P3 = F090 + "ego = new Object in union, facing vf\nother = new Object in union, facing vf\nrequire (relative heading of other) >= 60 deg\nrequire[0.5] (distance to other) <= 25\n"
check("D3 scene ego (5,5), other (55,5) is feasible when the soft requirement is not enforced", feasible(fixed))
reg = pruned_region(compiled(P3), 1)
check("D3 `require[0.5] distance <= 25` keeps other at (55,5)", reg.containsPoint(Vector(55, 5, 0)), f"pruned region of `other`: bounds {reg.polygons.bounds}")

# ---------------------------------------------------------------------------------------------
FW = FIELD.format(h0="170 deg", h1="-170 deg")
P4 = FW + "ego = new Object in union, facing vf, with visibleDistance 14\nother = new Object in union, facing vf, with requireVisible True\nrequire (relative heading of other) >= 10 deg\n"
check(
    "D4 scene ego (8,5) heading 170, other (22,5) heading -170 [relative heading +20 deg] is feasible",
    feasible(FW + "ego = new Object at (8, 5, 0), facing vf, with visibleDistance 14\nother = new Object at (22, 5, 0), facing vf, with requireVisible True\nrequire (relative heading of other) >= 10 deg\n"),
)
try:
    reg = pruned_region(compiled(P4), 0)
    check("D4 pruned region keeps ego at (8,5)", reg.containsPoint(Vector(8, 5, 0)))
except BaseException as e:
    check("D4 program with headings 170/-170 compiles with pruning", False, repr(e))

# ---------------------------------------------------------------------------------------------
VIS = "R = PolygonalRegion([0@0, 8@0, 8@6, 0@6])\nworkspace = Workspace(PolygonalRegion([-4@-4, 12@-4, 12@10, -4@10]))\n"
EGO = "ego = new Object at (3, 3, 0), with visibleDistance {vd}, with allowCollisions True, with viewRayCount (36, 18)\n"
P5 = VIS + EGO.format(vd=2) + "foo = new Object in R, visible, with allowCollisions True\n"
check("D5 unit cube at (0.75,2.8125) [2.26 from ego, visibleDistance 2] is visible", feasible(VIS + EGO.format(vd=2) + "foo = new Object at (0.75, 2.8125, 0), visible, with allowCollisions True\n"))
reg = pruned_region(compiled(P5), 1)
check("D5 pruned region keeps foo at (0.75,2.8125)", reg.containsPoint(Vector(0.75, 2.8125, 0)), f"pruned region bounds {reg.polygons.bounds} = bounding box of the view sphere")

P6 = VIS + EGO.format(vd=0.3) + "foo = new Object in R, visible, with width 2, with length 0.6, with allowCollisions True\n"
check("D6 2 x 0.6 box at (4.25,2.8125) [1.26 from ego, visibleDistance 0.3] is visible", feasible(VIS + EGO.format(vd=0.3) + "foo = new Object at (4.25, 2.8125, 0), visible, with width 2, with length 0.6, with allowCollisions True\n"))
reg = pruned_region(compiled(P6), 1)
check("D5+D6 pruned region keeps foo at (4.25,2.8125)", reg.containsPoint(Vector(4.25, 2.8125, 0)), f"pruned region bounds {reg.polygons.bounds}")
# D6 at region level: the view region (radius 0.3) buffered by 1.16 must contain every point within
# 1.46 of the viewer; fails because of D5, and because of D6 alone once D5 is repaired
ego = compiled(P6).objects[0]
vr = ego.visibleRegion
buf = vr._bufferOverapproximate(1.16, 0.15)
tp = 0.15 * max(vr.mesh.extents)
check(
    "D5/D6 view region of radius 0.3 buffered by 1.16 contains the point 1.4 away",
    bool(buf.containsPoint(Vector(3 + 1.4, 3, 0))),
    f"passes made: ceil(1.16/0.15)+1 = {math.ceil(1.16 / 0.15) + 1}, each growing the region by pitch*extent = {tp:.3f}; needed ceil(1.16/{tp:.3f})+1 = {math.ceil(1.16 / tp) + 1}",
)

# ---------------------------------------------------------------------------------------------
P7 = (
    "import trimesh, math\n"
    "_c = trimesh.creation.box((4, 4, 4))\n"
    "_r = trimesh.creation.box((3, 0.1, 0.1))\n"
    "_r.apply_translation((1.5, 0, 0))\n"
    "_r.apply_transform(trimesh.transformations.rotation_matrix(math.radians(45), (0, 0, 1)))\n"
    "_r.apply_translation((1.9, 1.9, 0))\n"
    "workspace = Workspace(MeshVolumeRegion(trimesh.util.concatenate([_c, _r]), centerMesh=False))\n"
    "R = BoxRegion(dimensions=(0.6, 0.6, 0.6))\n"
)
check("D7 3.6-cube at the centre of the 4-cube-with-rod workspace is feasible", feasible(P7 + "ego = new Object at (0, 0, 0), with width 3.6, with length 3.6, with height 3.6\n"))


class _Timeout(BaseException):
    pass


def _raise(*a):
    signal.alarm(1)
    raise _Timeout()


signal.signal(signal.SIGALRM, _raise)
signal.alarm(30)
try:
    compiled(P7 + "ego = new Object in R, with width 3.6, with length 3.6, with height 3.6\n")
    signal.alarm(0)
    check("D7 compilation with pruning terminates", True)
except _Timeout:
    signal.alarm(0)
    check("D7 compilation with pruning terminates", False, "still in pruneContainment's `while eroded_container is None` after 30 s")
finally:
    signal.alarm(0)

print()
print("defects reproduced:" if bad else "all behave as documented", len(bad))
sys.exit(1 if bad else 0)
