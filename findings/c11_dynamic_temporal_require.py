"""Reproducer (plain script) for two C11 defects fixed in /repo:

1. "fix: monitor temporal requirements declared while their scenario is running":
   a `require <temporal formula>` executed inside the compose block of the top-level
   scenario crashed with AttributeError ('tuple' object has no attribute 'append'), and in
   a sub-scenario's compose block it was silently never monitored.
2. "fix: non-temporal requirements evaluated at run time use truthiness":
   `require A implies B` evaluated at run time raised RuntimeError (Implies had no
   evaluate), and `and`/`or` combined operand values with bitwise &/| (`2 and 1` rejected).

Run: /venv/bin/python findings/c11_dynamic_temporal_require.py  (exit 0 = OK)
"""
import sys

import scenic
from scenic.core.simulators import DummySimulator

COMPOSE = """
scenario Main():
    setup:
        ego = new Object
    compose:
        require always simulation().currentTime != 2
        while True:
            wait
"""
VALUES = """
behavior B():
    require {F}
    take 1
ego = new Object with behavior B()
"""


def run(src, steps=4):
    scene, _ = scenic.scenarioFromString(src).generate(maxIterations=1)
    return DummySimulator().simulate(scene, maxSteps=steps)


ok = True
try:
    sim = run(COMPOSE)
    print("temporal require in compose, violated at step 2:", "rejected" if sim is None else "ACCEPTED")
    ok &= sim is None
except Exception as e:  # noqa: BLE001
    print("temporal require in compose crashed:", type(e).__name__, e)
    ok = False
for f, want in [("2 and 1", True), ("0 or 'x'", True), ("1 implies 2", True), ("2 implies 0", False)]:
    try:
        got = run(VALUES.replace("{F}", f)) is not None
        print(f"require {f}: accepted={got} expected={want}")
        ok &= got == want
    except Exception as e:  # noqa: BLE001
        print(f"require {f} crashed:", type(e).__name__, e)
        ok = False
sys.exit(0 if ok else 1)
