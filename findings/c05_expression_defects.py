"""Reproducers (plain script) for the C05 defects: expressions over random values that do not
evaluate as plain Python does on the sampled values, and support intervals that do not contain
the values.  Every case is ordinary Scenic source compiled with scenarioFromString.

Run: /venv/bin/python findings/c05_expression_defects.py     (exit 0 = all cases behave; prints one
line per case, "DEFECT" where the behaviour differs from plain Python)
"""
import math
import random
import sys
import warnings

warnings.simplefilter("ignore")
import scenic
from scenic.core.distributions import supportInterval

bad = []


def scene_of(src, seed=3):
    random.seed(seed)
    return scenic.scenarioFromString(src + "\nego = new Object\n").generate(maxIterations=1)[0]


def case(name, fn):
    try:
        ok, detail = fn()
    except Exception as e:  # noqa: BLE001
        ok, detail = False, f"raises {type(e).__name__}: {e}"
    print(("ok     " if ok else "DEFECT ") + name + ": " + detail)
    if not ok:
        bad.append(name)


# 1. distributions.makeOperatorHandler: `x // 1` returns x itself, also for float-valued x
def floordiv():
    p = scene_of("x = Range(0.5, 2.5)\nparam x = x\nparam y = x // 1").params
    return p["y"] == p["x"] // 1, f"x = {p['x']!r}, x // 1 = {p['y']!r}, Python: {p['x'] // 1!r}"


case("value:floordiv-by-1-not-floored", floordiv)


# 2. toDistribution ignores dicts: random values inside a dict are never sampled
def dict_values():
    p = scene_of("x = Range(0, 1)\nparam d = {'a': x}").params
    return isinstance(p["d"]["a"], float), f"param d = {p['d']!r}"


case("container:dict-random-values-not-sampled", dict_values)


# 3. geometry.hypot is declared monotonic: wrong support for operands that can be negative
def hypot_support():
    sc = scenic.scenarioFromString("x = hypot(Range(-3, 2), 0)\nparam x = x\nego = new Object\n")
    lo, hi = supportInterval(sc.params["x"])
    return lo <= 0 and hi >= 3, f"supportInterval(hypot(Range(-3, 2), 0)) = ({lo}, {hi}); values lie in [0, 3]"


case("support:hypot-treated-as-monotonic", hypot_support)


# 4. OperatorDistribution.supportInterval: -x and abs(x) with an unbounded operand raise TypeError
def neg_support():
    sc = scenic.scenarioFromString("x = -Normal(0, 1)\ny = abs(Normal(0, 1))\nparam x = x\nparam y = y\nego = new Object\n")
    return supportInterval(sc.params["x"]) == (None, None) and supportInterval(sc.params["y"])[0] == 0, "supportInterval fine"


case("support:neg/abs-of-unbounded-operand-raises", neg_support)


# 5. makeOperatorHandler: issubclass(self._valueType, numbers.Number) with a typing construct as value type
def typing_valuetype():
    src = (
        "import typing\nfrom scenic.core.distributions import distributionFunction\n"
        "@distributionFunction\ndef f(a) -> typing.Optional[float]:\n    return a * 3\n"
        "param y = f(Range(0, 1)) + 1"
    )
    return True, f"param y = {scene_of(src).params['y']!r}"


case("construct-raises:TypeError:operator-on-distribution-with-typing-valueType", typing_valuetype)


# 5b. the same family in type_support.unifierOfTypes: issubclass(typing.Union, numbers.Real)
def typing_valuetype_uniform():
    src = (
        "import typing\nfrom scenic.core.distributions import distributionFunction\n"
        "@distributionFunction\ndef f(a) -> typing.Optional[float]:\n    return a * 3\n"
        "param y = Uniform(f(Range(0, 1)), 0.5)"
    )
    return True, f"param y = {scene_of(src).params['y']!r}"


case("construct-raises:TypeError:operator-on-distribution-with-typing-valueType (Uniform option)", typing_valuetype_uniform)


# 6. DiscreteRange.__repr__ iterates over weights=None; Range(...) formats its endpoints in an f-string
def discrete_range_repr():
    return True, f"param y = {scene_of('param y = Range(DiscreteRange(1, 3), 5)').params['y']!r}"


case("construct-raises:TypeError:repr-of-unweighted-DiscreteRange", discrete_range_repr)


# 7. OperatorDistribution.sampleGiven: getattr(first, '__radd__') on a type without that method
def reflected_missing():
    return True, f"""param y = {scene_of('param y = "x" + Uniform("a", "bc")').params['y']!r}"""


case("sample-raises:AttributeError:operand-type-lacks-reflected-operator", reflected_missing)


# 8. vectors.scalarOperator: only the arguments are tested for randomness, not the receiver
def scalar_method():
    return True, f"param y = {scene_of('param y = distance from (Range(0, 1) @ 2) to (1 @ 1)').params['y']!r}"


case("construct-raises:RandomControlFlowError:scalar-method-of-vector-with-random-coordinates", scalar_method)


# 9. lifted vector methods do not take keyword operands (the unlifted method does)
def keyword_operand():
    src = "v = (1 @ 2).rotatedBy(Range(0, 1))\nparam y = v.distanceTo(other=(0 @ 0))"
    return True, f"param y = {scene_of(src).params['y']!r}"


case("construct-raises:TypeError:keyword-operand-of-lifted-vector-method", keyword_operand)


# 10. lazy_eval.makeDelayedOperatorHandler: no fallback to the reflected operator
def delayed_notimplemented():
    random.seed(1)
    src = (
        'vf = VectorField("vf", lambda pos: 0.25)\n'
        "ego = new Object at (1 @ 2), with foo int(100 * (0.1 relative to vf).yaw) + 0.5\n"
    )
    foo = scenic.scenarioFromString(src).generate(maxIterations=1)[0].egoObject.foo
    return foo == 35.5, f"int(100 * (0.1 relative to vf).yaw) + 0.5 = {foo!r}, Python: 35.5"


case("delayed-value:NotImplemented-no-reflected-operator-fallback", delayed_notimplemented)

print(f"{len(bad)} defect(s) reproduced" if bad else "all cases behave as plain Python")
sys.exit(1 if bad else 0)
