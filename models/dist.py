"""Reference model for C01: exact distribution of a finite-discrete Scenic program.

Deliberately boring: a program (IR of gen/static.py) is turned into a DAG of nodes;
all joint values of the nodes reachable from the observed roots are enumerated with
exact Fraction weights.  Semantics encoded (from the property statement / language
reference, not from the implementation):

* each distribution expression is drawn independently; a value referenced several
  times is drawn once; `resample(x)` is a fresh draw with the same parameter values;
* an empty integer range makes the attempt a rejection;
* hard requirements filter; each soft requirement is enforced with probability p,
  the coins being flipped once per generated scene;
* a requirement sees the values its names had when the statement was executed.
"""

from fractions import Fraction
import itertools
import math

REJECT = "REJECT"


class Model:
    def __init__(self, prog):
        self.nodes = {}  # id -> expr with operands resolved to ("c", v) / ("r", id)
        self.env = {}
        self.reqs = []  # (prob, cond with resolved operands)
        self.roots = []  # (label, operand)
        self.objprops = {}  # object index -> {property: operand}
        self.egoprops = {}  # properties of the object currently named `ego`
        self._build(prog)

    # -- construction -----------------------------------------------------------
    def _op(self, o):
        if isinstance(o, tuple) and len(o) == 2 and o[0] == "n":
            if o[1].startswith("ego."):
                # a property of whatever object `ego` names when the statement is executed
                return self.egoprops[o[1][4:]]
            return ("r", self.env[o[1]])
        return ("c", o)

    def _new(self, expr):
        nid = len(self.nodes)
        self.nodes[nid] = expr
        return nid

    def _build(self, prog):
        for st in prog:
            kind = st[0]
            if kind == "let":
                _, name, e = st
                k = e[0]
                if k == "uniform":
                    nid = self._new(("uniform", [self._op(o) for o in e[1:]]))
                elif k == "discrete":
                    nid = self._new(("discrete", e[1]))
                elif k == "range":
                    nid = self._new(("range", self._op(e[1]), self._op(e[2])))
                elif k == "resample":
                    src = self.nodes[self.env[e[1]]]
                    assert src[0] in ("uniform", "discrete", "range", "starunif")
                    nid = self._new(src)  # same parameters, fresh identity
                elif k == "bin":
                    nid = self._new(("bin", e[1], self._op(e[2]), self._op(e[3])))
                elif k == "un":
                    nid = self._new(("un", e[1], self._op(e[2])))
                elif k == "call":
                    nid = self._new(("call", e[1], self._op(e[2])))
                elif k == "optidx":
                    nid = self._new(("optidx", e[1], e[2]))
                elif k == "vecattr":
                    nid = self._new(("vecattr", e[1], e[2]))
                elif k == "listopt":
                    nid = self._new(("listopt", e[1]))
                elif k == "starunif":
                    nid = self._new(("starunif", self._op(e[1])))
                elif k == "tuple":
                    nid = self._new(("tuple", [self._op(o) for o in e[1:]]))
                elif k == "getitem":
                    nid = self._new(("getitem", self._op(e[1]), self._op(e[2])))
                else:
                    raise ValueError(k)
                self.env[name] = nid
            elif kind == "require":
                _, prob, cond = st
                op, a, b = cond
                self.reqs.append((prob, (op, self._op(a), self._op(b))))
            elif kind == "param":
                self.roots.append(("param:" + st[1], self._op(st[2])))
            elif kind == "object":
                props = {}
                for prop, o in st[2]:
                    props[prop] = self._op(o)
                    self.roots.append((f"obj{st[1]}:{prop}", props[prop]))
                self.objprops[st[1]] = props
                if st[1] == 0:
                    self.egoprops = props
            elif kind == "setego":
                self.egoprops = self.objprops[st[1]]
            else:
                raise ValueError(kind)

    # -- enumeration --------------------------------------------------------------
    def _deps(self, nid):
        e = self.nodes[nid]
        k = e[0]
        ops = []
        if k in ("uniform", "tuple"):
            ops = e[1]
        elif k == "range":
            ops = [e[1], e[2]]
        elif k == "bin":
            ops = [e[2], e[3]]
        elif k in ("un", "call"):
            ops = [e[2]]
        elif k == "starunif":
            ops = [e[1]]
        elif k == "getitem":
            ops = [e[1], e[2]]
        return [o[1] for o in ops if o[0] == "r"]

    def _reachable(self):
        seen, order = set(), []

        def visit(n):
            if n in seen:
                return
            seen.add(n)
            for d in self._deps(n):
                visit(d)
            order.append(n)

        for _, o in self.roots:
            if o[0] == "r":
                visit(o[1])
        for _, (op, a, b) in self.reqs:
            for o in (a, b):
                if o[0] == "r":
                    visit(o[1])
        return order

    @staticmethod
    def _val(o, w):
        return w[o[1]] if o[0] == "r" else o[1]

    def worlds(self):
        """Yield (prob, world) for complete joint draws; world None = rejected draw."""
        order = self._reachable()
        out = []

        def rec(i, p, w):
            if i == len(order):
                out.append((p, dict(w)))
                return
            nid = order[i]
            e = self.nodes[nid]
            k = e[0]
            V = lambda o: self._val(o, w)
            if k == "uniform":
                n = len(e[1])
                for o in e[1]:
                    w[nid] = V(o)
                    rec(i + 1, p / n, w)
            elif k == "discrete":
                tot = sum(Fraction(wt) for _, wt in e[1])
                for v, wt in e[1]:
                    if wt == 0:
                        continue
                    w[nid] = v
                    rec(i + 1, p * Fraction(wt) / tot, w)
            elif k == "range":
                # the integers between the (possibly non-integral) bounds
                lo, hi = math.ceil(V(e[1])), math.floor(V(e[2]))
                if hi < lo:
                    out.append((p, None))
                else:
                    n = hi - lo + 1
                    for v in range(lo, hi + 1):
                        w[nid] = v
                        rec(i + 1, p / n, w)
            elif k == "listopt":
                n = len(e[1])
                for opt in e[1]:
                    w[nid] = list(opt)
                    rec(i + 1, p / n, w)
            elif k == "starunif":
                lst = V(e[1])
                n = len(lst)
                if n == 0:
                    out.append((p, None))
                for v in lst:
                    w[nid] = v
                    rec(i + 1, p / n, w)
            elif k == "optidx":
                n = len(e[1])
                for opt in e[1]:
                    w[nid] = opt[e[2]]
                    rec(i + 1, p / n, w)
            elif k == "vecattr":
                n = len(e[1])
                for opt in e[1]:
                    w[nid] = opt["xy".index(e[2])]
                    rec(i + 1, p / n, w)
            else:
                try:
                    v = self._apply(k, e, V)
                except (ZeroDivisionError, OverflowError) as exc:
                    # the exception escapes from sampling: an outcome of the attempt
                    out.append((p, ("EXC", type(exc).__name__)))
                    w.pop(nid, None)
                    return
                w[nid] = v
                rec(i + 1, p, w)
            w.pop(nid, None)

        rec(0, Fraction(1), {})
        return out

    @staticmethod
    def _apply(k, e, V):
                if k == "bin":
                    a, b = V(e[2]), V(e[3])
                    op = e[1]
                    if op == "+":
                        v = a + b
                    elif op == "-":
                        v = a - b
                    elif op == "*":
                        v = a * b
                    elif op == "//":
                        v = a // b
                    elif op == "%":
                        v = a % b
                    elif op == "/":
                        v = a / b
                    elif op == "**":
                        v = a**b
                    else:
                        raise ValueError(op)
                elif k == "un":
                    a = V(e[2])
                    v = -a if e[1] == "neg" else abs(a)
                elif k == "call":
                    a = V(e[2])
                    v = CALLS[e[1]](a)
                elif k == "tuple":
                    v = tuple(V(o) for o in e[1])
                elif k == "getitem":
                    v = V(e[1])[V(e[2])]
                else:
                    raise ValueError(k)
                return v

    def _holds(self, cond, w):
        op, a, b = cond
        a, b = self._val(a, w), self._val(b, w)
        return {
            "<": a < b,
            "<=": a <= b,
            ">": a > b,
            ">=": a >= b,
            "==": a == b,
            "!=": a != b,
        }[op]

    def scene(self, w):
        return tuple((label, _freeze(self._val(o, w))) for label, o in self.roots)

    def attempt_tables(self):
        """For every subset S of enforced soft requirements: (P(S), {scene: prob}, P(reject))."""
        worlds = self.worlds()
        hard = [c for p, c in self.reqs if p is None or p == 1]
        soft = [(Fraction(p), c) for p, c in self.reqs if p is not None and p != 1]
        tables = []
        for mask in itertools.product((True, False), repeat=len(soft)):
            pS = Fraction(1)
            for (p, _), on in zip(soft, mask):
                pS *= p if on else 1 - p
            if pS == 0:
                continue
            acc, rej = {}, Fraction(0)
            for pw, w in worlds:
                if w is None:
                    rej += pw
                    continue
                if isinstance(w, tuple) and w[0] == "EXC":
                    s = ("EXCEPTION", w[1])
                    acc[s] = acc.get(s, 0) + pw
                    continue
                ok = all(self._holds(c, w) for c in hard) and all(
                    self._holds(c, w) for (p, c), on in zip(soft, mask) if on
                )
                if ok:
                    s = self.scene(w)
                    acc[s] = acc.get(s, 0) + pw
                else:
                    rej += pw
            tables.append((pS, acc, rej))
        return tables

    def generate_law(self, k):
        """Exact law of Scenario._generateInner(maxIterations=k):
        {(scene, iterations): prob} plus {REJECT: prob}."""
        law = {}
        for pS, acc, rej in self.attempt_tables():
            for j in range(1, k + 1):
                for s, ps in acc.items():
                    key = s if s[0] == "EXCEPTION" else (s, j)
                    law[key] = law.get(key, 0) + pS * rej ** (j - 1) * ps
            if rej:
                law[REJECT] = law.get(REJECT, 0) + pS * rej**k
        return {k_: v for k_, v in law.items() if v != 0}


def _freeze(v):
    if isinstance(v, (list, tuple)):
        return tuple(_freeze(x) for x in v)
    return v


CALLS = {
    "f": lambda v: v * 2 + 1,
    "g": lambda v: v * v,
}
