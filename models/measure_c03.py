"""models/measure_c03.py -- measure oracle for C03 (points drawn in a region are uniform).

Independent of Scenic, trimesh and shapely: shapes are described by their documented
geometry (box, spheroid, polygon with holes at height z, disc, sector, rectangle, polyline,
3-D path, triangle surface, closed triangle mesh by ray parity on raw vertices/faces) and
composed with union / intersection / difference.

Two services:

1.  conservative margins.  ``shape.margin_on(P, carrier_key)`` returns for every point P
    (assumed to lie on the given carrier: all of space, a horizontal plane, a triangle
    surface or a curve) a number m with
          m < -r  ==>  ball(P, r) & carrier  is inside the shape,
          m > +r  ==>  ball(P, r) & carrier  is disjoint from the shape.
    (signed distance, or a lower bound of it in absolute value; min / max / max(a,-b)
    for union / intersection / difference keep the property.)

2.  bracketed measures.  A deterministic quadrature (regular grid in space / in the plane,
    regular subdivision of triangles / segments) classifies each piece as inside, outside
    or boundary using the margin and the radius of the piece.  For any family of cells this
    gives   lo(C) <= measure(C & shape) <= hi(C)   with no statistical ingredient.

The same interval accounting (`accumulate`) is used for the observed side: every lattice
point of a sampler stands for a little box of random inputs whose image has a known
half-extent; its mass is counted to the lower bound of a cell only if the whole image box
lies in the cell and the box is not cut by an acceptance boundary.
"""

from __future__ import annotations

import itertools
import math

import numpy as np

from models import solid

INF = float("inf")


class Unsupported(Exception):
    """The composed set has no positive natural measure the oracle can integrate."""


# ------------------------------------------------------------------------------------------
# carriers
# ------------------------------------------------------------------------------------------
def _subdivide(edges, q):
    """midpoints and half-widths of q equal pieces of every interval of `edges`
    (a degenerate axis, two equal edges, gives one piece of half-width 0)."""
    mids, halfs = [], []
    for a, b in zip(edges[:-1], edges[1:]):
        if b <= a:
            mids.append(a)
            halfs.append(0.0)
            continue
        w = (b - a) / q
        for j in range(q):
            mids.append(a + (j + 0.5) * w)
            halfs.append(w / 2)
    return np.array(mids), np.array(halfs)


class Space:
    dim = 3
    key = ("space",)

    def off(self, P):
        return np.zeros(len(P))

    def quad(self, grid, q):
        """every grid cell is cut into q^3 equal pieces (pieces never straddle cells)."""
        ax = [_subdivide(grid.edges[i], q) for i in range(3)]
        X, Y, Z = np.meshgrid(*[a[0] for a in ax], indexing="ij")
        HX, HY, HZ = np.meshgrid(*[a[1] for a in ax], indexing="ij")
        pts = np.column_stack([X.ravel(), Y.ravel(), Z.ravel()])
        half = np.column_stack([HX.ravel(), HY.ravel(), HZ.ravel()])
        mass = 8.0 * half[:, 0] * half[:, 1] * half[:, 2]
        return pts, half, mass


class Plane:
    dim = 2

    def __init__(self, z):
        self.z = float(z)
        self.key = ("plane", self.z)

    def off(self, P):
        return np.abs(P[:, 2] - self.z)

    def quad(self, grid, q):
        ax = [_subdivide(grid.edges[i], q) for i in range(2)]
        X, Y = np.meshgrid(*[a[0] for a in ax], indexing="ij")
        HX, HY = np.meshgrid(*[a[1] for a in ax], indexing="ij")
        pts = np.column_stack([X.ravel(), Y.ravel(), np.full(X.size, self.z)])
        half = np.column_stack([HX.ravel(), HY.ravel(), np.zeros(X.size)])
        mass = 4.0 * half[:, 0] * half[:, 1]
        return pts, half, mass


class Surface:
    dim = 2

    def __init__(self, name, tris):
        self.tris = np.asarray(tris, float)  # (m,3,3)
        self.key = ("surf", name, None)

    def off(self, P):
        P = np.asarray(P, float)
        out = np.full(len(P), INF)
        T = self.tris
        step = max(1, 200_000 // max(1, len(T)))
        for s in range(0, len(P), step):
            p = P[s : s + step]
            d = solid.point_triangle_dist(p[:, None, :], T[None, :, 0], T[None, :, 1], T[None, :, 2])
            out[s : s + step] = d.min(axis=1)
        return out

    def quad(self, grid, q):
        """Each triangle is cut into s*s congruent sub-triangles, s chosen so that the
        sub-triangles are about (smallest cell width / (q/4)) wide (pieces are not aligned
        with the cells; a piece that straddles a cell face counts to the upper bounds only)."""
        T = self.tris
        h = grid.min_width() / max(4, q // 4)
        pts, half, mass = [], [], []
        for a, b, c in T:
            L = max(np.linalg.norm(b - a), np.linalg.norm(c - b), np.linalg.norm(a - c))
            s = max(1, int(math.ceil(L / h)))
            area = 0.5 * np.linalg.norm(np.cross(b - a, c - a))
            e1, e2 = (b - a) / s, (c - a) / s
            I, J = np.meshgrid(np.arange(s), np.arange(s), indexing="ij")
            up = (I + J) <= s - 1
            dn = (I + J) <= s - 2
            cu = a[None] + (I[up] + 1 / 3)[:, None] * e1[None] + (J[up] + 1 / 3)[:, None] * e2[None]
            cd = a[None] + (I[dn] + 2 / 3)[:, None] * e1[None] + (J[dn] + 2 / 3)[:, None] * e2[None]
            corners = np.array([-e1 / 3 - e2 / 3, 2 * e1 / 3 - e2 / 3, -e1 / 3 + 2 * e2 / 3])
            ext = np.abs(corners).max(axis=0)
            cen = np.concatenate([cu, cd])
            pts.append(cen)
            half.append(np.tile(ext, (len(cen), 1)))
            mass.append(np.full(len(cen), area / (s * s)))
        return np.concatenate(pts), np.concatenate(half), np.concatenate(mass)


class Curve:
    dim = 1

    def __init__(self, name, segs):
        self.segs = np.asarray(segs, float)  # (m,2,3)
        zs = self.segs[:, :, 2]
        # a curve drawn in one horizontal plane (a polyline) carries the height of that plane
        flat = float(zs.flat[0]) if np.all(zs == zs.flat[0]) else None
        self.key = ("curve", name, flat)

    def off(self, P):
        P = np.asarray(P, float)
        S = self.segs
        d = solid.point_segment_dist(P[:, None, :], S[None, :, 0], S[None, :, 1])
        return d.min(axis=1)

    def quad(self, grid, q):
        h = grid.min_width() / (4 * q)
        pts, half, mass = [], [], []
        for a, b in self.segs:
            L = float(np.linalg.norm(b - a))
            s = max(1, int(math.ceil(L / h)))
            t = (np.arange(s) + 0.5) / s
            pts.append(a[None] + t[:, None] * (b - a)[None])
            half.append(np.tile(np.abs(b - a) / (2 * s), (s, 1)))
            mass.append(np.full(s, L / s))
        return np.concatenate(pts), np.concatenate(half), np.concatenate(mass)


# ------------------------------------------------------------------------------------------
# primitive shapes
# ------------------------------------------------------------------------------------------
class Prim:
    band = 0.0  # model uncertainty of the boundary position (polyhedral approximations)
    operands = ()

    @property
    def dim(self):
        return self.carrier.dim

    def carriers(self):
        return [self.carrier]

    def prims(self):
        return [self]


class _Solid(Prim):
    carrier = Space()

    def margin_on(self, P, ckey, half=None):
        return self.sdf(np.asarray(P, float))


class BoxS(_Solid):
    """Oriented box: centre c, full dimensions dims, rotation matrix R (world = R @ local + c)."""

    def __init__(self, c, dims, R=None):
        self.c = np.asarray(c, float)
        self.h = np.asarray(dims, float) / 2
        self.R = np.eye(3) if R is None else np.asarray(R, float)
        self.kind = "box"

    def sdf(self, P):
        L = (P - self.c) @ self.R
        return np.max(np.abs(L) - self.h, axis=1)

    def aabb(self):
        ext = np.abs(self.R) @ self.h
        return self.c - ext, self.c + ext


class EllipsoidS(_Solid):
    """Ellipsoid with semi-axes a (the library's spheroid is an inscribed icosphere
    polyhedron, trimesh icosphere with 1280 faces whose planes come within 0.99547 of the centre:
    `band` covers that gap of 0.453%, relative to the largest axis)."""

    def __init__(self, c, dims, R=None, rel_band=0.0048):
        self.c = np.asarray(c, float)
        self.a = np.asarray(dims, float) / 2
        self.R = np.eye(3) if R is None else np.asarray(R, float)
        self.band = rel_band * float(self.a.max())
        self.kind = "ellipsoid"

    def sdf(self, P):
        L = (P - self.c) @ self.R
        f = np.sqrt(np.sum((L / self.a) ** 2, axis=1))
        return (f - 1.0) * float(self.a.min())

    def aabb(self):
        ext = np.sqrt((self.R**2) @ (self.a**2))
        return self.c - ext, self.c + ext


class MeshS(_Solid):
    """Closed triangle mesh: sign by ray parity on the raw vertices/faces, magnitude =
    exact distance to the triangles."""

    def __init__(self, V, F):
        self.S = solid.Solid(np.asarray(V, float), np.asarray(F, np.int64))
        self.V, self.F = self.S.V, self.S.F
        self.kind = "mesh"

    def sdf(self, P):
        d = solid.point_surface_dist(P, self.S)
        ins = solid.points_in_mesh(P, self.S)
        # undecided points (on the surface) get margin 0 -> "boundary"
        sgn = np.where(ins == 1, -1.0, np.where(ins == 0, 1.0, 0.0))
        return sgn * d

    def aabb(self):
        return self.V.min(axis=0), self.V.max(axis=0)


class HalfSpaceS(_Solid):
    """{x : n.(x-p) <= 0}"""

    def __init__(self, p, n):
        self.p = np.asarray(p, float)
        n = np.asarray(n, float)
        self.n = n / np.linalg.norm(n)
        self.kind = "halfspace"

    def sdf(self, P):
        return (P - self.p) @ self.n

    def aabb(self):
        return np.full(3, -INF), np.full(3, INF)


class ConeBandS(_Solid):
    """{x : |altitude of (x-p) in the frame R| <= alpha}, altitude measured from the local
    xy-plane: |z| <= tan(alpha) * rho.  Signed distance to the double cone surface."""

    def __init__(self, p, R, alpha):
        self.p = np.asarray(p, float)
        self.R = np.asarray(R, float)
        self.alpha = float(alpha)
        self.kind = "coneband"

    def sdf(self, P):
        L = (P - self.p) @ self.R
        rho = np.hypot(L[:, 0], L[:, 1])
        return np.abs(L[:, 2]) * math.cos(self.alpha) - rho * math.sin(self.alpha)

    def aabb(self):
        return np.full(3, -INF), np.full(3, INF)


class PrismS(_Solid):
    """Infinite vertical prism over a (multi)polygon with holes: a polygonal footprint.  The
    signed distance of (x, y) to the polygon boundary is also the distance in space."""

    def __init__(self, polys):
        self.poly = PolygonS(polys, 0.0)
        self.kind = "footprint"

    def sdf(self, P):
        return self.poly.sdf2(P[:, :2])

    def aabb(self):
        lo, hi = self.poly.aabb()
        return np.array([lo[0], lo[1], -INF]), np.array([hi[0], hi[1], INF])


class _Planar(Prim):
    def margin_on(self, P, ckey, half=None):
        """in the shape's own plane: the 2-D margin.  On any other carrier only what lies in
        that plane can belong to the shape: a piece (centre P, half-extent `half`) that is flat
        in z and at the plane's height gets the 2-D margin, a piece that straddles the plane is
        undetermined (margin 0), everything else is outside."""
        P = np.asarray(P, float)
        if ckey == self.carrier.key:
            return self.sdf2(P[:, :2])
        if ckey[0] == "plane":
            return np.full(len(P), INF)
        z0 = self.carrier.z
        tol = 1e-9 * (1 + abs(z0))
        if len(ckey) > 2 and ckey[2] is not None:
            # the whole carrier is horizontal: it lies in the shape's plane or misses it
            if abs(ckey[2] - z0) <= tol:
                return self.sdf2(P[:, :2])
            return np.full(len(P), INF)
        hz = np.zeros(len(P)) if half is None else np.asarray(half, float)[:, 2]
        dz = np.abs(P[:, 2] - z0)
        out = np.full(len(P), INF)
        out[dz <= hz + tol] = 0.0
        return out


class PolygonS(_Planar):
    """Multipolygon with holes at height z: `polys` = [(outer_ring, [hole_rings...]), ...].
    Even-odd parity over all rings, distance to all edges."""

    def __init__(self, polys, z=0.0):
        self.carrier = Plane(z)
        self.z = float(z)
        rings = []
        for outer, holes in polys:
            rings.append(np.asarray(outer, float))
            rings.extend(np.asarray(h, float) for h in holes)
        self.rings = rings
        A, B = [], []
        for r in rings:
            A.append(r)
            B.append(np.roll(r, -1, axis=0))
        self.A = np.concatenate(A)
        self.B = np.concatenate(B)
        self.kind = "polygon"

    def sdf2(self, xy):
        out = np.empty(len(xy))
        A, B = self.A, self.B
        step = max(1, 400_000 // max(1, len(A)))
        for s in range(0, len(xy), step):
            p = xy[s : s + step]
            x, y = p[:, 0:1], p[:, 1:2]
            x1, y1, x2, y2 = A[None, :, 0], A[None, :, 1], B[None, :, 0], B[None, :, 1]
            cond = (y1 > y) != (y2 > y)
            with np.errstate(divide="ignore", invalid="ignore"):
                xint = x1 + (y - y1) * (x2 - x1) / (y2 - y1)
            inside = (np.sum(cond & (x < xint), axis=1) % 2) == 1
            ab = B - A
            den = np.einsum("ij,ij->i", ab, ab)
            t = ((x - x1) * ab[None, :, 0] + (y - y1) * ab[None, :, 1]) / np.where(den > 0, den, 1.0)
            t = np.clip(t, 0, 1)
            d = np.hypot(x - (x1 + t * ab[None, :, 0]), y - (y1 + t * ab[None, :, 1])).min(axis=1)
            out[s : s + step] = np.where(inside, -d, d)
        return out

    def aabb(self):
        lo = self.A.min(axis=0)
        hi = self.A.max(axis=0)
        return np.array([lo[0], lo[1], self.z]), np.array([hi[0], hi[1], self.z])


class DiscS(_Planar):
    """Disc; `band`: the library intersects/unions the inscribed regular polygon with
    4*resolution vertices instead of the disc."""

    def __init__(self, c, r, resolution=32):
        self.c = np.asarray(c, float)
        self.r = float(r)
        self.carrier = Plane(self.c[2])
        self.band = self.r * (1 - math.cos(math.pi / (4 * resolution))) * 1.01
        self.kind = "disc"

    def sdf2(self, xy):
        return np.hypot(xy[:, 0] - self.c[0], xy[:, 1] - self.c[1]) - self.r

    def aabb(self):
        return self.c - [self.r, self.r, 0], self.c + [self.r, self.r, 0]


class SectorS(_Planar):
    """Sector of a disc: centre c, radius r, centre-line heading (0 = +y, counter-clockwise
    positive), opening angle."""

    def __init__(self, c, r, heading, angle, resolution=32):
        self.c = np.asarray(c, float)
        self.r, self.heading, self.angle = float(r), float(heading), float(angle)
        self.carrier = Plane(self.c[2])
        self.band = self.r * (1 - math.cos(math.pi / (4 * resolution))) * 1.01
        self.kind = "sector"

    def sdf2(self, xy):
        d = xy - self.c[:2]
        m_r = np.hypot(d[:, 0], d[:, 1]) - self.r
        ha = self.angle / 2
        # outward normals of the two bounding rays (rays at heading +/- ha)
        def ray_dir(h):
            return np.array([-math.sin(h), math.cos(h)])

        dl, dr = ray_dir(self.heading + ha), ray_dir(self.heading - ha)
        nl = np.array([-dl[1], dl[0]])  # left normal of the left ray: outside
        nr = np.array([dr[1], -dr[0]])  # right normal of the right ray: outside
        ml, mr = d @ nl, d @ nr
        if self.angle < math.pi:
            m_a = np.maximum(ml, mr)
        else:
            m_a = np.minimum(ml, mr)
        return np.maximum(m_r, m_a)

    def aabb(self):
        return self.c - [self.r, self.r, 0], self.c + [self.r, self.r, 0]


class RectS(_Planar):
    """Rectangle: centre c, heading of the length axis, width (local x), length (local y)."""

    def __init__(self, c, heading, width, length):
        self.c = np.asarray(c, float)
        self.heading = float(heading)
        self.hw, self.hl = width / 2, length / 2
        self.carrier = Plane(self.c[2])
        self.kind = "rect"

    def sdf2(self, xy):
        d = xy - self.c[:2]
        ch, sh = math.cos(self.heading), math.sin(self.heading)
        lx = d[:, 0] * ch + d[:, 1] * sh
        ly = -d[:, 0] * sh + d[:, 1] * ch
        return np.maximum(np.abs(lx) - self.hw, np.abs(ly) - self.hl)

    def aabb(self):
        ch, sh = abs(math.cos(self.heading)), abs(math.sin(self.heading))
        ex = self.hw * ch + self.hl * sh
        ey = self.hw * sh + self.hl * ch
        return self.c - [ex, ey, 0], self.c + [ex, ey, 0]


class _Intrinsic(Prim):
    def margin_on(self, P, ckey, half=None):
        return np.full(len(P), -INF if ckey == self.carrier.key else INF)

    def aabb(self):
        pts = self.pts.reshape(-1, 3)
        return pts.min(axis=0), pts.max(axis=0)


class SurfaceS(_Intrinsic):
    def __init__(self, name, V, F):
        V, F = np.asarray(V, float), np.asarray(F, np.int64)
        self.pts = V[F]
        self.carrier = Surface(name, self.pts)
        self.kind = "surface"


class CurveS(_Intrinsic):
    """Chain(s) of segments: `chains` = list of point lists (3-D)."""

    def __init__(self, name, chains):
        segs = []
        for ch in chains:
            ch = np.asarray(ch, float)
            if ch.shape[1] == 2:
                ch = np.column_stack([ch, np.zeros(len(ch))])
            for a, b in zip(ch[:-1], ch[1:]):
                segs.append((a, b))
        self.pts = np.array(segs)
        self.carrier = Curve(name, self.pts)
        self.kind = "curve"


# ------------------------------------------------------------------------------------------
# compositions
# ------------------------------------------------------------------------------------------
class Comp:
    def __init__(self, op, A, B):
        assert op in ("union", "intersect", "difference")
        self.op, self.A, self.B = op, A, B
        self.operands = (A, B)
        self.band = max(A.band, B.band)
        self.kind = f"{op}({A.kind},{B.kind})"
        if op == "union":
            self.dim = max(A.dim, B.dim)
        elif op == "intersect":
            self.dim = min(A.dim, B.dim)
        else:
            self.dim = A.dim

    def prims(self):
        return self.A.prims() + self.B.prims()

    def carriers(self):
        A, B = self.A, self.B
        if self.op == "difference":
            cs = A.carriers()
        elif self.op == "union":
            cs = [c for c in A.carriers() + B.carriers() if c.dim == self.dim]
        else:
            if A.dim < B.dim:
                cs = A.carriers()
            elif B.dim < A.dim:
                cs = B.carriers()
            else:
                ka = {c.key for c in A.carriers()}
                cs = [c for c in B.carriers() if c.key in ka]
                if not cs:
                    raise Unsupported("intersection of equal-dimensional sets on different carriers")
        out, seen = [], set()
        for c in cs:
            if c.key not in seen:
                seen.add(c.key)
                out.append(c)
        return out

    def margin_on(self, P, ckey, half=None):
        a = self.A.margin_on(P, ckey, half)
        b = self.B.margin_on(P, ckey, half)
        if self.op == "union":
            return np.minimum(a, b)
        if self.op == "intersect":
            return np.maximum(a, b)
        return np.maximum(a, -b)

    def aabb(self):
        (la, ha), (lb, hb) = self.A.aabb(), self.B.aabb()
        if self.op == "union":
            return np.minimum(la, lb), np.maximum(ha, hb)
        if self.op == "intersect":
            return np.maximum(la, lb), np.minimum(ha, hb)
        return la, ha


def union(a, b):
    return Comp("union", a, b)


def intersect(a, b):
    return Comp("intersect", a, b)


def difference(a, b):
    return Comp("difference", a, b)


# ------------------------------------------------------------------------------------------
# membership of produced points
# ------------------------------------------------------------------------------------------
def classify(shape, P, eps, off_tol):
    """int8 per point: 1 member (margin < -eps-band on some carrier it lies on), 0 not a
    member (off every carrier by > off_tol, or margin > eps+band), -1 touching (skipped)."""
    P = np.atleast_2d(np.asarray(P, float))
    res = np.zeros(len(P), np.int8)
    e = eps + shape.band
    for K in shape.carriers():
        on = K.off(P) <= off_tol
        if not on.any():
            continue
        m = shape.margin_on(P, K.key)
        ins = on & (m < -e)
        tch = on & (np.abs(m) <= e)
        res[tch & (res == 0)] = -1
        res[ins] = 1
    return res


# ------------------------------------------------------------------------------------------
# cells and interval accounting
# ------------------------------------------------------------------------------------------
class Grid:
    """Axis-aligned cells given by explicit edge lists per axis (a degenerate axis has the
    two equal edges [a, a]: one cell)."""

    def __init__(self, edges):
        self.edges = [np.asarray(e, float) for e in edges]
        self.n = np.array([len(e) - 1 for e in self.edges])
        ext = np.array([e[-1] - e[0] for e in self.edges])
        self.scale = float(ext.max())
        self.tol = 1e-9 * self.scale
        self.size = int(np.prod(self.n))

    @classmethod
    def uniform(cls, lo, hi, G):
        lo, hi = np.asarray(lo, float), np.asarray(hi, float)
        ext = hi - lo
        scale = float(ext.max())
        edges = []
        for i in range(3):
            if ext[i] > 1e-12 * scale:
                edges.append(np.linspace(lo[i], hi[i], G + 1))
            else:
                edges.append(np.array([lo[i], lo[i]]))
        return cls(edges)

    def min_width(self):
        w = [np.diff(e).min() for e in self.edges if e[-1] - e[0] > 1e-9 * self.scale]
        return float(min(w))

    def ranges(self, C, H):
        """index ranges [a,b] per axis of the cells met by the closed boxes C +/- H (a box
        that merely touches a cell face within tol does not meet the cell behind it)."""
        n = len(C)
        a = np.zeros((n, 3), np.int64)
        b = np.zeros((n, 3), np.int64)
        outside = np.zeros(n, bool)
        for i in range(3):
            e = self.edges[i]
            if e[-1] <= e[0]:
                outside |= np.abs(C[:, i] - e[0]) > H[:, i] + self.tol
                continue
            a[:, i] = np.searchsorted(e, C[:, i] - H[:, i] + self.tol, side="right") - 1
            b[:, i] = np.searchsorted(e, C[:, i] + H[:, i] - self.tol, side="left") - 1
            b[:, i] = np.maximum(a[:, i], b[:, i])
            outside |= (b[:, i] < 0) | (a[:, i] > self.n[i] - 1)
        a = np.clip(a, 0, self.n - 1)
        b = np.clip(b, 0, self.n - 1)
        return a, b, outside

    def flat(self, idx):
        return (idx[..., 0] * self.n[1] + idx[..., 1]) * self.n[2] + idx[..., 2]


def accumulate(grid, C, H, m_lo, m_hi):
    """lo[c] += m_lo for boxes inside a single cell c; hi[c] += m_hi for every cell met."""
    lo = np.zeros(grid.size)
    hi = np.zeros(grid.size)
    if len(C) == 0:
        return lo, hi, 0
    a, b, outside = grid.ranges(C, H)
    single = np.all(a == b, axis=1) & ~outside
    f = grid.flat(a[single])
    np.add.at(lo, f, m_lo[single])
    np.add.at(hi, f, m_hi[single])
    multi = np.nonzero(~single & ~outside & (m_hi != 0))[0]
    if len(multi):
        # add m_hi to every cell of the index box [a, b]: 3-D difference array + prefix sums
        n0, n1, n2 = (int(x) for x in grid.n)
        D = np.zeros((n0 + 1, n1 + 1, n2 + 1))
        am, bm, w = a[multi], b[multi] + 1, m_hi[multi]
        for s0, i0 in ((1, am[:, 0]), (-1, bm[:, 0])):
            for s1, i1 in ((1, am[:, 1]), (-1, bm[:, 1])):
                for s2, i2 in ((1, am[:, 2]), (-1, bm[:, 2])):
                    np.add.at(D, (i0, i1, i2), s0 * s1 * s2 * w)
        D = D.cumsum(axis=0).cumsum(axis=1).cumsum(axis=2)[:n0, :n1, :n2]
        hi += D.reshape(-1)
    return lo, hi, int(outside.sum())


class Quadrature:
    """Pieces of the natural measure of `shape`, classified inside / boundary; pieces are
    aligned with the cells of `grid` wherever the carrier allows it."""

    def __init__(self, shape, grid, q):
        C, H, M, IN, BD, MG, KK = [], [], [], [], [], [], []
        self.carriers = shape.carriers()
        for ki, K in enumerate(self.carriers):
            pts, half, mass = K.quad(grid, q)
            r = np.linalg.norm(half, axis=1)
            m = shape.margin_on(pts, K.key, half)
            C.append(pts)
            H.append(half)
            M.append(mass)
            IN.append(m < -(r + shape.band))
            BD.append(np.abs(m) <= r + shape.band)
            MG.append(m)
            KK.append(np.full(len(pts), ki))
        self.C, self.H, self.M = np.concatenate(C), np.concatenate(H), np.concatenate(M)
        self.inside, self.boundary, self.margin = np.concatenate(IN), np.concatenate(BD), np.concatenate(MG)
        self.R = np.linalg.norm(self.H, axis=1) + shape.band
        self.carrier_index = np.concatenate(KK)
        self.mu_lo = float(self.M[self.inside].sum())
        self.mu_hi = float(self.M[self.inside | self.boundary].sum())
        self.grid = grid

    def cells(self, depth=0.0):
        """(lo, hi) per cell of the measure of the region.  With depth D > 0: lo = measure of the
        part of the region deeper than D inside it, hi = measure of the D-neighbourhood of the
        region (features thinner than D, which a lattice of box radius D cannot resolve, then
        count to neither bound)."""
        rr = self.R + depth
        deep = self.margin < -rr
        near = self.margin <= rr
        lo, hi, _ = accumulate(
            self.grid,
            self.C[near],
            self.H[near],
            np.where(deep[near], self.M[near], 0.0),
            self.M[near],
        )
        return lo, hi


def assign_carrier(carriers, C, H, tol):
    """index of the carrier each piece (centre C, half-extent H) lies on, -1 if none.  A piece
    lies on a plane only if it is flat in z at the plane's height (a lattice box of a surface
    or curve that merely crosses the plane does not)."""
    out = np.full(len(C), -1, np.int64)
    for j, K in enumerate(carriers):
        if isinstance(K, Plane):
            fit = (np.abs(C[:, 2] - K.z) <= tol) & (H[:, 2] <= tol)
        elif isinstance(K, Space):
            fit = np.ones(len(C), bool)
        else:
            fit = K.off(C) <= tol
        out[fit & (out < 0)] = j
    return out


def atom_of(shape, P, r, ckey, half=None):
    """For a two-operand composition: (a, b) with a, b in {1 in, 0 out, -1 undetermined}."""
    out = []
    for X in shape.operands:
        m = X.margin_on(P, ckey, half)
        rr = r + X.band
        out.append(np.where(m < -rr, 1, np.where(m > rr, 0, -1)))
    return out
