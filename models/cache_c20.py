"""Reference model of the road-network cache protocol (property C20).

Written from the documentation of `Network.fromFile` / `Network.fromPickle`
(src/scenic/domains/driving/roads.py):

  * "useCache: Whether to use a cached version of the map, if one exists and matches the
    given map file (... if the map file changes, the cached version will still not be
    used)";  "Hash the map options as well so changing them invalidates the cache";
  * "writeCache: Whether to save a cached version of the processed map after parsing";
  * a cache that cannot be read ("old format or corrupted") is not used, the map is parsed.

The cache file layout (4-byte version, 64-byte map digest, 8-byte options digest, gzip
payload) is used only to *aim* the corruption operations at the three header fields and the
payload; the predictions below never look at the bytes.

Model state  = (cache, map)
  map    = (g, c)          geometry version g in {0,1}, trailing-comment bit c in {0,1}
  cache  = ("absent",)
         | ("valid", map, opts)            written by a load for exactly (map, opts)
         | ("soft", map, opts)             payload byte(s) damaged, header intact
         | ("hard",)                       header field damaged or file truncated
"stale" is not a stored state: a valid/soft cache is stale for a load iff its key differs
from the (map, opts) of that load.

Prediction for  load(opts, useCache, writeCache):
  returned network  == fresh parse of (current map, opts)              ALWAYS
  parser calls      == 0   if useCache and cache == valid(current map, opts)
                    == 1   if absent / stale / hard / not useCache
                    in {0,1} if cache == soft(current map, opts)   (judged only on the
                              returned network; which one happened is observed)
  cache afterwards  == valid(current map, opts) if the parser ran and writeCache
                    == unchanged otherwise
"""

ABSENT = ("absent",)
HARD = ("hard",)

OPTS = {
    "A": {},
    "B": {"tolerance": 0.5},
}

# operation alphabet ---------------------------------------------------------------
LOADS = {
    # name: (options name, useCache, writeCache)
    "loadA": ("A", True, True),
    "loadB": ("B", True, True),
    "loadB_nowrite": ("B", True, False),
    "loadA_nocache": ("A", False, True),
}
EDITS = ("editG", "editC")
# (name, hard?)   hard = the documented header checks must reject it
CORRUPTIONS = (
    ("trunc0", True),  # empty file
    ("trunc_hdr", True),  # cut inside the digest (40 bytes left)
    ("trunc_payload", True),  # cut in the middle of the gzip payload
    ("bump_version", True),  # format version + 1 (a future format)
    ("flip_version_hi", True),  # byte 3 of the version field
    ("flip_digest", True),  # byte 10: map digest
    ("flip_optdigest", True),  # byte 70: options digest
    # payload damage with a position-independent meaning (the deflate stream itself differs
    # from run to run -- the pickle contains cached id()-based hashes -- so damage *inside*
    # the stream is enumerated separately, by the byte sweep of checks/c20.py)
    ("flip_gzip_magic", False),  # byte 76: first byte of the payload (gzip magic)
    ("flip_gzip_crc", False),  # byte n-8: CRC32 of the gzip trailer
    ("flip_gzip_isize", False),  # byte n-1: ISIZE of the gzip trailer
)
OTHER = ("delete",)

ALPHABET = tuple(LOADS) + EDITS + tuple(n for n, _ in CORRUPTIONS) + OTHER
_HARD = dict(CORRUPTIONS)

INITIAL = (ABSENT, (0, 0))


def predict_load(state, op):
    """-> (expected reference key (g, optname), allowed parser-call counts)"""
    cache, mp = state
    optname, use, write = LOADS[op]
    key = (mp, optname)
    if not use or cache == ABSENT or cache == HARD:
        allowed = (1,)
    elif cache[0] == "valid":
        allowed = (0,) if (cache[1], cache[2]) == key else (1,)
    elif cache[0] == "soft":
        allowed = (0, 1) if (cache[1], cache[2]) == key else (1,)
    else:  # pragma: no cover
        raise AssertionError(cache)
    return (mp[0], optname), allowed


def step(state, op, parsed=None):
    """Successor model state.  `parsed` (observed parser-call count) resolves the only
    nondeterministic case (load on a matching soft-corrupt cache)."""
    cache, mp = state
    if op in LOADS:
        optname, use, write = LOADS[op]
        _, allowed = predict_load(state, op)
        if parsed is None:
            if len(allowed) != 1:
                raise ValueError("observation needed")
            parsed = allowed[0]
        if parsed and write:
            cache = ("valid", mp, optname)
        return (cache, mp)
    if op == "editG":
        return (cache, (1 - mp[0], mp[1]))
    if op == "editC":
        return (cache, (mp[0], 1 - mp[1]))
    if op == "delete":
        return (ABSENT, mp)
    if op in _HARD:
        if cache == ABSENT:
            return state  # nothing to damage
        if cache == HARD:
            return state  # damage on damage stays rejected (increments never undo)
        if _HARD[op]:
            return (HARD, mp)
        return (("soft", cache[1], cache[2]), mp)
    raise KeyError(op)


def classify(state, op):
    """Human-readable class of the cache at a load: absent/valid/stale/soft/hard/bypass."""
    cache, mp = state
    optname, use, write = LOADS[op]
    if not use:
        return "bypass"
    if cache == ABSENT:
        return "absent"
    if cache == HARD:
        return "hard-corrupt"
    if (cache[1], cache[2]) != (mp, optname):
        if cache[1] != mp and cache[2] != optname:
            return "stale-map+options"
        return "stale-map" if cache[1] != mp else "stale-options"
    return "valid" if cache[0] == "valid" else "soft-corrupt"


def reachable(depth, soft_outcomes=(0, 1)):
    """Pure model BFS (both outcomes of the nondeterministic case): states, transitions."""
    seen = {INITIAL}
    frontier = [INITIAL]
    trans = set()
    for _ in range(depth):
        nxt = []
        for s in frontier:
            for op in ALPHABET:
                if op in LOADS:
                    _, allowed = predict_load(s, op)
                    succs = [step(s, op, p) for p in allowed]
                else:
                    succs = [step(s, op)]
                for t in succs:
                    trans.add((s, op, t))
                    if t not in seen:
                        seen.add(t)
                        nxt.append(t)
        frontier = nxt
    return seen, trans


# byte-level operations on the files (the implementation side of the alphabet) --------
HEADER = 76


def apply_corruption(op, data):
    """bytes of the cache file -> damaged bytes (None = leave file alone)."""
    n = len(data)
    b = bytearray(data)

    def inc(i):
        if i < n:
            b[i] = (b[i] + 1) % 256
            return bytes(b)
        return None

    if op == "trunc0":
        return b""
    if op == "trunc_hdr":
        return bytes(b[: min(n, 40)])
    if op == "trunc_payload":
        return bytes(b[: min(n, HEADER + max(0, n - HEADER) // 2)])
    if op == "bump_version":
        return inc(0)
    if op == "flip_version_hi":
        return inc(3)
    if op == "flip_digest":
        return inc(10)
    if op == "flip_optdigest":
        return inc(70)
    if op == "flip_gzip_magic":
        return inc(HEADER)
    if op == "flip_gzip_crc":
        return inc(n - 8) if n > HEADER + 20 else None
    if op == "flip_gzip_isize":
        return inc(n - 1) if n > HEADER + 20 else None
    raise KeyError(op)
