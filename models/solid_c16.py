"""Independent analytic reference for C16 (region set semantics in full 3-D).

Pure numpy + the mathematics of docs/reference/region_types.rst; no scenic, trimesh or
shapely.  A *shape spec* is a JSON-able dict ``{"kind": ..., ...}``; ``oracle(spec)``
returns an object answering, for an (N,3) array of probe points P:

  member(P)   strict 3-D membership (a planar region has members only at its height z,
              a polyline only on its segments at z = 0, ...)
  column(P)   membership of the *footprint column* (x, y only) for the 2-D kinds; equals
              member(P) for the others.  Only used to *classify* disagreements.
  clear(P)    clearance: for members the distance to the relative boundary of the set,
              for non-members the distance to the set, minus the approximation band of
              curved kinds.  Probes with clear < margin are not judged.
  dist(P)     exact Euclidean distance to the set, or None when no closed form is used
  aabb()      exact axis-aligned bounding box (lo, hi); infinite entries for footprints
  size()      volume / area / length / count
  dim         3, 2, 1, 0
  plane_z     height of a planar / z-locked set, else None
  on_probes() member probes lying exactly on lower-dimensional sets

Conventions taken from the documentation: headings are anticlockwise from +y, a heading
h points along (-sin h, cos h); Euler angles are intrinsic yaw(Z) pitch(X) roll(Y); a
mesh is centred on its bounding box, scaled to ``dimensions``, rotated about and moved
to ``position``.
"""

from __future__ import annotations

import math

import numpy as np

INF = float("inf")

# inward deviation of the library's polyhedral approximations of curved boundaries,
# relative to the radius: icosphere (3 subdivisions) 0.0046, 128-gon circle 0.0003
BAND_SPHEROID = 0.006
BAND_CIRCLE = 0.0005


# ----------------------------------------------------------------------------------
# small geometry kit
# ----------------------------------------------------------------------------------
def ypr_matrix(yaw, pitch, roll):
    def rz(a):
        c, s = math.cos(a), math.sin(a)
        return np.array([[c, -s, 0.0], [s, c, 0.0], [0.0, 0.0, 1.0]])

    def rx(a):
        c, s = math.cos(a), math.sin(a)
        return np.array([[1.0, 0.0, 0.0], [0.0, c, -s], [0.0, s, c]])

    def ry(a):
        c, s = math.cos(a), math.sin(a)
        return np.array([[c, 0.0, s], [0.0, 1.0, 0.0], [-s, 0.0, c]])

    return rz(yaw) @ rx(pitch) @ ry(roll)


def heading_dir(h):
    return np.array([-math.sin(h), math.cos(h)])


def seg_dist(P, a, b):
    """Distance from points P (N,d) to segments a[i]->b[i] (S,d): (N,S)."""
    P = np.asarray(P, float)[:, None, :]
    a = np.asarray(a, float)[None, :, :]
    b = np.asarray(b, float)[None, :, :]
    ab = b - a
    L2 = np.sum(ab * ab, axis=2)
    t = np.sum((P - a) * ab, axis=2) / np.where(L2 > 0, L2, 1.0)
    t = np.clip(t, 0.0, 1.0)
    c = a + t[:, :, None] * ab
    return np.linalg.norm(P - c, axis=2)


def rings_segments(rings):
    a, b = [], []
    for ring in rings:
        r = [tuple(map(float, p[:2])) for p in ring]
        if r[0] == r[-1]:
            r = r[:-1]
        for i in range(len(r)):
            a.append(r[i])
            b.append(r[(i + 1) % len(r)])
    return np.array(a), np.array(b)


def in_rings(Q, rings):
    """Even-odd rule over all rings (exterior + holes): (N,) bool. Q is (N,2)."""
    Q = np.asarray(Q, float)
    a, b = rings_segments(rings)
    x, y = Q[:, 0][:, None], Q[:, 1][:, None]
    ax, ay, bx, by = a[:, 0][None], a[:, 1][None], b[:, 0][None], b[:, 1][None]
    cond = (ay > y) != (by > y)
    with np.errstate(divide="ignore", invalid="ignore"):
        xi = ax + (y - ay) * (bx - ax) / (by - ay)
    cross = cond & (x < xi)
    return (np.sum(cross, axis=1) % 2) == 1


def ring_area(ring):
    r = [tuple(p[:2]) for p in ring]
    s = 0.0
    for i in range(len(r)):
        x0, y0 = r[i]
        x1, y1 = r[(i + 1) % len(r)]
        s += x0 * y1 - x1 * y0
    return abs(s) / 2.0


# ----------------------------------------------------------------------------------
# triangle meshes (own ray casting / closest point)
# ----------------------------------------------------------------------------------
def voxel_mesh(cells):
    """Boundary mesh (vertices, faces) of a face-connected set of unit cells, outward
    oriented, vertices shared on the integer grid (watertight by construction)."""
    cells = {tuple(c) for c in cells}
    vid, verts, faces = {}, [], []

    def v(p):
        if p not in vid:
            vid[p] = len(verts)
            verts.append(p)
        return vid[p]

    # for each axis and sign: the 4 corners of that cell face, counter-clockwise seen from outside
    quads = {
        (0, 1): [(1, 0, 0), (1, 1, 0), (1, 1, 1), (1, 0, 1)],
        (0, -1): [(0, 0, 0), (0, 0, 1), (0, 1, 1), (0, 1, 0)],
        (1, 1): [(0, 1, 0), (0, 1, 1), (1, 1, 1), (1, 1, 0)],
        (1, -1): [(0, 0, 0), (1, 0, 0), (1, 0, 1), (0, 0, 1)],
        (2, 1): [(0, 0, 1), (1, 0, 1), (1, 1, 1), (0, 1, 1)],
        (2, -1): [(0, 0, 0), (0, 1, 0), (1, 1, 0), (1, 0, 0)],
    }
    for c in sorted(cells):
        for (ax, sg), q in quads.items():
            n = list(c)
            n[ax] += sg
            if tuple(n) in cells:
                continue
            ids = [v((c[0] + d[0], c[1] + d[1], c[2] + d[2])) for d in q]
            faces.append((ids[0], ids[1], ids[2]))
            faces.append((ids[0], ids[2], ids[3]))
    return np.array(verts, float), np.array(faces, int)


def icosphere(subdiv=3):
    """Unit icosphere, only used to give the 'raw mesh' kind a curved example."""
    t = (1.0 + 5.0**0.5) / 2.0
    V = [(-1, t, 0), (1, t, 0), (-1, -t, 0), (1, -t, 0), (0, -1, t), (0, 1, t), (0, -1, -t), (0, 1, -t), (t, 0, -1), (t, 0, 1), (-t, 0, -1), (-t, 0, 1)]
    F = [(0, 11, 5), (0, 5, 1), (0, 1, 7), (0, 7, 10), (0, 10, 11), (1, 5, 9), (5, 11, 4), (11, 10, 2), (10, 7, 6), (7, 1, 8), (3, 9, 4), (3, 4, 2), (3, 2, 6), (3, 6, 8), (3, 8, 9), (4, 9, 5), (2, 4, 11), (6, 2, 10), (8, 6, 7), (9, 8, 1)]
    V = [np.array(p, float) / np.linalg.norm(p) for p in V]
    for _ in range(subdiv):
        cache, F2 = {}, []

        def mid(i, j):
            k = (min(i, j), max(i, j))
            if k not in cache:
                m = V[i] + V[j]
                V.append(m / np.linalg.norm(m))
                cache[k] = len(V) - 1
            return cache[k]

        for a, b, c in F:
            ab, bc, ca = mid(a, b), mid(b, c), mid(c, a)
            F2 += [(a, ab, ca), (b, bc, ab), (c, ca, bc), (ab, bc, ca)]
        F = F2
    return np.array(V), np.array(F, int)


def ray_hits(P, d, tri, eps=1e-12, inclusive=False):
    """Moeller-Trumbore for lines P + t d against triangles tri (T,3,3).
    Returns t (N,T) (nan where no hit) and 'edgy' (N,T): hit within 1e-7 of a triangle
    edge / nearly parallel to the face (unreliable for parity)."""
    P = np.asarray(P, float)
    d = np.asarray(d, float)
    v0, v1, v2 = tri[:, 0], tri[:, 1], tri[:, 2]
    e1, e2 = v1 - v0, v2 - v0
    h = np.cross(d[None, :], e2)  # (T,3)
    a = np.sum(e1 * h, axis=1)  # (T,)
    par = np.abs(a) < eps
    f = 1.0 / np.where(par, 1.0, a)
    s = P[:, None, :] - v0[None, :, :]  # (N,T,3)
    u = f[None] * np.sum(s * h[None], axis=2)
    q = np.cross(s, e1[None])
    v = f[None] * np.sum(q * d[None, None, :], axis=2)
    t = f[None] * np.sum(q * e2[None], axis=2)
    w = 1.0 - u - v
    tol = 1e-7
    inside = (u > tol) & (v > tol) & (w > tol) & ~par[None]
    near = (u > -tol) & (v > -tol) & (w > -tol) & ~inside & ~par[None]
    if inclusive:
        inside = inside | near
    return np.where(inside, t, np.nan), near


_DIRS = (np.array([0.5377, 0.3183, 0.7806]), np.array([-0.4561, 0.7717, -0.4431]))


def mesh_inside(P, tri):
    """Parity test with two independent ray directions; returns (inside, reliable)."""
    res = []
    rel = np.ones(len(P), bool)
    for d in _DIRS:
        d = d / np.linalg.norm(d)
        t, near = ray_hits(P, d, tri)
        pos = np.nansum(np.where(np.isnan(t), 0, t > 0), axis=1)
        rel &= ~np.any(near, axis=1)
        res.append((pos.astype(int) % 2) == 1)
    rel &= res[0] == res[1]
    return res[0], rel


def tri_dist(P, tri):
    """Distance from points to the union of triangles: (N,)."""
    P = np.asarray(P, float)
    v0, v1, v2 = tri[:, 0], tri[:, 1], tri[:, 2]
    n = np.cross(v1 - v0, v2 - v0)
    nn = np.linalg.norm(n, axis=1)
    n = n / nn[:, None]
    out = np.full(len(P), INF)
    # chunk over points to bound memory
    for i in range(0, len(P), 256):
        p = P[i : i + 256]
        s = p[:, None, :] - v0[None]
        dn = np.sum(s * n[None], axis=2)  # signed plane distance
        proj = p[:, None, :] - dn[:, :, None] * n[None]

        def side(a, b):
            return np.sum(np.cross(b - a, proj - a[None]) * n[None], axis=2)

        ins = (side(v0, v1) >= 0) & (side(v1, v2) >= 0) & (side(v2, v0) >= 0)
        dplane = np.where(ins, np.abs(dn), INF)
        de = np.minimum(np.minimum(seg_dist(p, v0, v1), seg_dist(p, v1, v2)), seg_dist(p, v2, v0))
        out[i : i + 256] = np.min(np.minimum(dplane, de), axis=1)
    return out


def mesh_volume(tri):
    return abs(np.sum(np.einsum("ij,ij->i", tri[:, 0], np.cross(tri[:, 1], tri[:, 2]))) / 6.0)


def mesh_area(tri):
    return float(np.sum(np.linalg.norm(np.cross(tri[:, 1] - tri[:, 0], tri[:, 2] - tri[:, 0]), axis=1)) / 2.0)


def sharp_edges(tri):
    """Edges (a,b) of the mesh that are not shared by two coplanar triangles."""
    key = lambda p: tuple(np.round(p, 9))
    edges = {}
    n = np.cross(tri[:, 1] - tri[:, 0], tri[:, 2] - tri[:, 0])
    n = n / np.linalg.norm(n, axis=1)[:, None]
    for ti, t in enumerate(tri):
        for i in range(3):
            a, b = key(t[i]), key(t[(i + 1) % 3])
            edges.setdefault((min(a, b), max(a, b)), []).append(ti)
    out = []
    for (a, b), ts in edges.items():
        if len(ts) == 2 and abs(np.dot(n[ts[0]], n[ts[1]])) > 1 - 1e-9:
            continue
        out.append((a, b))
    return np.array([e[0] for e in out]), np.array([e[1] for e in out])


def line_seg_dist(P, d, a, b):
    """Distance between the infinite lines P + t d and segments a->b: (N,S) (projected
    along d: the segments are flattened on the plane normal to d)."""
    d = np.asarray(d, float)
    d = d / np.linalg.norm(d)

    def flat(X):
        X = np.asarray(X, float)
        return X - np.outer(X @ d, d)

    return seg_dist(flat(P), flat(a), flat(b))


def _mesh_line_hits(tri, P, d):
    """Parameters t (N,T; nan = no hit) with P + t d on the surface, and per probe the
    distance of the line to the nearest sharp edge (small = unreliable)."""
    t, _ = ray_hits(P, d, tri, inclusive=True)
    ea, eb = sharp_edges(tri)
    return t, line_seg_dist(P, d, ea, eb).min(axis=1)


# ----------------------------------------------------------------------------------
# oracles
# ----------------------------------------------------------------------------------
class Oracle:
    proj_tol = 1e-6
    judge_metric = True  # distanceTo / AABB / size / dimensionality are specified
    judge_rel = True  # intersects / containsRegion are specified

    dim = 3
    plane_z = None
    band = 0.0
    z_locked = False  # the library cannot place this kind at another height

    def __init__(self, spec):
        self.spec = spec

    def column(self, P):
        return self.member(P)

    def dist(self, P):
        return None

    def size(self):
        return None

    def on_probes(self):
        return np.zeros((0, 3))

    def has_column(self):
        return False


class BoxO(Oracle):
    def __init__(self, spec):
        super().__init__(spec)
        self.c = np.array(spec["pos"], float)
        self.h = np.array(spec["dims"], float) / 2
        self.R = ypr_matrix(*spec.get("ypr", (0, 0, 0)))

    def local(self, P):
        return (np.asarray(P, float) - self.c) @ self.R

    def member(self, P):
        return np.all(np.abs(self.local(P)) <= self.h, axis=1)

    def dist(self, P):
        q = np.abs(self.local(P)) - self.h
        return np.linalg.norm(np.maximum(q, 0), axis=1)

    def clear(self, P):
        q = np.abs(self.local(P)) - self.h
        out = np.linalg.norm(np.maximum(q, 0), axis=1)
        inn = -np.max(q, axis=1)
        return np.where(np.all(q <= 0, axis=1), inn, out)

    def aabb(self):
        corners = np.array([[sx, sy, sz] for sx in (-1, 1) for sy in (-1, 1) for sz in (-1, 1)]) * self.h
        W = corners @ self.R.T + self.c
        return W.min(axis=0), W.max(axis=0)

    def size(self):
        return float(np.prod(2 * self.h))

    @property
    def tri(self):
        V, F = voxel_mesh([(0, 0, 0)])
        V = ((V - 0.5) * (2 * self.h)) @ self.R.T + self.c
        return V[F]

    def line_hits(self, P, d):
        return _mesh_line_hits(self.tri, P, d)


class SpheroidO(Oracle):
    def __init__(self, spec):
        super().__init__(spec)
        self.c = np.array(spec["pos"], float)
        self.h = np.array(spec["dims"], float) / 2
        self.R = ypr_matrix(*spec.get("ypr", (0, 0, 0)))
        self.band = BAND_SPHEROID * float(self.h.max())

    def s(self, P):
        q = ((np.asarray(P, float) - self.c) @ self.R) / self.h
        return np.linalg.norm(q, axis=1)

    def member(self, P):
        return self.s(P) <= 1.0

    def clear(self, P):
        s = self.s(P)
        lb = np.abs(s - 1.0) * float(self.h.min())
        return np.where(s <= 1.0, lb - self.band, lb)

    def dist(self, P):
        if np.ptp(self.h) > 1e-12:
            return None
        return np.maximum(0.0, np.linalg.norm(np.asarray(P, float) - self.c, axis=1) - self.h[0])

    def aabb(self):
        # extent of an ellipsoid along axis e: sqrt(sum_k (R[e,k] h_k)^2)
        ext = np.sqrt(np.sum((self.R * self.h[None, :]) ** 2, axis=1))
        return self.c - ext, self.c + ext

    def size(self):
        return float(4.0 / 3.0 * math.pi * np.prod(self.h))

    def line_hits(self, P, d):
        """Analytic line / ellipsoid intersection; 'trouble' is small for near-tangent lines."""
        q = ((np.asarray(P, float) - self.c) @ self.R) / self.h
        e = (np.asarray(d, float) @ self.R) / self.h
        a = float(e @ e)
        b = 2 * (q @ e)
        c = np.sum(q * q, axis=1) - 1.0
        disc = b * b - 4 * a * c
        with np.errstate(invalid="ignore"):
            r = np.sqrt(disc)
        t = np.stack([(-b - r) / (2 * a), (-b + r) / (2 * a)], axis=1)
        t = np.where(disc[:, None] > 0, t, np.nan)
        # closest approach of the line to the centre in the scaled space
        smin = np.sqrt(np.maximum(np.sum(q * q, axis=1) - (q @ e) ** 2 / a, 0.0))
        trouble = np.where(np.abs(smin - 1.0) < 0.1, 0.0, INF)
        return t, trouble

    @property
    def proj_tol(self):
        return 5 * self.band


def raw_mesh(spec):
    """(vertices, faces) of the raw (untransformed) mesh of a mesh spec."""
    if "cells" in spec:
        return voxel_mesh(spec["cells"])
    if spec.get("base") == "icosphere":
        return icosphere(2)
    raise ValueError(spec)


def placed_vertices(spec):
    V, F = raw_mesh(spec)
    lo, hi = V.min(axis=0), V.max(axis=0)
    V = V - (lo + hi) / 2
    if spec.get("dims") is not None:
        V = V * (np.array(spec["dims"], float) / (hi - lo))
    R = ypr_matrix(*spec.get("ypr", (0, 0, 0)))
    return V @ R.T + np.array(spec["pos"], float), F


class MeshO(Oracle):
    """Volume (or, with surface=True, the boundary surface) of a raw triangle mesh."""

    def __init__(self, spec):
        super().__init__(spec)
        self.V, self.F = placed_vertices(spec)
        self.tri = self.V[self.F]
        self.surface = bool(spec.get("surface"))
        self.dim = 2 if self.surface else 3

    def member(self, P):
        if self.surface:
            return tri_dist(P, self.tri) <= 1e-9
        ins, _ = mesh_inside(P, self.tri)
        return ins

    def clear(self, P):
        d = tri_dist(P, self.tri)
        if self.surface:
            # a closed surface has no relative boundary: members are clear
            return np.where(d <= 1e-9, INF, d)
        _, rel = mesh_inside(P, self.tri)
        return np.where(rel, d, 0.0)

    def dist(self, P):
        d = tri_dist(P, self.tri)
        if self.surface:
            return d
        ins, rel = mesh_inside(P, self.tri)
        return np.where(rel, np.where(ins, 0.0, d), np.nan)

    def aabb(self):
        return self.V.min(axis=0), self.V.max(axis=0)

    def size(self):
        return mesh_area(self.tri) if self.surface else mesh_volume(self.tri)

    def on_probes(self):
        if not self.surface:
            return np.zeros((0, 3))
        c = self.tri.mean(axis=1)
        step = max(1, len(c) // 40)
        return c[::step]

    def line_hits(self, P, d):
        return _mesh_line_hits(self.tri, P, d)


class PlanarO(Oracle):
    """2-D kinds: subclasses give member2(Q), dist2(Q) (distance to the set, 0 inside),
    bdist2(Q) (distance to the boundary curve) in the plane z = plane_z."""

    dim = 2

    def has_column(self):
        return True

    def column(self, P):
        return self.member2(np.asarray(P, float)[:, :2])

    def member(self, P):
        P = np.asarray(P, float)
        return (P[:, 2] == self.plane_z) & self.member2(P[:, :2])

    def dist(self, P):
        P = np.asarray(P, float)
        return np.hypot(self.dist2(P[:, :2]), P[:, 2] - self.plane_z)

    def clear(self, P):
        P = np.asarray(P, float)
        on = P[:, 2] == self.plane_z
        m2 = self.member2(P[:, :2])
        b = self.bdist2(P[:, :2])
        inplane = np.where(m2, b - self.band, b)
        off = np.hypot(np.where(m2, 0.0, b), P[:, 2] - self.plane_z)
        return np.where(on, inplane, off)

    def col_clear(self, P):
        """Clearance of the column membership (x, y only)."""
        return self.bdist2(np.asarray(P, float)[:, :2]) - self.band

    def dist2(self, Q):
        return np.where(self.member2(Q), 0.0, self.bdist2(Q))

    def aabb(self):
        lo, hi = self.aabb2()
        return np.array([lo[0], lo[1], self.plane_z]), np.array([hi[0], hi[1], self.plane_z])


class PolygonO(PlanarO):
    def __init__(self, spec):
        super().__init__(spec)
        self.rings = [spec["exterior"]] + list(spec.get("holes", []))
        self.plane_z = float(spec["z"])
        self.a, self.b = rings_segments(self.rings)

    def member2(self, Q):
        return in_rings(Q, self.rings)

    def bdist2(self, Q):
        return seg_dist(Q, self.a, self.b).min(axis=1)

    def aabb2(self):
        e = np.array([p[:2] for p in self.spec["exterior"]], float)
        return e.min(axis=0), e.max(axis=0)

    def size(self):
        return ring_area(self.rings[0]) - sum(ring_area(h) for h in self.rings[1:])


class CircleO(PlanarO):
    def __init__(self, spec):
        super().__init__(spec)
        self.c = np.array(spec["center"][:2], float)
        self.r = float(spec["r"])
        self.plane_z = float(spec["center"][2])
        self.band = BAND_CIRCLE * self.r

    def member2(self, Q):
        return np.linalg.norm(Q - self.c, axis=1) <= self.r

    def bdist2(self, Q):
        return np.abs(np.linalg.norm(Q - self.c, axis=1) - self.r)

    def aabb2(self):
        return self.c - self.r, self.c + self.r

    def size(self):
        return math.pi * self.r**2


class SectorO(PlanarO):
    def __init__(self, spec):
        super().__init__(spec)
        self.c = np.array(spec["center"][:2], float)
        self.r = float(spec["r"])
        self.hd = float(spec["heading"])
        self.ang = float(spec["angle"])
        self.plane_z = float(spec["center"][2])
        self.band = BAND_CIRCLE * self.r
        self.e1 = self.c + self.r * heading_dir(self.hd + self.ang / 2)
        self.e2 = self.c + self.r * heading_dir(self.hd - self.ang / 2)

    def _rel(self, Q):
        v = Q - self.c
        rad = np.linalg.norm(v, axis=1)
        # heading of v: angle anticlockwise from +y
        h = np.arctan2(-v[:, 0], v[:, 1])
        dh = (h - self.hd + math.pi) % (2 * math.pi) - math.pi
        return rad, dh

    def member2(self, Q):
        rad, dh = self._rel(Q)
        return (rad <= self.r) & (np.abs(dh) <= self.ang / 2)

    def bdist2(self, Q):
        rad, dh = self._rel(Q)
        arc = np.where(np.abs(dh) <= self.ang / 2, np.abs(rad - self.r), INF)
        segs = seg_dist(Q, np.array([self.c, self.c]), np.array([self.e1, self.e2])).min(axis=1)
        return np.minimum(arc, segs)

    def aabb2(self):
        pts = [self.c, self.e1, self.e2]
        for k in range(-4, 5):  # axis-extreme points of the arc
            h = k * math.pi / 2
            dh = (h - self.hd + math.pi) % (2 * math.pi) - math.pi
            if abs(dh) <= self.ang / 2:
                pts.append(self.c + self.r * heading_dir(h))
        pts = np.array(pts)
        return pts.min(axis=0), pts.max(axis=0)

    def size(self):
        return self.ang / 2 * self.r**2


class RectO(PlanarO):
    def __init__(self, spec):
        super().__init__(spec)
        self.c = np.array(spec["pos"][:2], float)
        self.hd = float(spec["heading"])
        self.hw, self.hl = float(spec["width"]) / 2, float(spec["length"]) / 2
        self.plane_z = float(spec["pos"][2])
        self.ly = heading_dir(self.hd)  # length axis
        self.lx = np.array([self.ly[1], -self.ly[0]])  # width axis (heading - 90 deg)

    def _q(self, Q):
        v = Q - self.c
        return np.stack([np.abs(v @ self.lx) - self.hw, np.abs(v @ self.ly) - self.hl], axis=1)

    def member2(self, Q):
        return np.all(self._q(Q) <= 0, axis=1)

    def bdist2(self, Q):
        q = self._q(Q)
        out = np.linalg.norm(np.maximum(q, 0), axis=1)
        return np.where(np.all(q <= 0, axis=1), -np.max(q, axis=1), out)

    def aabb2(self):
        cs = np.array([self.c + sx * self.hw * self.lx + sy * self.hl * self.ly for sx in (-1, 1) for sy in (-1, 1)])
        return cs.min(axis=0), cs.max(axis=0)

    def size(self):
        return 4 * self.hw * self.hl


class GridO(Oracle):
    """Obstacle grid.  The documentation defines membership only: "a point is considered
    to be in a GridRegion if the nearest grid point is not an obstacle" - which does not
    depend on z, so the member set is a column of cells.  Distance / AABB / size /
    dimensionality of the library refer to the discrete grid points instead and are not
    judged (judge_metric = False)."""

    dim = 3
    judge_metric = False
    judge_rel = False  # intersects / containsRegion of the library work on the grid points

    def __init__(self, spec):
        super().__init__(spec)
        self.g = np.array(spec["grid"])
        self.Ax, self.Ay, self.Bx, self.By = (float(spec[k]) for k in ("Ax", "Ay", "Bx", "By"))
        self.ny, self.nx = self.g.shape

    def _cell(self, Q):
        fx = (Q[:, 0] - self.Bx) / self.Ax
        fy = (Q[:, 1] - self.By) / self.Ay
        return fx, fy

    def member(self, P):
        Q = np.asarray(P, float)
        fx, fy = self._cell(Q)
        ix, iy = np.floor(fx + 0.5).astype(int), np.floor(fy + 0.5).astype(int)
        ok = (ix >= 0) & (ix < self.nx) & (iy >= 0) & (iy < self.ny)
        free = np.zeros(len(Q), bool)
        free[ok] = self.g[iy[ok], ix[ok]] == 0
        return free

    def clear(self, P):
        # distance to the nearest cell border (conservative: every border counts)
        fx, fy = self._cell(np.asarray(P, float))
        dx = np.abs((fx + 0.5) - np.round(fx + 0.5)) * self.Ax
        dy = np.abs((fy + 0.5) - np.round(fy + 0.5)) * self.Ay
        return np.minimum(dx, dy)

    def aabb(self):
        ys, xs = np.where(self.g == 0)
        lo = np.array([self.Bx + (xs.min() - 0.5) * self.Ax, self.By + (ys.min() - 0.5) * self.Ay, -INF])
        hi = np.array([self.Bx + (xs.max() + 0.5) * self.Ax, self.By + (ys.max() + 0.5) * self.Ay, INF])
        return lo, hi

    def on_probes(self):
        ys, xs = np.where(self.g == 0)
        return np.stack([self.Bx + xs * self.Ax, self.By + ys * self.Ay, np.zeros(len(xs))], axis=1)


class FootprintO(Oracle):
    """Polygon extruded infinitely up and down."""

    dim = 3

    def __init__(self, spec):
        super().__init__(spec)
        self.rings = [spec["exterior"]] + list(spec.get("holes", []))
        self.a, self.b = rings_segments(self.rings)

    def member(self, P):
        return in_rings(np.asarray(P, float)[:, :2], self.rings)

    def clear(self, P):
        return seg_dist(np.asarray(P, float)[:, :2], self.a, self.b).min(axis=1)

    def dist(self, P):
        return np.where(self.member(P), 0.0, self.clear(P))

    def aabb(self):
        e = np.array([p[:2] for p in self.spec["exterior"]], float)
        lo, hi = e.min(axis=0), e.max(axis=0)
        return np.array([lo[0], lo[1], -INF]), np.array([hi[0], hi[1], INF])

    def size(self):
        return INF


class LinesO(Oracle):
    """Polyline (2-D, locked at z = 0) and 3-D path: union of segments."""

    dim = 1

    def __init__(self, spec):
        super().__init__(spec)
        if spec["kind"] == "polyline":
            chains = [[(p[0], p[1], 0.0) for p in spec["points"]]]
            self.plane_z = 0.0
            self.z_locked = True
        else:
            chains = [[tuple(p) for p in ch] for ch in (spec.get("polylines") or [spec["points"]])]
        self.chains = [np.array(c, float) for c in chains]
        self.a = np.concatenate([c[:-1] for c in self.chains])
        self.b = np.concatenate([c[1:] for c in self.chains])
        self.verts = np.concatenate(self.chains)
        self.tol = 1e-9

    def _d(self, P):
        return seg_dist(P, self.a, self.b).min(axis=1)

    def member(self, P):
        return self._d(P) <= self.tol

    def dist(self, P):
        d = self._d(P)
        return np.where(d <= self.tol, 0.0, d)

    def clear(self, P):
        # the library tests membership of polylines with exact predicates: only probes
        # lying exactly (d == 0 in floating point) on a segment count as clear members
        d = self._d(P)
        P = np.asarray(P, float)
        dv = np.linalg.norm(P[:, None, :] - self.verts[None], axis=2).min(axis=1)
        return np.where(d == 0.0, dv, np.where(d <= self.tol, 0.0, d))

    def aabb(self):
        return self.verts.min(axis=0), self.verts.max(axis=0)

    def size(self):
        return float(np.linalg.norm(self.b - self.a, axis=1).sum())

    def on_probes(self):
        # exactly representable when the vertices are dyadic rationals
        ts = (0.25, 0.5, 0.75)
        return np.array([a + t * (b - a) for a, b in zip(self.a, self.b) for t in ts])


class PointsO(Oracle):
    dim = 0

    def __init__(self, spec):
        super().__init__(spec)
        self.pts = np.array([(p[0], p[1], p[2] if len(p) > 2 else 0.0) for p in spec["points"]], float)
        self.tol = 1e-9

    def _d(self, P):
        return np.linalg.norm(np.asarray(P, float)[:, None, :] - self.pts[None], axis=2).min(axis=1)

    def member(self, P):
        return self._d(P) <= self.tol

    def dist(self, P):
        d = self._d(P)
        return np.where(d <= self.tol, 0.0, d)

    def clear(self, P):
        d = self._d(P)
        return np.where(d <= self.tol, INF, d)

    def aabb(self):
        return self.pts.min(axis=0), self.pts.max(axis=0)

    def size(self):
        return float(len(self.pts))

    def on_probes(self):
        return self.pts.copy()


_KINDS = {
    "box": BoxO,
    "spheroid": SpheroidO,
    "mesh": MeshO,
    "polygon": PolygonO,
    "circle": CircleO,
    "sector": SectorO,
    "rect": RectO,
    "grid": GridO,
    "footprint": FootprintO,
    "polyline": LinesO,
    "path": LinesO,
    "pset": PointsO,
}


def oracle(spec):
    return _KINDS[spec["kind"]](spec)


# ----------------------------------------------------------------------------------
# spec transformations (used to build overlapping / separated configurations)
# ----------------------------------------------------------------------------------
def shifted(spec, dx=0.0, dy=0.0, dz=0.0):
    """Translate a shape spec; dz is ignored for the kinds locked at z = 0."""
    s = dict(spec)
    k = s["kind"]

    def mv(p):
        p = list(p)
        out = [p[0] + dx, p[1] + dy]
        if len(p) > 2:
            out.append(p[2] + dz)
        return out

    if k in ("box", "spheroid", "mesh", "rect"):
        s["pos"] = mv(s["pos"])
    elif k in ("circle", "sector"):
        s["center"] = mv(s["center"])
    elif k == "polygon":
        s["exterior"] = [mv(p) for p in s["exterior"]]
        s["holes"] = [[mv(p) for p in h] for h in s.get("holes", [])]
        s["z"] = s["z"] + dz
    elif k == "footprint":
        s["exterior"] = [mv(p) for p in s["exterior"]]
        s["holes"] = [[mv(p) for p in h] for h in s.get("holes", [])]
    elif k == "polyline":
        s["points"] = [mv(p) for p in s["points"]]
    elif k == "path":
        if s.get("polylines"):
            s["polylines"] = [[mv(p) for p in ch] for ch in s["polylines"]]
        else:
            s["points"] = [mv(p) for p in s["points"]]
    elif k == "pset":
        s["points"] = [mv(list(p) + [0.0] * (3 - len(p))) for p in s["points"]]
    elif k == "grid":
        s["Bx"] = s["Bx"] + dx
        s["By"] = s["By"] + dy
    else:
        raise ValueError(k)
    return s


def with_z(spec, z):
    """Put a planar (non-locked) spec exactly at height z."""
    s = dict(spec)
    k = s["kind"]
    if k == "polygon":
        s["z"] = z
    elif k in ("circle", "sector"):
        s["center"] = [s["center"][0], s["center"][1], z]
    elif k == "rect":
        s["pos"] = [s["pos"][0], s["pos"][1], z]
    return s


def selftest():
    """Cheap sanity checks of the oracle against closed forms (harness-side)."""
    V, F = voxel_mesh([(0, 0, 0), (1, 0, 0), (2, 0, 0), (0, 1, 0), (2, 1, 0)])
    tri = V[F]
    assert abs(mesh_volume(tri) - 5.0) < 1e-12
    P = np.array([[0.5, 0.5, 0.5], [1.5, 1.5, 0.5], [2.5, 1.5, 0.5], [1.5, 0.5, 0.5], [5, 5, 5]])
    ins, rel = mesh_inside(P, tri)
    assert list(ins) == [True, False, True, True, False] and rel.all()
    d = tri_dist(np.array([[1.5, 1.5, 0.5], [1.5, 3.0, 0.5]]), tri)
    assert abs(d[0] - 0.5) < 1e-12 and abs(d[1] - math.hypot(0.5, 1.0)) < 1e-12
    b = BoxO({"pos": [0, 0, 0], "dims": [2, 4, 6], "ypr": [0, 0, 0]})
    assert abs(b.dist(np.array([[2.0, 3.0, 0.0]]))[0] - math.hypot(1, 1)) < 1e-12
    s = SectorO({"center": [0, 0, 1], "r": 2.0, "heading": 0.0, "angle": math.pi / 2})
    assert list(s.member2(np.array([[0.0, 1.0], [1.5, 0.2], [-0.5, 1.0], [0.0, 2.5]]))) == [True, False, True, False]
    Vi, Fi = icosphere(2)
    assert abs(mesh_volume(Vi[Fi]) - 4.19) < 0.15
    return True
