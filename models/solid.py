"""models/solid.py -- exact/robust solid-geometry oracle on raw vertex/face arrays (C04).

Everything here works on plain numpy arrays (V: (n,3) float64, F: (m,3) int) and is
independent of Scenic, trimesh, FCL and shapely.  (scipy is used only for a k-d tree that
supplies an *upper bound* used for culling, and for connected components.)

For two closed triangle meshes A, B (each the boundary of a solid, possibly with several
bodies and internal cavities):

* surface distance  g = min over (vertex,triangle) and (edge,edge) pairs        [exact]
* if g > tol the surfaces are disjoint; the solids overlap iff some connected surface
  component of one lies inside the other (point-in-polyhedron by ray parity with a robust
  choice of ray; an independent winding-number implementation is provided for cross-checks)
* if g <= tol the surfaces touch or cross; we then look for *robust witnesses*:
  a vertex of one strictly inside / outside the other by more than tol, or an edge of one
  piercing a triangle of the other with all margins larger than tol.  Without a witness the
  configuration is "touching" (None) and must be skipped by the caller.

Analytic membership predicates for the unit shapes (box, ellipsoid, cylinder, cone, unions of
boxes, polygon prisms) are provided as an additional cross-check of the mesh predicates.
"""

from __future__ import annotations

import math

import numpy as np

TOL = 1e-4  # |margin| below this: "touching", never judged


# ------------------------------------------------------------------------------------------
# elementary vectorised primitives (row-wise on (k,3) arrays)
# ------------------------------------------------------------------------------------------
def _dot(a, b):
    return np.einsum("...i,...i->...", a, b)


def point_segment_dist(p, a, b):
    """Row-wise distance from points p to segments [a,b]."""
    ab = b - a
    den = _dot(ab, ab)
    t = np.where(den > 0, _dot(p - a, ab) / np.where(den > 0, den, 1.0), 0.0)
    t = np.clip(t, 0.0, 1.0)
    c = a + t[..., None] * ab
    return np.linalg.norm(p - c, axis=-1)


def point_triangle_dist(p, a, b, c):
    """Row-wise distance from points p to triangles (a,b,c).

    = min(distance to the three edges, distance to the plane if the projection falls inside).
    """
    d = np.minimum(point_segment_dist(p, a, b), point_segment_dist(p, b, c))
    d = np.minimum(d, point_segment_dist(p, c, a))
    n = np.cross(b - a, c - a)
    nn = _dot(n, n)
    ok = nn > 0
    nn1 = np.where(ok, nn, 1.0)
    ap = p - a
    # barycentric coordinates of the projection (times nn)
    w_c = _dot(np.cross(b - a, ap), n)
    w_b = _dot(np.cross(ap, c - a), n)
    w_a = nn - w_b - w_c
    inside = ok & (w_a >= 0) & (w_b >= 0) & (w_c >= 0)
    plane = np.abs(_dot(ap, n)) / np.sqrt(nn1)
    return np.where(inside, np.minimum(plane, d), d)


def segment_segment_dist(p1, q1, p2, q2):
    """Row-wise distance between segments [p1,q1] and [p2,q2].

    = min(4 endpoint-segment distances, line-line distance when the mutual perpendicular
    foot points are interior to both segments)."""
    d = np.minimum(point_segment_dist(p1, p2, q2), point_segment_dist(q1, p2, q2))
    d = np.minimum(d, point_segment_dist(p2, p1, q1))
    d = np.minimum(d, point_segment_dist(q2, p1, q1))
    d1 = q1 - p1
    d2 = q2 - p2
    r = p1 - p2
    a = _dot(d1, d1)
    e = _dot(d2, d2)
    b = _dot(d1, d2)
    c = _dot(d1, r)
    f = _dot(d2, r)
    den = a * e - b * b
    ok = den > 1e-14 * a * e
    den1 = np.where(ok, den, 1.0)
    s = (b * f - c * e) / den1
    t = (a * f - b * c) / den1
    interior = ok & (s > 0) & (s < 1) & (t > 0) & (t < 1)
    c1 = p1 + s[..., None] * d1
    c2 = p2 + t[..., None] * d2
    dl = np.linalg.norm(c1 - c2, axis=-1)
    return np.where(interior, np.minimum(dl, d), d)


def segment_triangle_pierce(p, q, a, b, c):
    """Row-wise: does the open segment (p,q) cross the interior of triangle (a,b,c)?

    Returns (crosses, margin): margin = min(distance of both endpoints from the plane,
    distance of the piercing point from the three edges); 0 where there is no crossing."""
    n = np.cross(b - a, c - a)
    nn = np.linalg.norm(n, axis=-1)
    ok = nn > 0
    nn1 = np.where(ok, nn, 1.0)
    dp = _dot(p - a, n) / nn1
    dq = _dot(q - a, n) / nn1
    cross = ok & (dp * dq < 0)
    den = np.where(cross, dp - dq, 1.0)
    x = p + (dp / den)[..., None] * (q - p)
    nu = n / nn1[..., None]
    wa = _dot(np.cross(b - x, c - x), nu)
    wb = _dot(np.cross(c - x, a - x), nu)
    wc = _dot(np.cross(a - x, b - x), nu)
    la = np.linalg.norm(c - b, axis=-1)
    lb = np.linalg.norm(a - c, axis=-1)
    lc = np.linalg.norm(b - a, axis=-1)
    ea = wa / np.where(la > 0, la, 1.0)
    eb = wb / np.where(lb > 0, lb, 1.0)
    ec = wc / np.where(lc > 0, lc, 1.0)
    inside = cross & (wa > 0) & (wb > 0) & (wc > 0)
    m = np.minimum(np.minimum(np.abs(dp), np.abs(dq)), np.minimum(ea, np.minimum(eb, ec)))
    return inside, np.where(inside, m, 0.0)


# ------------------------------------------------------------------------------------------
# meshes
# ------------------------------------------------------------------------------------------
def unique_edges(F):
    e = np.concatenate([F[:, [0, 1]], F[:, [1, 2]], F[:, [2, 0]]])
    e = np.sort(e, axis=1)
    return np.unique(e, axis=0)


def surface_components(V, F):
    """Connected components of the surface (faces joined through coincident vertices).
    Returns one representative vertex index per component."""
    from scipy.sparse import coo_matrix
    from scipy.sparse.csgraph import connected_components

    key = np.round(V / 1e-9).astype(np.int64)
    _, inv = np.unique(key, axis=0, return_inverse=True)
    inv = np.asarray(inv).reshape(-1)
    f = inv[F]
    n = int(inv.max()) + 1
    rows = np.concatenate([f[:, 0], f[:, 1]])
    cols = np.concatenate([f[:, 1], f[:, 2]])
    g = coo_matrix((np.ones(len(rows)), (rows, cols)), shape=(n, n))
    nc, lab = connected_components(g, directed=False)
    used = np.zeros(n, bool)
    used[f.reshape(-1)] = True
    reps = []
    for c in range(nc):
        idx = np.nonzero((lab == c) & used)[0]
        if len(idx) == 0:
            continue
        merged = idx[0]
        reps.append(int(np.nonzero(inv == merged)[0][0]))
    return reps


class Solid:
    """A closed triangle mesh with cached derived arrays."""

    __slots__ = ("V", "F", "E", "reps", "lo", "hi", "_T")

    def __init__(self, V, F, E=None, reps=None):
        self.V = np.ascontiguousarray(V, dtype=np.float64)
        self.F = np.ascontiguousarray(F, dtype=np.int64)
        self.E = unique_edges(self.F) if E is None else E
        self.reps = surface_components(self.V, self.F) if reps is None else reps
        self.lo = self.V.min(axis=0)
        self.hi = self.V.max(axis=0)
        self._T = None

    @property
    def T(self):
        if self._T is None:
            self._T = self.V[self.F]
        return self._T

    def translated(self, t):
        return Solid(self.V + np.asarray(t, float), self.F, self.E, self.reps)

    def volume(self):
        T = self.T
        return float(np.sum(_dot(T[:, 0], np.cross(T[:, 1], T[:, 2]))) / 6.0)


def _aabb_gap(lo1, hi1, lo2, hi2):
    """Lower bound on the distance between boxes (broadcasting)."""
    g = np.maximum(np.maximum(lo1 - hi2, lo2 - hi1), 0.0)
    return np.sqrt(_dot(g, g))


_PAIR_CHUNK = 400_000


def _pairs_min(func, idx_a, idx_b, getter):
    """min of func over the given index pairs, evaluated in chunks."""
    best = math.inf
    for s in range(0, len(idx_a), _PAIR_CHUNK):
        ia = idx_a[s : s + _PAIR_CHUNK]
        ib = idx_b[s : s + _PAIR_CHUNK]
        v = func(*getter(ia, ib))
        if len(v):
            best = min(best, float(v.min()))
    return best


def _candidate_pairs(lo1, hi1, lo2, hi2, ub):
    """Index pairs (i,j) whose boxes are closer than ub (row-chunked broadcasting)."""
    n1, n2 = len(lo1), len(lo2)
    if n1 == 0 or n2 == 0:
        return np.zeros(0, np.int64), np.zeros(0, np.int64)
    out_i, out_j = [], []
    step = max(1, 600_000 // max(1, n2))
    for s in range(0, n1, step):
        g = _aabb_gap(lo1[s : s + step, None, :], hi1[s : s + step, None, :], lo2[None], hi2[None])
        i, j = np.nonzero(g <= ub)
        out_i.append(i + s)
        out_j.append(j)
    return np.concatenate(out_i), np.concatenate(out_j)


def surface_distance(A: Solid, B: Solid):
    """Exact minimum distance between the two triangulated surfaces (0 if they cross is NOT
    guaranteed: crossing surfaces have distance 0 only through an edge-triangle crossing, which
    is an edge-edge or vertex-triangle distance of 0 only in the limit; callers must combine this
    with `pierce_margin`).  In practice: crossing surfaces => returned value may be positive
    but then pierce_margin > 0."""
    from scipy.spatial import cKDTree

    # upper bound from vertex-vertex distances
    tree = cKDTree(B.V)
    dmin, _ = tree.query(A.V)
    ub = float(dmin.min()) * (1 + 1e-12) + 1e-15

    TA, TB = A.T, B.T
    tloA, thiA = TA.min(axis=1), TA.max(axis=1)
    tloB, thiB = TB.min(axis=1), TB.max(axis=1)

    best = ub
    # vertices of A vs triangles of B
    selv = np.nonzero(_aabb_gap(A.V, A.V, B.lo, B.hi) <= best)[0]
    selt = np.nonzero(_aabb_gap(tloB, thiB, A.lo, A.hi) <= best)[0]
    i, j = _candidate_pairs(A.V[selv], A.V[selv], tloB[selt], thiB[selt], best)
    if len(i):
        best = min(best, _pairs_min(point_triangle_dist, selv[i], selt[j], lambda ia, ib: (A.V[ia], TB[ib, 0], TB[ib, 1], TB[ib, 2])))
    # vertices of B vs triangles of A
    selv = np.nonzero(_aabb_gap(B.V, B.V, A.lo, A.hi) <= best)[0]
    selt = np.nonzero(_aabb_gap(tloA, thiA, B.lo, B.hi) <= best)[0]
    i, j = _candidate_pairs(B.V[selv], B.V[selv], tloA[selt], thiA[selt], best)
    if len(i):
        best = min(best, _pairs_min(point_triangle_dist, selv[i], selt[j], lambda ia, ib: (B.V[ia], TA[ib, 0], TA[ib, 1], TA[ib, 2])))
    # edges vs edges
    pa, qa = A.V[A.E[:, 0]], A.V[A.E[:, 1]]
    pb, qb = B.V[B.E[:, 0]], B.V[B.E[:, 1]]
    eloA, ehiA = np.minimum(pa, qa), np.maximum(pa, qa)
    eloB, ehiB = np.minimum(pb, qb), np.maximum(pb, qb)
    sa = np.nonzero(_aabb_gap(eloA, ehiA, B.lo, B.hi) <= best)[0]
    sb = np.nonzero(_aabb_gap(eloB, ehiB, A.lo, A.hi) <= best)[0]
    i, j = _candidate_pairs(eloA[sa], ehiA[sa], eloB[sb], ehiB[sb], best)
    if len(i):
        best = min(best, _pairs_min(segment_segment_dist, sa[i], sb[j], lambda ia, ib: (pa[ia], qa[ia], pb[ib], qb[ib])))
    return best


def pierce_margin(A: Solid, B: Solid):
    """Largest robust margin of an edge of one mesh piercing a triangle of the other (0: none)."""
    best = 0.0
    for X, Y in ((A, B), (B, A)):
        p, q = X.V[X.E[:, 0]], X.V[X.E[:, 1]]
        elo, ehi = np.minimum(p, q), np.maximum(p, q)
        T = Y.T
        tlo, thi = T.min(axis=1), T.max(axis=1)
        se = np.nonzero(_aabb_gap(elo, ehi, Y.lo, Y.hi) <= 0)[0]
        st = np.nonzero(_aabb_gap(tlo, thi, X.lo, X.hi) <= 0)[0]
        i, j = _candidate_pairs(elo[se], ehi[se], tlo[st], thi[st], 0.0)
        for s in range(0, len(i), _PAIR_CHUNK):
            ie, it = se[i[s : s + _PAIR_CHUNK]], st[j[s : s + _PAIR_CHUNK]]
            _, m = segment_triangle_pierce(p[ie], q[ie], T[it, 0], T[it, 1], T[it, 2])
            if len(m):
                best = max(best, float(m.max()))
    return best


# ------------------------------------------------------------------------------------------
# point in polyhedron
# ------------------------------------------------------------------------------------------
def _unit(v):
    v = np.asarray(v, float)
    return v / np.linalg.norm(v)


# fixed, generic directions (no symmetry with axis-aligned or 45-degree faces)
_RAYS = [
    _unit(v)
    for v in (
        (0.5377, 0.3129, 0.7834),
        (-0.2713, 0.8312, 0.4853),
        (0.7193, -0.6124, 0.3277),
        (-0.6831, -0.2467, 0.6874),
        (0.1931, 0.4417, -0.8761),
        (-0.4142, 0.5773, -0.7036),
        (0.8911, 0.2113, -0.4015),
        (0.3017, -0.9081, -0.2906),
    )
]


def points_in_mesh(P, S: Solid, scale=None):
    """Ray-parity point-in-polyhedron test.

    Returns an int8 array: 1 inside, 0 outside, -1 undecided (point on/near the surface, or
    every candidate ray grazes an edge/vertex).  A ray is *accepted* for a point only if every
    triangle it meets is met well inside (barycentric margin) and not at its origin."""
    P = np.atleast_2d(np.asarray(P, float))
    res = np.full(len(P), -1, np.int8)
    if len(P) == 0:
        return res
    T = S.T
    a = T[:, 0]
    e1 = T[:, 1] - a
    e2 = T[:, 2] - a
    size = float(np.linalg.norm(S.hi - S.lo)) if scale is None else scale
    tb = 1e-7  # barycentric margin
    tt = 1e-9 * max(size, 1.0)  # origin margin along the ray
    # points outside the bounding box are outside
    outside_bb = np.any((P < S.lo - tt) | (P > S.hi + tt), axis=1)
    res[outside_bb] = 0
    pending = np.nonzero(~outside_bb)[0]
    area2 = np.linalg.norm(np.cross(e1, e2), axis=1)
    for d in _RAYS:
        if len(pending) == 0:
            break
        pvec = np.cross(d, e2)
        det = _dot(e1, pvec)
        # triangles (nearly) parallel to the ray are never crossed transversally; a ray lying in
        # such a plane is rejected below through the "graze" test on the other triangles' edges
        par = np.abs(det) < 1e-9 * np.where(area2 > 0, area2, 1.0)
        det1 = np.where(par, 1.0, det)
        nxt = []
        step = max(1, 300_000 // max(1, len(T)))
        for s in range(0, len(pending), step):
            idx = pending[s : s + step]
            tv = P[idx][:, None, :] - a[None]
            u = _dot(tv, pvec[None]) / det1
            qv = np.cross(tv, e1[None])
            v = (qv @ d) / det1
            t = _dot(qv, e2[None]) / det1
            w = 1.0 - u - v
            hit = (u > tb) & (v > tb) & (w > tb) & (t > tt) & ~par
            near = (u > -tb) & (v > -tb) & (w > -tb) & (t > -tt) & ~hit & ~par
            # parallel triangles: graze if the point is (almost) in the plane and the ray meets it
            if par.any():
                nrm = np.cross(e1[par], e2[par])
                nl = np.linalg.norm(nrm, axis=1)
                nrm = nrm / np.where(nl > 0, nl, 1.0)[:, None]
                dist = np.abs(_dot(tv[:, par, :], nrm[None]))
                graze_par = (dist < 1e-7 * max(size, 1.0)).any(axis=1)
            else:
                graze_par = np.zeros(len(idx), bool)
            amb = near.any(axis=1) | graze_par
            cnt = hit.sum(axis=1)
            good = ~amb
            res[idx[good]] = (cnt[good] % 2).astype(np.int8)
            nxt.append(idx[amb])
        pending = np.concatenate(nxt) if nxt else np.zeros(0, np.int64)
    return res


def winding_number(P, S: Solid):
    """Generalised winding number (sum of signed solid angles / 4 pi): ~1 inside, ~0 outside.
    Independent of `points_in_mesh` (no rays); used for cross-checks."""
    P = np.atleast_2d(np.asarray(P, float))
    T = S.T
    out = np.zeros(len(P))
    step = max(1, 300_000 // max(1, len(T)))
    for s in range(0, len(P), step):
        p = P[s : s + step]
        a = T[None, :, 0] - p[:, None]
        b = T[None, :, 1] - p[:, None]
        c = T[None, :, 2] - p[:, None]
        la = np.linalg.norm(a, axis=-1)
        lb = np.linalg.norm(b, axis=-1)
        lc = np.linalg.norm(c, axis=-1)
        num = _dot(a, np.cross(b, c))
        den = la * lb * lc + _dot(a, b) * lc + _dot(a, c) * lb + _dot(b, c) * la
        out[s : s + step] = np.sum(2.0 * np.arctan2(num, den), axis=1) / (4.0 * math.pi)
    return out


def point_surface_dist(P, S: Solid):
    """Distance from each point to the surface of S (exact, culled)."""
    from scipy.spatial import cKDTree

    P = np.atleast_2d(np.asarray(P, float))
    if len(P) == 0:
        return np.zeros(0)
    T = S.T
    tlo, thi = T.min(axis=1), T.max(axis=1)
    ub, _ = cKDTree(S.V).query(P)
    out = ub.copy()
    step = max(1, 400_000 // max(1, len(T)))
    for s in range(0, len(P), step):
        p = P[s : s + step]
        g = _aabb_gap(p[:, None, :], p[:, None, :], tlo[None], thi[None])
        i, j = np.nonzero(g <= ub[s : s + step, None] * (1 + 1e-12) + 1e-15)
        if len(i) == 0:
            continue
        d = point_triangle_dist(p[i], T[j, 0], T[j, 1], T[j, 2])
        m = np.full(len(p), np.inf)
        np.minimum.at(m, i, d)
        out[s : s + step] = np.minimum(out[s : s + step], m)
    return out


def vertex_witnesses(X: Solid, Y: Solid, tol=TOL):
    """(w_in, w_out): the largest distance to Y's surface among vertices of X that are strictly
    inside / strictly outside Y (0 if none farther than tol)."""
    V = X.V
    gap = _aabb_gap(V, V, Y.lo, Y.hi)
    w_out = float(gap.max()) if len(gap) else 0.0
    cand = np.nonzero(gap <= 0)[0]
    w_in = 0.0
    if len(cand):
        d = point_surface_dist(V[cand], Y)
        far = d > tol
        if far.any():
            st = points_in_mesh(V[cand][far], Y)
            dd = d[far]
            if (st == 1).any():
                w_in = float(dd[st == 1].max())
            if (st == 0).any():
                w_out = max(w_out, float(dd[st == 0].max()))
    return (w_in if w_in > tol else 0.0), (w_out if w_out > tol else 0.0)


# ------------------------------------------------------------------------------------------
# relation between two solids
# ------------------------------------------------------------------------------------------
class Relation:
    """Result of `relate(A, B)`.

    surface_gap   exact distance between the surfaces (meaningful if > tol)
    overlap       True / False / None (touching: do not judge)
    margin        > 0: true gap between disjoint solids; < 0: minus the witness depth of the
                  overlap; None if touching
    b_in_a        True / False / None: is B wholly inside A
    b_in_a_margin clearance (if inside) or size of the witness that it is not (if False)
    a_in_b, a_in_b_margin   symmetric
    """

    __slots__ = ("surface_gap", "overlap", "margin", "b_in_a", "b_in_a_margin", "a_in_b", "a_in_b_margin", "crossing", "b_comps_in", "a_comps_in")

    def as_dict(self):
        return {k: getattr(self, k) for k in self.__slots__}


def relate(A: Solid, B: Solid, tol=TOL, need_containment=True) -> Relation:
    r = Relation()
    g = surface_distance(A, B)
    # NB: crossing surfaces need not have a small vertex-triangle / edge-edge distance (a long
    # edge through the middle of a big triangle), so piercing is always tested
    pm = pierce_margin(A, B)
    r.surface_gap = g
    r.crossing = pm > 0
    r.b_comps_in = r.a_comps_in = None  # per surface component: nested in the other solid?
    if g > tol and pm == 0.0:
        b_in = points_in_mesh(B.V[B.reps], A)
        a_in = points_in_mesh(A.V[A.reps], B)
        if (b_in < 0).any() or (a_in < 0).any():
            # representative vertex undecidable although the surfaces are > tol apart:
            # fall back to the winding number (robust away from the surface)
            wb = winding_number(B.V[B.reps], A)
            wa = winding_number(A.V[A.reps], B)
            b_in = (np.abs(wb) > 0.5).astype(np.int8)
            a_in = (np.abs(wa) > 0.5).astype(np.int8)
        nested = bool(b_in.any() or a_in.any())
        r.b_comps_in = [bool(x) for x in b_in]
        r.a_comps_in = [bool(x) for x in a_in]
        r.overlap = nested
        r.margin = -g if nested else g
        r.b_in_a = bool(b_in.all() and not a_in.any())
        r.a_in_b = bool(a_in.all() and not b_in.any())
        r.b_in_a_margin = g
        r.a_in_b_margin = g
        return r
    # surfaces touch or cross: look for robust witnesses
    win_ba, wout_ba = vertex_witnesses(B, A, tol)
    win_ab, wout_ab = vertex_witnesses(A, B, tol)
    depth = max(win_ba, win_ab, pm)
    if depth > tol:
        r.overlap = True
        r.margin = -depth
    else:
        r.overlap = None
        r.margin = None
    nb = max(wout_ba, win_ab, pm)
    r.b_in_a = False if nb > tol else None
    r.b_in_a_margin = nb
    na = max(wout_ab, win_ba, pm)
    r.a_in_b = False if na > tol else None
    r.a_in_b_margin = na
    return r


def advance_to_gap(A: Solid, B: Solid, start, direction, target, max_iter=60, eps=1e-9, max_travel=1e3):
    """Conservative advancement: translate B from `start` along `direction` (unit vector, the
    motion reduces the distance at most at unit speed) until the surface distance equals
    `target`.  Returns the travelled length (>= 0) or None if B starts closer than target."""
    d = np.asarray(direction, float)
    s = 0.0
    g = surface_distance(A, B.translated(np.asarray(start, float)))
    if g < target:
        return None
    for _ in range(max_iter):
        step = g - target
        if step <= eps:
            break
        s += step
        g = surface_distance(A, B.translated(np.asarray(start, float) + s * d))
        if g < target - 1e-7:
            # numerical overshoot cannot happen for exact distances; be safe
            s -= step
            break
        if s > max_travel:
            return None
    return s


# ------------------------------------------------------------------------------------------
# analytic membership (unit shapes in their local frame, all centred, extents 1x1x1)
# ------------------------------------------------------------------------------------------
def to_local(P, pos, R, dims):
    """World points -> unit-shape frame: world = R @ (dims * local) + pos."""
    return ((np.asarray(P, float) - np.asarray(pos, float)) @ np.asarray(R, float)) / np.asarray(dims, float)


def rotation_zxy(yaw, pitch, roll):
    """Scenic's documented convention: intrinsic rotations, yaw about Z, then pitch about X,
    then roll about Y (angles counter-clockwise, radians)."""
    cz, sz = math.cos(yaw), math.sin(yaw)
    cx, sx = math.cos(pitch), math.sin(pitch)
    cy, sy = math.cos(roll), math.sin(roll)
    Rz = np.array([[cz, -sz, 0], [sz, cz, 0], [0, 0, 1.0]])
    Rx = np.array([[1.0, 0, 0], [0, cx, -sx], [0, sx, cx]])
    Ry = np.array([[cy, 0, sy], [0, 1.0, 0], [-sy, 0, cy]])
    return Rz @ Rx @ Ry


def in_unit_box(L, k=1.0):
    return np.all(np.abs(L) <= 0.5 * k, axis=-1)


def in_unit_ellipsoid(L, k=1.0):
    return _dot(L, L) <= (0.5 * k) ** 2


def in_unit_cylinder(L, k=1.0):
    return (L[..., 0] ** 2 + L[..., 1] ** 2 <= (0.5 * k) ** 2) & (np.abs(L[..., 2]) <= 0.5 * k)


def in_unit_cone(L, k=1.0):
    """Apex at z=+0.5, base disc of radius 0.5 at z=-0.5 (trimesh.creation.cone, centred)."""
    z = L[..., 2] / k
    r = np.sqrt(L[..., 0] ** 2 + L[..., 1] ** 2) / k
    return (z >= -0.5) & (z <= 0.5) & (r <= 0.5 * (0.5 - z))


def in_box_union(L, boxes, k=1.0):
    """boxes: list of (lo, hi) in the unit frame; k scales each box about its own centre."""
    res = np.zeros(L.shape[:-1], bool)
    for lo, hi in boxes:
        lo = np.asarray(lo, float)
        hi = np.asarray(hi, float)
        c = (lo + hi) / 2
        h = (hi - lo) / 2 * k
        res |= np.all(np.abs(L - c) <= h, axis=-1)
    return res


def point_in_polygon2d(xy, ring):
    """Even-odd test for points against a closed ring (list of (x,y))."""
    xy = np.asarray(xy, float)
    ring = np.asarray(ring, float)
    x, y = xy[..., 0], xy[..., 1]
    inside = np.zeros(x.shape, bool)
    n = len(ring)
    for i in range(n):
        x1, y1 = ring[i]
        x2, y2 = ring[(i + 1) % n]
        cond = (y1 > y) != (y2 > y)
        with np.errstate(divide="ignore", invalid="ignore"):
            xint = x1 + (y - y1) * (x2 - x1) / (y2 - y1)
        inside ^= cond & (x < xint)
    return inside


def in_prism(P, outer, holes, z0, z1):
    P = np.asarray(P, float)
    ok = point_in_polygon2d(P[..., :2], outer) & (P[..., 2] >= z0) & (P[..., 2] <= z1)
    for h in holes:
        ok &= ~point_in_polygon2d(P[..., :2], h)
    return ok


# ------------------------------------------------------------------------------------------
# mesh construction (harness side, independent of trimesh)
# ------------------------------------------------------------------------------------------
def _area2(ring):
    r = np.asarray(ring, float)
    x, y = r[:, 0], r[:, 1]
    return float(np.sum(x * np.roll(y, -1) - np.roll(x, -1) * y))


def triangulate_simple_polygon(ring):
    """Ear clipping of a simple polygon (counter-clockwise ring, no repeated last point)."""
    r = np.asarray(ring, float)
    if _area2(r) <= 0:
        raise ValueError("ring must be counter-clockwise")
    idx = list(range(len(r)))
    tris = []

    def cross(o, a, b):
        return (a[0] - o[0]) * (b[1] - o[1]) - (a[1] - o[1]) * (b[0] - o[0])

    guard = 0
    while len(idx) > 3:
        guard += 1
        if guard > 10_000:
            raise ValueError("ear clipping failed")
        n = len(idx)
        for k in range(n):
            i0, i1, i2 = idx[(k - 1) % n], idx[k], idx[(k + 1) % n]
            a, b, c = r[i0], r[i1], r[i2]
            if cross(a, b, c) <= 1e-14:
                continue
            ear = True
            for j in idx:
                if j in (i0, i1, i2):
                    continue
                p = r[j]
                if cross(a, b, p) >= -1e-14 and cross(b, c, p) >= -1e-14 and cross(c, a, p) >= -1e-14:
                    ear = False
                    break
            if ear:
                tris.append((i0, i1, i2))
                idx.pop(k)
                break
        else:
            raise ValueError("no ear found")
    tris.append(tuple(idx))
    return np.array(tris, np.int64)


def prism_mesh(ring, z0, z1):
    """Closed, outward-oriented triangle mesh of ring x [z0,z1] (ring counter-clockwise)."""
    r = np.asarray(ring, float)
    n = len(r)
    tri = triangulate_simple_polygon(r)
    V = np.concatenate([np.column_stack([r, np.full(n, z0)]), np.column_stack([r, np.full(n, z1)])])
    F = []
    for a, b, c in tri:
        F.append((a, c, b))  # bottom, facing -z
        F.append((a + n, b + n, c + n))  # top, facing +z
    for i in range(n):
        j = (i + 1) % n
        F.append((i, j, j + n))
        F.append((i, j + n, i + n))
    return V, np.array(F, np.int64)


def box_mesh(lo, hi):
    lo = np.asarray(lo, float)
    hi = np.asarray(hi, float)
    ring = [(lo[0], lo[1]), (hi[0], lo[1]), (hi[0], hi[1]), (lo[0], hi[1])]
    return prism_mesh(ring, lo[2], hi[2])


def concat_meshes(parts):
    Vs, Fs, off = [], [], 0
    for V, F in parts:
        Vs.append(np.asarray(V, float))
        Fs.append(np.asarray(F, np.int64) + off)
        off += len(V)
    return np.concatenate(Vs), np.concatenate(Fs)


# ------------------------------------------------------------------------------------------
# composite containers: conjunction of "inside mesh" (+) and "disjoint from mesh" (-) terms
# ------------------------------------------------------------------------------------------
def contained_in_terms(B: Solid, terms, tol=TOL):
    """terms: list of (Solid, +1 | -1).  Returns (verdict, margin, detail):
    verdict True (B inside every + term and disjoint from every - term, all clearances > tol),
    False (a robust witness against one term), None (touching somewhere, no robust witness)."""
    worst_clear = math.inf
    best_witness = 0.0
    unknown = False
    detail = []
    for S, sign in terms:
        rel = relate(S, B, tol)
        if sign > 0:
            v, m = rel.b_in_a, rel.b_in_a_margin
        else:
            v = None if rel.overlap is None else (not rel.overlap)
            m = abs(rel.margin) if rel.margin is not None else 0.0
        detail.append((sign, v, m))
        if v is True:
            worst_clear = min(worst_clear, m)
        elif v is False:
            best_witness = max(best_witness, m)
        else:
            unknown = True
    if best_witness > tol:
        return False, best_witness, detail
    if unknown:
        return None, 0.0, detail
    return True, worst_clear, detail


def frame_mesh(outer, inner, z0, z1):
    """Closed, outward-oriented mesh of a rectangular frame (ring): the rectangle
    outer=(x0,y0,x1,y1) minus the through-hole inner=(x0,y0,x1,y1), extruded over [z0,z1].
    One body, genus 1; the centre of its bounding box is in the hole."""
    ox0, oy0, ox1, oy1 = outer
    ix0, iy0, ix1, iy1 = inner
    o = [(ox0, oy0), (ox1, oy0), (ox1, oy1), (ox0, oy1)]  # ccw
    i = [(ix0, iy0), (ix1, iy0), (ix1, iy1), (ix0, iy1)]  # ccw
    V = []
    for z in (z0, z1):
        V += [(x, y, z) for x, y in o] + [(x, y, z) for x, y in i]
    V = np.array(V, float)
    # indices: bottom outer 0-3, bottom inner 4-7, top outer 8-11, top inner 12-15
    F = []
    for k in range(4):
        k2 = (k + 1) % 4
        ob, ob2, ib, ib2 = k, k2, 4 + k, 4 + k2
        ot, ot2, it, it2 = 8 + k, 8 + k2, 12 + k, 12 + k2
        # top cap (normal +z): quad ot, ot2, it2, it
        F += [(ot, ot2, it2), (ot, it2, it)]
        # bottom cap (normal -z)
        F += [(ob, ib2, ob2), (ob, ib, ib2)]
        # outer wall (normal outward)
        F += [(ob, ob2, ot2), (ob, ot2, ot)]
        # inner wall (normal towards the hole)
        F += [(ib, it2, ib2), (ib, it, it2)]
    return V, np.array(F, np.int64)


def is_convex(S: Solid, eps=1e-9):
    """Is the solid bounded by this mesh convex?  (every vertex on the inner side of every
    face plane; faces are outward oriented)"""
    T = S.T
    n = np.cross(T[:, 1] - T[:, 0], T[:, 2] - T[:, 0])
    nl = np.linalg.norm(n, axis=1)
    ok = nl > 0
    n = n[ok] / nl[ok, None]
    a = T[ok, 0]
    scale = float(np.linalg.norm(S.hi - S.lo))
    h = (S.V @ n.T) - _dot(a, n)[None, :]
    return bool(h.max() <= eps * max(scale, 1.0))
