"""Byte-level model of Scenic's scene / replay encoding (C18).

Written from the Serializer docstring and the documented structure of the format:
  scene   = u16 version | 4-byte AST hash | 4-byte options hash | sample
  sample  = for every dependency of the scenario, depth first, each random value once:
              deterministic node  -> its dependencies
              multiplexer         -> its index, then ONLY the chosen option
              primitive node      -> one value of its valueType
  int     = 1 byte (0..252) | 253 + i16 | 254 + i32 | 255 + u8 length + little-endian
  float   = f64, Vector = 3 x f64, Orientation = 4 x f64, bool = int, str = int length + utf-8
  replay  = u16 version | u32 flags | values in the order they were drawn / observed

The model is used ONLY to locate fields (to label what a truncation / corruption hit) and
to classify which integer widths were exercised.  It never decides whether two scenes are
equal and a disagreement with the bytes is never a verdict: `layout` then labels the rest
of the encoding "unparsed".
"""

from __future__ import annotations

import struct


class Field:
    __slots__ = ("off", "length", "kind")

    def __init__(self, off, length, kind):
        self.off, self.length, self.kind = off, length, kind

    def __repr__(self):
        return f"{self.kind}@{self.off}+{self.length}"


class Short(Exception):
    pass


# -- integer widths ------------------------------------------------------------------


def int_class(v):
    """Width class of the documented int encoding for value v."""
    if 0 <= v <= 252:
        return "int8"
    if -32768 <= v <= 32767:
        return "int16"
    if -2147483648 <= v <= 2147483647:
        return "int32"
    return "intbig"


def int_encoded_len(v):
    """Length of the documented (narrowest-width) encoding of v."""
    c = int_class(v)
    if c == "int8":
        return 1
    if c == "int16":
        return 3
    if c == "int32":
        return 5
    return 2 + max(1, -(-(v.bit_length() + 1) // 8))


#: values on both sides of every width boundary
INT_BOUNDARY_VALUES = (
    0, -1, 252, 253, 32767, 32768, -32768, -32769,
    2147483647, 2147483648, -2147483648, -2147483649,
)


def parse_int(data, pos, owner, out):
    """Append the fields of the int starting at pos; return (value, new pos)."""
    if pos >= len(data):
        raise Short()
    first = data[pos]
    if first <= 252:
        out.append(Field(pos, 1, f"{owner}.int8"))
        return first, pos + 1
    if first in (253, 254):
        n = 2 if first == 253 else 4
        name = "int16" if first == 253 else "int32"
        out.append(Field(pos, 1, f"{owner}.{name}.tag"))
        if pos + 1 + n > len(data):
            raise Short()
        out.append(Field(pos + 1, n, f"{owner}.{name}.payload"))
        return int.from_bytes(data[pos + 1 : pos + 1 + n], "little", signed=True), pos + 1 + n
    out.append(Field(pos, 1, f"{owner}.intbig.tag"))
    if pos + 1 >= len(data):
        raise Short()
    n = data[pos + 1]
    out.append(Field(pos + 1, 1, f"{owner}.intbig.len"))
    if pos + 2 + n > len(data):
        raise Short()
    out.append(Field(pos + 2, n, f"{owner}.intbig.payload"))
    return int.from_bytes(data[pos + 2 : pos + 2 + n], "little", signed=True), pos + 2 + n


def _fixed(data, pos, n, kind, out):
    if pos + n > len(data):
        raise Short()
    out.append(Field(pos, n, kind))
    return pos + n


def parse_value(data, pos, ty, owner, out):
    """Fields of one value of python type `ty`; returns (value or None, new pos)."""
    from scenic.core.vectors import Orientation, Vector

    if ty is int or ty is bool:
        return parse_int(data, pos, owner, out)
    if ty is float:
        p = _fixed(data, pos, 8, f"{owner}.float", out)
        return struct.unpack("<d", data[pos:p])[0], p
    if ty is Vector:
        return None, _fixed(data, pos, 24, f"{owner}.vector", out)
    if ty is Orientation:
        return None, _fixed(data, pos, 32, f"{owner}.orientation", out)
    if ty is type(None):
        return None, pos
    if ty is str or ty is bytes:
        n, p = parse_int(data, pos, owner + ".len", out)
        if n < 0:
            raise Short()
        return None, _fixed(data, p, n, f"{owner}.bytes", out)
    if hasattr(ty, "encodeTo") and ty.__name__ == "Color":
        return None, _fixed(data, pos, 24, f"{owner}.color", out)
    raise Short()


# -- scene layout --------------------------------------------------------------------

HEADER = (("header.version", 2), ("header.astHash", 4), ("header.optionsHash", 4))
HEADER_LEN = 10


def layout(scenario, data):
    """List of Fields covering `data` (a complete scene encoding of `scenario`).

    Returns (fields, primitives) where primitives is a list of (owner kind, python type,
    decoded value or None).  Bytes the model cannot attribute are labelled "unparsed".
    """
    from scenic.core.distributions import Distribution, MultiplexerDistribution, needsSampling

    out = []
    prims = []
    pos = 0
    for name, n in HEADER:
        out.append(Field(pos, min(n, max(0, len(data) - pos)), name))
        pos += n
    if len(data) < HEADER_LEN:
        return out, prims
    seen = set()
    vals = {}
    state = {"pos": pos}

    def visit(obj, role=None):
        if not needsSampling(obj):
            return
        if id(obj) in seen:
            return
        seen.add(id(obj))
        if isinstance(obj, MultiplexerDistribution):
            visit(obj.index, "OptionIndex")
            idx = vals.get(id(obj.index), obj.index if isinstance(obj.index, int) else None)
            if not isinstance(idx, int) or not -len(obj.options) <= idx < len(obj.options):
                raise Short()
            visit(obj.options[idx])
        elif isinstance(obj, Distribution) and not obj._deterministic:
            owner = role or type(obj).__name__
            v, p = parse_value(data, state["pos"], obj._valueType, owner, out)
            state["pos"] = p
            vals[id(obj)] = v
            prims.append((owner, obj._valueType, v))
        else:
            for child in obj._conditioned._dependencies:
                visit(child)

    try:
        for dep in scenario.dependencies:
            visit(dep)
    except Short:
        pass
    covered = max((f.off + f.length for f in out), default=0)
    if covered < len(data):
        out.append(Field(covered, len(data) - covered, "unparsed"))
    return out, prims


def field_at(fields, off):
    for f in fields:
        if f.off <= off < f.off + f.length:
            return f.kind
    return "end"


def generic_kind(kind):
    """Strip nothing but keep labels short and stable (used in signatures)."""
    return kind


# -- replay layout -------------------------------------------------------------------

REPLAY_HEADER = (("replay.version", 2), ("replay.flags", 4))
REPLAY_HEADER_LEN = 6


def replay_layout(data, spans):
    """Fields of a replay given the (start, end, label) spans observed while recording.

    Bytes between spans are divergence data (dynamic property values)."""
    out = []
    pos = 0
    for name, n in REPLAY_HEADER:
        out.append(Field(pos, n, name))
        pos += n
    for a, b, label in sorted(spans):
        if a > pos:
            out.append(Field(pos, a - pos, "replay.divergence-data"))
        if b > a:
            out.append(Field(a, b - a, "replay.value." + label))
        pos = max(pos, b)
    if pos < len(data):
        out.append(Field(pos, len(data) - pos, "replay.divergence-data"))
    return out
