"""Reference abstract machine for dynamic Scenic programs (C12, C13, C19; DESIGN §2.4).

Written from docs/reference/dynamic_scenarios.rst (the ten-step procedure) and
docs/reference/statements.rst (statement semantics), *not* from simulators.py.

A program is the IR of gen/dynamic.py.  ``Machine.run()`` returns (outcome, log):
  outcome = ("done", allowed_termination_types, end_time, n_states, n_action_entries)
          | ("rejected", time) | ("guard", kind, time)
  log     = list of (time, event) in the vocabulary of DESIGN Appendix A.

Coroutines (behaviors, monitors, compose blocks) are Python generators yielding
("act", tags, origin) | ("terminate",) | ("termsim",).
"""

import itertools
import math
from fractions import Fraction

BREAK, CONTINUE, RETURN, ABORT = "BREAK", "CONTINUE", "RETURN", "ABORT"


class Reject(Exception):
    pass


class GuardV(Exception):
    def __init__(self, kind):
        self.kind = kind


class Stuck(Exception):
    """The program would loop forever without yielding (outside the fragment)."""


class Machine:
    def __init__(self, prog, tables=None, default=False, schedule=None, raise_guards=False, variant=None, pick=None):
        self.prog = prog
        self.tables = tables or {}
        self.flags = {}  # program state written by ("set", name, value) statements
        self.default = default
        self.schedule = schedule or []
        self.raise_guards = raise_guards
        self.variant = variant or set()
        self.pick = pick  # callable(list of (item, weight)) -> index, for choose/shuffle
        self.t = 0
        self.log = []
        self.dt = Fraction(prog.get("timestep", 1)).limit_denominator(1000)
        self.fuel = 10000
        self.instances = 0

    # -- environment ---------------------------------------------------------------
    def cond(self, name):
        if name.startswith("flag:"):
            return bool(self.flags.get(name[5:], False))
        if name.startswith("notflag:"):
            return not self.flags.get(name[8:], False)
        tab = self.tables.get(name)
        if tab is None:
            return self.default
        return tab[min(max(self.t, 0), len(tab) - 1)]

    def ev(self, tag):
        self.log.append((self.t, tag))
        self.fuel -= 1
        if self.fuel < 0:
            raise Stuck()

    def steps_of(self, k, unit):
        """Duration in steps: k steps, or the number of steps covering k seconds."""
        if unit == "steps":
            return k
        return Fraction(k).limit_denominator(1000) / self.dt

    # -- guards ----------------------------------------------------------------------
    def check_pre(self, b):
        for c in b.get("pre", ()):
            if not self.cond(c):
                raise GuardV("PreconditionViolation")

    def check_inv(self, b):
        for c in b.get("inv", ()):
            if not self.cond(c):
                raise GuardV("InvariantViolation")

    # -- coroutines ----------------------------------------------------------------------
    def behavior(self, name, kind="behaviors"):
        b = self.prog[kind][name]
        self.instances += 1
        frame = {"def": b, "name": name, "id": self.instances}
        # preconditions when it starts, invariants too (time step zero included)
        self.check_pre(b)
        self.check_inv(b)
        sig = yield from self.block(b["body"], frame, name)
        return None

    def block(self, stmts, frame, prefix):
        for i, st in enumerate(stmts):
            sig = yield from self.stmt(st, frame, f"{prefix}.{i}")
            if sig is not None:
                return sig
        return None

    def own(self, frame, tags):
        """Yield one of the behavior's own actions; invariants are checked on resume."""
        yield ("act", tuple(tags), frame["id"])
        self.check_inv(frame["def"])

    def stmt(self, st, frame, path):
        k = st[0]
        self.ev(path)
        b = frame["def"]
        if k == "take":
            yield from self.own(frame, st[1:])
        elif k == "takernd":
            kind, params = st[1]
            if kind == "uniform":
                opts = [(v, 1) for v in params]
            elif kind == "discrete":
                opts = [(v, w) for v, w in params]
            else:
                opts = [(v, 1) for v in range(params[0], params[1] + 1)]
            v = opts[self.pick(opts)][0]
            yield from self.own(frame, (v,))
        elif k == "wait":
            yield from self.own(frame, ())
        elif k in ("waitfor", "waituntil", "dofor", "dountil", "do"):
            yield from self.do_like(st, frame, path)
        elif k in ("choose", "shuffle"):
            yield from self.do_scheduled(st, frame, path)
        elif k == "terminate":
            yield ("terminate",)
            self.check_inv(b)
        elif k == "termsim":
            yield ("termsim",)
            self.check_inv(b)
        elif k == "require":
            if not self.cond(st[1]):
                raise Reject()
        elif k == "try":
            return (yield from self.try_stmt(st[1], st[2], frame, path))
        elif k == "loop":
            n = st[1]
            it = itertools.count() if n is None else range(n)
            for _ in it:
                sig = yield from self.block(st[2], frame, path)
                if sig == BREAK:
                    break
                if sig == CONTINUE:
                    continue
                if sig is not None:
                    return sig
        elif k == "if":
            if self.cond(st[1]):
                return (yield from self.block(st[2], frame, path))
        elif k == "ev":
            pass
        elif k == "set":
            self.flags[st[1]] = bool(st[2])
        elif k == "abort":
            return ABORT
        elif k == "break":
            return BREAK
        elif k == "continue":
            return CONTINUE
        elif k == "return":
            return RETURN
        else:
            raise ValueError(k)
        return None

    def do_like(self, st, frame, path):
        k = st[0]
        b = frame["def"]
        sub = st[1] if k in ("do", "dofor", "dountil") else None
        if k == "do":
            if frame.get("scn"):
                yield from self.run_scenarios(sub, frame, [])
            else:
                yield from self.behavior(sub)
            self.check_inv(b)  # resumed after a sub-behavior terminates
            return
        if k in ("waitfor", "dofor"):
            dur, unit = (st[1], st[2]) if k == "waitfor" else (st[2], st[3])
            limit = self.steps_of(dur, unit)
            start = self.t
            done = lambda: self.t - start >= limit
        else:
            c = st[1] if k == "waituntil" else st[2]
            done = lambda: bool(self.cond(c))
        gen = None
        group = []
        while True:
            if done():
                # the sub-behavior / sub-scenarios (if any) are stopped; continue in the same step
                for inst in group:
                    self.scn_stop(inst)
                break
            if sub is None:
                yield ("act", (), frame["id"])
                self.check_inv(b)
                continue
            if gen is None:
                gen = self.run_scenarios(sub, frame, group) if frame.get("scn") else self.behavior(sub)
            try:
                y = next(gen)
            except StopIteration:
                break  # may return before the limit if the sub-behavior completes
            yield y
            if "inv_in_try" in self.variant or (y[0] == "act" and y[2] == frame["id"]):
                self.check_inv(b)
        self.check_inv(b)

    def do_scheduled(self, st, frame, path):
        k, items = st[0], list(st[1])
        b = frame["def"]

        scn = bool(frame.get("scn"))

        def start(name):
            if scn:
                return self.run_scenarios([name], frame, [])
            return self.behavior(name)

        def enabled_of(cands):
            out = []
            for name, w in cands:
                d = self.prog["scenarios" if scn else "behaviors"][name]
                try:
                    self.check_pre(d)
                    self.check_inv(d)
                    out.append((name, w))
                except GuardV:
                    pass
            return out

        items = [tuple(x) for x in items]  # (JSON round trips turn the pairs into lists)
        if k == "choose":
            en = enabled_of(items)
            if not en:
                raise Reject()
            name = en[self.pick(en)][0] if len(en) > 1 else en[0][0]
            yield from start(name)
        else:
            remaining = list(items)
            while remaining:
                en = enabled_of(remaining)
                if not en:
                    raise Reject()
                name, w = en[self.pick(en)] if len(en) > 1 else en[0]
                remaining.remove((name, w))
                yield from start(name)
        self.check_inv(b)

    # -- modular scenarios ---------------------------------------------------------------
    def scn_start(self, name, top=False):
        d = self.prog["scenarios"][name]
        self.check_pre(d)
        self.check_inv(d)
        self.instances += 1
        inst = {"name": name, "def": d, "id": self.instances, "elapsed": 0, "running": True, "subs": [], "scn": True}
        inst["limit"] = self.steps_of(*d["terminate_after"]) if d.get("terminate_after") is not None else None
        if not top:
            self.ev(f"{name}.setup")  # (the main scenario's setup block ran at compile time)
        inst["gen"] = self.block(d["compose"], inst, name) if d.get("compose") is not None else None
        inst["has_compose"] = d.get("compose") is not None
        # monitors instantiated by the setup block of a sub-scenario start with it
        inst["monitors"] = [] if top else [(m, self._prime(self.behavior(m, "monitors"))) for m in d.get("monitors", ())]
        return inst

    def run_sub_monitors(self, inst):
        """Step 3 for a running sub-scenario: its own monitors, then those of its running
        sub-scenarios; `terminate` stops the scenario which instantiated the monitor (only).
        Returns True if some monitor executed `terminate simulation`."""
        term = False
        end_self = False
        for m, g in inst.get("monitors", ()):
            y = self._resume(g)
            if y is None or y[0] == "act":
                continue
            if y[0] == "termsim":
                term = True
            elif y[0] == "terminate":
                end_self = True
        for sub in list(inst["subs"]):
            if sub["running"]:
                term |= self.run_sub_monitors(sub)
        if end_self:
            self.scn_stop(inst)
        return term

    def scn_stop(self, inst):
        if not inst["running"]:
            return
        inst["running"] = False
        for sub in inst["subs"]:
            self.scn_stop(sub)  # first recursively stop any sub-scenarios it is running
        inst["gen"] = None

    def scn_step(self, inst):
        """One time step of a running scenario (reference procedure, step 1).
        Returns None (keeps running), "stopped", or "termsim"."""
        if "subscenario_tw_is_requirement" in self.variant and inst["name"] != self.prog.get("main"):
            # variant used only to attribute a known finding: `terminate when C` executed in the
            # setup block of a sub-scenario at run time is registered as a requirement on C
            for c in inst["def"].get("terminate_when", ()):
                if not self.cond(c):
                    raise Reject()
        if inst["limit"] is not None and inst["elapsed"] >= inst["limit"]:
            self.scn_stop(inst)
            return "stopped"
        inst["elapsed"] += 1
        if inst["has_compose"]:
            done = False
            if inst["gen"] is None:
                done = True
            else:
                try:
                    y = next(inst["gen"])
                    if y[0] == "terminate":
                        self.scn_stop(inst)
                        return "stopped"
                    if y[0] == "termsim":
                        self.scn_stop(inst)
                        return "termsim"
                except StopIteration:
                    inst["gen"] = None
                    done = True
            if done:
                self.scn_stop(inst)
                return "stopped"
        if not ("subscenario_tw_is_requirement" in self.variant and inst["name"] != self.prog.get("main")):
            for c in inst["def"].get("terminate_when", ()):
                if self.cond(c):
                    self.scn_stop(inst)
                    return "stopped"
        return None

    def run_scenarios(self, names, frame, group):
        """`do A(), B()` in a compose block: run sub-scenarios in parallel until all end."""
        if isinstance(names, str):
            names = [names]
        insts = []
        for n in names:
            inst = self.scn_start(n)
            insts.append(inst)
            group.append(inst)
            frame["subs"].append(inst)
        while True:
            new = []
            for inst in insts:
                if not inst["running"]:
                    continue
                r = self.scn_step(inst)
                if r == "termsim":
                    yield ("termsim",)
                elif r is None:
                    new.append(inst)
            insts = new
            if not insts:
                return
            yield ("act", (), -1)
            insts = [i for i in insts if i["running"]]

    def try_stmt(self, body, handlers, frame, path):
        b = frame["def"]
        blocks = [None] * (1 + len(handlers))
        while True:
            self.fuel -= 1
            if self.fuel < 0:
                raise Stuck()
            chosen = 0
            # later clauses take precedence; a running handler keeps running unless a
            # later clause interrupts it
            for i in range(len(handlers) - 1, -1, -1):
                en = bool(self.cond(handlers[i][0]))
                if en or blocks[i + 1] is not None:
                    chosen = i + 1
                    break
            if blocks[chosen] is None:
                if chosen == 0:
                    blocks[0] = self.block(body, frame, path + ".b")
                else:
                    blocks[chosen] = self.block(handlers[chosen - 1][1], frame, f"{path}.h{chosen - 1}")
            try:
                y = next(blocks[chosen])
            except StopIteration as e:
                sig = e.value
                blocks[chosen] = None
                if sig is None:
                    if chosen != 0:
                        continue  # handler complete: control returns to what was running
                    return None
                if sig == ABORT:
                    return None
                return sig
            yield y
            if "inv_in_try" in self.variant or (y[0] == "act" and y[2] == frame["id"]):
                self.check_inv(b)

    # -- the ten-step procedure ---------------------------------------------------------
    def run(self):
        try:
            return self._run(), self.log
        except Reject:
            return ("rejected", self.t), self.log
        except GuardV as g:
            if self.raise_guards:
                return ("guard", g.kind, self.t), self.log
            return ("rejected", self.t), self.log

    def _run(self):
        prog = self.prog
        top = prog.get("top", {})
        agents = list(prog["agents"])  # (objname, behavior)
        for name, _ in prog.get("objects", agents):
            self.log.append((0, f"create:{name}"))
        # start behaviors (preconditions / invariants at time zero) and monitors
        coros = {}
        for name, beh in agents:
            g = self.behavior(beh)
            coros[name] = self._prime(g)
        monitors = [(m, self._prime(self.behavior(m, "monitors"))) for m in top.get("monitors", ())]
        self.log.append((0, "update"))
        limit = None
        if top.get("terminate_after") is not None:
            limit = self.steps_of(*top["terminate_after"])
        elapsed = 0
        main = None
        if prog.get("main"):
            main = self.scn_start(prog["main"], top=True)
        max_steps = prog.get("maxSteps")
        n_actions = 0
        finished = set()
        while True:
            flag = None  # set of allowed termination types once the simulation must stop
            # 1. the (top-level) scenario
            if main is not None:
                r = self.scn_step(main)
                if r is not None:
                    flag = {"scenarioComplete"}
            elif limit is not None and elapsed >= limit:
                flag = {"scenarioComplete"}
            else:
                elapsed += 1
                for c in top.get("terminate_when", ()):
                    if self.cond(c):
                        flag = {"scenarioComplete"}
                        break
            # 2. records (those of the running sub-scenarios after the top-level ones)
            for r in range(top.get("records", 0)):
                self.log.append((self.t, f"rec:r{r}"))
            if main is not None:
                stack = [x for x in main["subs"] if x["running"]]
                while stack:
                    inst = stack.pop(0)
                    for r in range(inst["def"].get("records", 0)):
                        self.log.append((self.t, f"rec:{inst['name']}.r{r}"))
                    stack = [x for x in inst["subs"] if x["running"]] + stack
            # 3. monitors (those of a stopped scenario no longer run)
            if flag is None:
                for m, g in monitors:
                    y = self._resume(g)
                    if y is None or y[0] == "act":
                        continue
                    if y[0] == "termsim":
                        flag = (flag or set()) | {"terminatedByMonitor"}
                    elif y[0] == "terminate":
                        # stops the scenario which instantiated it; reference names this
                        # scenarioComplete, implementation reports terminatedByMonitor
                        flag = (flag or set()) | {"scenarioComplete", "terminatedByMonitor"}
                        break
                if main is not None:
                    for sub in list(main["subs"]):
                        if sub["running"] and self.run_sub_monitors(sub):
                            flag = (flag or set()) | {"terminatedByMonitor"}
            # 4. termination checks
            if flag is not None:
                return self._finish(flag, n_actions)
            for c in top.get("termsim_when", ()):
                if self.cond(c):
                    return self._finish({"simulationTerminationCondition"}, n_actions)
            if main is not None:
                # `terminate simulation when` of the running sub-scenarios
                stack = [main]
                while stack:
                    inst = stack.pop(0)
                    if not inst["running"]:
                        continue
                    for c in inst["def"].get("termsim_when", ()):
                        if self.cond(c):
                            return self._finish({"simulationTerminationCondition"}, n_actions)
                    stack = [x for x in inst["subs"] if x["running"]] + stack
            if max_steps and self.t >= max_steps:
                return self._finish({"timeLimit"}, n_actions)
            # 5. behaviors in schedule order
            order = list(range(len(agents)))
            if self.t < len(self.schedule) and self.schedule[self.t] is not None and len(self.schedule[self.t]) == len(agents):
                order = list(self.schedule[self.t])
            chosen = []
            for i in order:
                name, _ = agents[i]
                y = self._resume(coros[name])
                if y is None:
                    chosen.append((name, ()))  # behavior ended: no actions for the rest
                elif y[0] == "act":
                    chosen.append((name, y[1]))
                elif y[0] == "termsim":
                    return self._finish({"terminatedByBehavior"}, n_actions)
                elif y[0] == "terminate":
                    return self._finish({"terminatedByBehavior", "scenarioComplete"}, n_actions)
            # 6-9
            self.log.append((self.t, ("exec", tuple(chosen))))
            for name, acts in chosen:
                for a in acts:
                    self.log.append((self.t, f"apply:{name}:{a}"))
            n_actions += 1
            self.log.append((self.t, "step"))
            self.t += 1
            self.log.append((self.t, "update"))

    def _prime(self, g):
        """Start a coroutine: run nothing yet, but guards are checked when it starts."""
        # Guard checks happen at creation of the behavior; the body runs at the first step.
        # We model this by wrapping: the generator is advanced lazily, so check guards now.
        return _Lazy(self, g)

    def _resume(self, lazy):
        return lazy.resume()

    def _finish(self, types, n_actions):
        for r in range(self.prog.get("top", {}).get("records_final", 0)):
            self.log.append((self.t, f"rec:rf{r}"))
        return ("done", frozenset(types), self.t, self.t + 1, n_actions)


class _Lazy:
    """A started behavior/monitor: its guards were checked at start, its body runs
    from the first time step on."""

    def __init__(self, machine, gen):
        self.gen = gen
        self.done = False
        self.buffer = None
        # run the generator up to (and excluding) the body: `behavior` checks guards first,
        # then enters the block.  We need guards checked now but the body's first event at
        # step 0 inside step 5; both happen at t == 0 so we simply advance at first resume
        # for the body, and check guards here by a dry run of the guard part.
        name_def = gen.gi_frame.f_locals
        kind = name_def.get("kind", "behaviors")
        b = machine.prog[kind][name_def["name"]]
        machine.check_pre(b)
        machine.check_inv(b)

    def resume(self):
        if self.done:
            return None
        try:
            return next(self.gen)
        except StopIteration:
            self.done = True
            return None
