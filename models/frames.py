"""Reference model for C07: a small 3-D rotation algebra and the documented meaning of
Scenic's geometric specifiers and operators.

Everything here is written from docs/reference/{specifiers,operators,data,classes}.rst with
plain 3x3 matrices (tuples of tuples of floats).  No scipy, no numpy, no Scenic imports.

Conventions (docs/reference/data.rst, "Orientation"; docs/reference/classes.rst):
  * right-handed axes: local +X = right, +Y = ahead (front), +Z = up;
  * heading 0 faces +Y ("North"); positive angles are counter-clockwise seen from +Z;
  * (yaw, pitch, roll) are intrinsic Euler angles applied in the order Z, X, Y, i.e. the
    matrix is  Rz(yaw) . Rx(pitch) . Ry(roll);
  * an object's global orientation is  parentOrientation . euler(yaw, pitch, roll);
  * a point q given in the local frame of (position p, orientation M) is  p + M.q  globally.
"""

import math

TAU = 2.0 * math.pi

I3 = ((1.0, 0.0, 0.0), (0.0, 1.0, 0.0), (0.0, 0.0, 1.0))


# ---------------------------------------------------------------- vectors


def vadd(a, b):
    return (a[0] + b[0], a[1] + b[1], a[2] + b[2])


def vsub(a, b):
    return (a[0] - b[0], a[1] - b[1], a[2] - b[2])


def vscale(a, k):
    return (a[0] * k, a[1] * k, a[2] * k)


def vdot(a, b):
    return a[0] * b[0] + a[1] * b[1] + a[2] * b[2]


def vnorm(a):
    return math.sqrt(vdot(a, a))


def vunit(a):
    n = vnorm(a)
    return (a[0] / n, a[1] / n, a[2] / n)


def vdist(a, b):
    return vnorm(vsub(a, b))


# ---------------------------------------------------------------- matrices


def mmul(A, B):
    return tuple(
        tuple(A[i][0] * B[0][j] + A[i][1] * B[1][j] + A[i][2] * B[2][j] for j in range(3))
        for i in range(3)
    )


def mT(A):
    return tuple(tuple(A[j][i] for j in range(3)) for i in range(3))


def mapply(A, v):
    return (
        A[0][0] * v[0] + A[0][1] * v[1] + A[0][2] * v[2],
        A[1][0] * v[0] + A[1][1] * v[1] + A[1][2] * v[2],
        A[2][0] * v[0] + A[2][1] * v[1] + A[2][2] * v[2],
    )


def mdiff(A, B):
    """Largest absolute entry-wise difference of two matrices."""
    return max(abs(A[i][j] - B[i][j]) for i in range(3) for j in range(3))


def rot_z(a):
    c, s = math.cos(a), math.sin(a)
    return ((c, -s, 0.0), (s, c, 0.0), (0.0, 0.0, 1.0))


def rot_x(a):
    c, s = math.cos(a), math.sin(a)
    return ((1.0, 0.0, 0.0), (0.0, c, -s), (0.0, s, c))


def rot_y(a):
    c, s = math.cos(a), math.sin(a)
    return ((c, 0.0, s), (0.0, 1.0, 0.0), (-s, 0.0, c))


def euler(yaw, pitch, roll):
    """Matrix of the orientation with intrinsic Z-X-Y Euler angles (yaw, pitch, roll)."""
    return mmul(rot_z(yaw), mmul(rot_x(pitch), rot_y(roll)))


def heading_matrix(h):
    return rot_z(h)


def is_rotation(M, tol=1e-9):
    if mdiff(mmul(M, mT(M)), I3) > tol:
        return False
    det = (
        M[0][0] * (M[1][1] * M[2][2] - M[1][2] * M[2][1])
        - M[0][1] * (M[1][0] * M[2][2] - M[1][2] * M[2][0])
        + M[0][2] * (M[1][0] * M[2][1] - M[1][1] * M[2][0])
    )
    return abs(det - 1.0) <= tol


def quat_matrix(q):
    """Matrix of the unit quaternion q = (x, y, z, w) (scalar last)."""
    x, y, z, w = q
    n = math.sqrt(x * x + y * y + z * z + w * w)
    x, y, z, w = x / n, y / n, z / n, w / n
    return (
        (1 - 2 * (y * y + z * z), 2 * (x * y - z * w), 2 * (x * z + y * w)),
        (2 * (x * y + z * w), 1 - 2 * (x * x + z * z), 2 * (y * z - x * w)),
        (2 * (x * z - y * w), 2 * (y * z + x * w), 1 - 2 * (x * x + y * y)),
    )


GIMBAL_EPS = 1e-6


def is_gimbal(M):
    """True if the Z-X-Y Euler angles of M are not unique (pitch = +-90 degrees)."""
    return math.hypot(M[0][1], M[1][1]) < GIMBAL_EPS


def to_euler(M):
    """Canonical (yaw, pitch, roll) of M: pitch in [-pi/2, pi/2]; meaningless if is_gimbal(M).

    With M = Rz(y).Rx(p).Ry(r):  M[2][1] = sin p,  M[0][1] = -sin y cos p,  M[1][1] = cos y cos p,
    M[2][0] = -cos p sin r,  M[2][2] = cos p cos r.
    """
    pitch = math.asin(max(-1.0, min(1.0, M[2][1])))
    yaw = math.atan2(-M[0][1], M[1][1])
    roll = math.atan2(-M[2][0], M[2][2])
    return (yaw, pitch, roll)


def yaw_of(M):
    """Global yaw ("heading") of an orientation matrix."""
    return math.atan2(-M[0][1], M[1][1])


def forward(M):
    """Direction an entity with orientation M faces: its local +Y axis."""
    return (M[0][1], M[1][1], M[2][1])


def angdiff(a, b):
    """Absolute difference of two angles modulo 2 pi."""
    d = math.fmod(a - b, TAU)
    if d > math.pi:
        d -= TAU
    elif d < -math.pi:
        d += TAU
    return abs(d)


# ---------------------------------------------------------------- poses


def orientation_of(parent, own):
    """Global orientation of an entity with parentOrientation angles `parent` and own
    (yaw, pitch, roll) `own`."""
    return mmul(euler(*parent), euler(*own))


def to_global(pos, M, local):
    return vadd(pos, mapply(M, local))


def to_local(pos, M, glob):
    return mapply(mT(M), vsub(glob, pos))


def corners(pos, M, dims):
    w, l, h = dims
    return [
        to_global(pos, M, (sx * w / 2, sy * l / 2, sz * h / 2))
        for sx in (1, -1)
        for sy in (1, -1)
        for sz in (1, -1)
    ]


# ---------------------------------------------------------------- scalar operators


def azimuth(frm, to):
    """Heading from `frm` to `to`: 0 if `to` is due North (+Y), counter-clockwise positive."""
    d = vsub(to, frm)
    return math.atan2(-d[0], d[1])


def altitude(frm, to):
    """Elevation angle of `to` above the horizontal plane through `frm`."""
    d = vsub(to, frm)
    return math.atan2(d[2], math.hypot(d[0], d[1]))


def horizontal_degenerate(frm, to, eps=1e-9):
    d = vsub(to, frm)
    return math.hypot(d[0], d[1]) < eps


def relative_heading(h, frm):
    return h - frm


def apparent_heading(pos, heading, frm):
    return heading - azimuth(frm, pos)


# ---------------------------------------------------------------- bounding-box sides

# name -> local unit multipliers of (half width, half length, half height)
SIDE_OPS = {
    "front": (0, 1, 0),
    "back": (0, -1, 0),
    "left": (-1, 0, 0),
    "right": (1, 0, 0),
    "top": (0, 0, 1),
    "bottom": (0, 0, -1),
    "front left": (-1, 1, 0),
    "front right": (1, 1, 0),
    "back left": (-1, -1, 0),
    "back right": (1, -1, 0),
    "top front left": (-1, 1, 1),
    "top front right": (1, 1, 1),
    "top back left": (-1, -1, 1),
    "top back right": (1, -1, 1),
    "bottom front left": (-1, 1, -1),
    "bottom front right": (1, 1, -1),
    "bottom back left": (-1, -1, -1),
    "bottom back right": (1, -1, -1),
}


def side_point(pos, M, dims, name):
    sx, sy, sz = SIDE_OPS[name]
    return to_global(pos, M, (sx * dims[0] / 2, sy * dims[1] / 2, sz * dims[2] / 2))


# ---------------------------------------------------------------- directional specifiers

# name -> (axis index in the reference frame, sign)
DIRECTIONS = {
    "left of": (0, -1),
    "right of": (0, 1),
    "ahead of": (1, 1),
    "behind": (1, -1),
    "above": (2, 1),
    "below": (2, -1),
}


def directional_position(direction, ref_pos, ref_M, ref_dims, new_dims, gap):
    """Centre of a new box (aligned with the reference frame) placed in `direction` of a
    reference box so that the two boxes are `gap` apart along the reference's axis and
    centred on each other in the two other local directions.  A point has ref_dims 0."""
    axis, sign = DIRECTIONS[direction]
    off = [0.0, 0.0, 0.0]
    off[axis] = sign * (ref_dims[axis] / 2 + gap + new_dims[axis] / 2)
    return to_global(ref_pos, ref_M, tuple(off))


def directional_gap(direction, ref_pos, ref_M, ref_dims, new_corners, new_centre):
    """Independent measurement: (gap along the reference's axis between the reference box and
    the convex hull of `new_corners`, the two other local offsets of `new_centre`)."""
    axis, sign = DIRECTIONS[direction]
    locs = [to_local(ref_pos, ref_M, c) for c in new_corners]
    nearest = min(sign * lc[axis] for lc in locs)
    gap = nearest - ref_dims[axis] / 2
    lc = to_local(ref_pos, ref_M, new_centre)
    others = tuple(lc[i] for i in range(3) if i != axis)
    return gap, others


def side_midpoint_for_vector_form(direction, new_pos, new_M, new_dims):
    """`left of <vector>`: "the midpoint of the right side of the object's bounding box is at
    that position" -- returns the midpoint of the side of the NEW object facing the vector."""
    axis, sign = DIRECTIONS[direction]
    off = [0.0, 0.0, 0.0]
    off[axis] = -sign * new_dims[axis] / 2
    return to_global(new_pos, new_M, tuple(off))


# ---------------------------------------------------------------- other specifiers


def line_of_sight_frame(frm, target):
    """Orientation "along the line of sight" from `frm` to `target`: faces directly away from
    `frm` (yaw = azimuth, pitch = altitude, no roll)."""
    return euler(azimuth(frm, target), altitude(frm, target), 0.0)


def beyond_position(target, offset, frm):
    return to_global(target, line_of_sight_frame(frm, target), offset)


def follow_constant_field(start, M_field, dist):
    return vadd(start, vscale(forward(M_field), dist))


def yaw_facing_in_parent(parent_M, pos, target):
    """Yaw (w.r.t. the parent frame) that turns the forward axis as far toward `target` as a
    rotation about the parent's Z axis permits."""
    d = to_local(pos, parent_M, target)
    return math.atan2(-d[0], d[1])
