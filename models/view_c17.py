"""Reference model for C17: view volumes and sight lines, written from the documentation.

Conventions (docs/reference/visibility.rst, classes.rst, general Scenic conventions):
  * heading 0 faces +Y; positive angles turn counter-clockwise seen from above (towards -X);
  * an orientation is intrinsic yaw (about Z), then pitch (about the new X), then roll
    (about the new Y):  R = Rz(yaw) . Rx(pitch) . Ry(roll);  global = R . local;
  * the camera of a viewer sits at  position + R . cameraOffset ;
  * the view volume is  { p : |p-cam| <= visibleDistance, |azimuth| <= viewAngles[0]/2,
    |altitude| <= viewAngles[1]/2 }  with azimuth/altitude of p-cam measured in the viewer's
    OWN frame (azimuth from the local +Y axis, positive towards local -X; altitude from the
    local XY plane).  A Point viewer has no orientation and sees the whole sphere.

Nothing here imports Scenic.  Meshes are raw (vertices, faces) numpy arrays.
"""

import math

import numpy as np


# ----------------------------------------------------------------------------------------
# frames
# ----------------------------------------------------------------------------------------
def rot(yaw, pitch, roll):
    """Rotation matrix of an intrinsic Z-X-Y (yaw, pitch, roll) orientation, radians."""
    cy, sy = math.cos(yaw), math.sin(yaw)
    cp, sp = math.cos(pitch), math.sin(pitch)
    cr, sr = math.cos(roll), math.sin(roll)
    rz = np.array([[cy, -sy, 0.0], [sy, cy, 0.0], [0.0, 0.0, 1.0]])
    rx = np.array([[1.0, 0.0, 0.0], [0.0, cp, -sp], [0.0, sp, cp]])
    ry = np.array([[cr, 0.0, sr], [0.0, 1.0, 0.0], [-sr, 0.0, cr]])
    return rz @ rx @ ry


def rot_deg(ypr):
    return rot(*(math.radians(a) for a in ypr))


def camera(position, R, offset):
    return np.asarray(position, float) + R @ np.asarray(offset, float)


def direction(az, alt):
    """Unit vector (viewer frame) with the given azimuth / altitude in radians."""
    return np.array([-math.sin(az) * math.cos(alt), math.cos(az) * math.cos(alt), math.sin(alt)])


def to_local(cam, R, p):
    return R.T @ (np.asarray(p, float) - cam)


def sph(local):
    """(distance, azimuth, altitude) of a viewer-frame vector; azimuth in (-pi, pi]."""
    d = float(np.linalg.norm(local))
    az = math.atan2(-local[0], local[1])
    alt = math.asin(max(-1.0, min(1.0, local[2] / d))) if d > 0 else 0.0
    return d, az, alt


def norm_angles(view_angles):
    """(has_az_bound, half_h, has_alt_bound, half_v) in radians; 2pi / pi mean unbounded."""
    h, v = view_angles
    return (h < 2 * math.pi - 1e-9, h / 2, v < math.pi - 1e-9, v / 2)


IN, OUT, EDGE = "in", "out", "edge"


def classify_point(cam, R, view_angles, vis_dist, p, ang_margin, rad_margin):
    """Is point p inside the view volume?  IN / OUT only when every bound is cleared by the
    margin (ang_margin in radians of azimuth/altitude, rad_margin in metres), else EDGE."""
    d, az, alt = sph(to_local(cam, R, p))
    hb, hh, vb, hv = norm_angles(view_angles)
    if d < 1e-9:
        return EDGE
    inside = d <= vis_dist - rad_margin
    outside = d >= vis_dist + rad_margin
    if hb:
        # azimuth is ill-defined near the poles: stay away from them when it matters
        if abs(alt) > math.radians(87):
            return EDGE
        inside = inside and abs(az) <= hh - ang_margin
        outside = outside or abs(az) >= hh + ang_margin
    if vb:
        inside = inside and abs(alt) <= hv - ang_margin
        outside = outside or abs(alt) >= hv + ang_margin
    if inside:
        return IN
    if outside:
        return OUT
    return EDGE


def classify_ball(cam, R, view_angles, vis_dist, centre, radius, ang_margin, rad_margin):
    """Bounding-ball test for extended targets.
    IN   : the whole ball is inside the view volume by the margins;
    OUT  : the whole ball is outside the view volume by the margins (sound, not complete);
    EDGE : anything else (straddling, too close to call)."""
    d, az, alt = sph(to_local(cam, R, centre))
    hb, hh, vb, hv = norm_angles(view_angles)
    if d <= radius * 1.05 + 1e-9:
        return EDGE  # camera inside / touching the ball
    rho = math.asin(min(1.0, radius / d))  # angular radius of the ball
    # azimuth spread of directions within rho of the centre direction
    if math.sin(rho) < math.cos(alt) - 1e-9:
        daz = math.asin(math.sin(rho) / math.cos(alt))
    else:
        daz = math.pi
    if d - radius >= vis_dist + rad_margin:
        return OUT
    if vb and (alt - rho >= hv + ang_margin or alt + rho <= -hv - ang_margin):
        return OUT
    if hb and daz < math.pi:
        lo, hi = abs(az) - daz, abs(az) + daz
        # the azimuth interval [lo, hi] (|az| side, by symmetry) must avoid [-hh-m, hh+m]
        if lo >= hh + ang_margin and hi <= 2 * math.pi - hh - ang_margin:
            return OUT
    inside = d + radius <= vis_dist - rad_margin
    if vb:
        inside = inside and (alt + rho <= hv - ang_margin and alt - rho >= -hv + ang_margin)
    if hb:
        inside = inside and daz < math.pi and abs(az) + daz <= hh - ang_margin
    return IN if inside else EDGE


# ----------------------------------------------------------------------------------------
# meshes and sight lines
# ----------------------------------------------------------------------------------------
def place_mesh(unit_vertices, dims, R, position):
    """Vertices of a shape mesh given in the unit bounding box, scaled to dims, rotated by R,
    translated to position."""
    v = np.asarray(unit_vertices, float) * np.asarray(dims, float)
    return v @ R.T + np.asarray(position, float)


def box_mesh(dims, R, position):
    """Own construction of a box (8 vertices, 12 triangles)."""
    sx, sy, sz = (d / 2.0 for d in dims)
    v = np.array([[x, y, z] for x in (-sx, sx) for y in (-sy, sy) for z in (-sz, sz)], float)
    f = np.array(
        [
            [0, 1, 3], [0, 3, 2],  # x = -sx
            [4, 6, 7], [4, 7, 5],  # x = +sx
            [0, 4, 5], [0, 5, 1],  # y = -sy
            [2, 3, 7], [2, 7, 6],  # y = +sy
            [0, 2, 6], [0, 6, 4],  # z = -sz
            [1, 5, 7], [1, 7, 3],  # z = +sz
        ]
    )
    return v @ R.T + np.asarray(position, float), f


def _cross(a, b):
    out = np.empty(np.broadcast(a, b).shape)
    out[..., 0] = a[..., 1] * b[..., 2] - a[..., 2] * b[..., 1]
    out[..., 1] = a[..., 2] * b[..., 0] - a[..., 0] * b[..., 2]
    out[..., 2] = a[..., 0] * b[..., 1] - a[..., 1] * b[..., 0]
    return out


def _hit_params(origin, ends, vertices, faces, eps=1e-12):
    """Moller-Trumbore for K segments origin->ends[k] against all F triangles at once.
    Returns a (K, F) array of segment parameters t (nan where the supporting line of the
    segment misses the triangle)."""
    o = np.asarray(origin, float)
    ends = np.atleast_2d(np.asarray(ends, float))
    vertices = np.asarray(vertices, float)
    d = (ends - o)[:, None, :]  # K,1,3
    v0 = vertices[faces[:, 0]][None, :, :]  # 1,F,3
    e1 = vertices[faces[:, 1]][None, :, :] - v0
    e2 = vertices[faces[:, 2]][None, :, :] - v0
    pv = _cross(d, e2)  # K,F,3
    det = (e1 * pv).sum(-1)
    ok = np.abs(det) > eps
    inv = np.where(ok, 1.0 / np.where(ok, det, 1.0), 0.0)
    tv = o - v0  # 1,F,3
    u = (tv * pv).sum(-1) * inv
    qv = _cross(tv, e1)  # 1,F,3
    w = (qv * d).sum(-1) * inv
    t = (e2 * qv).sum(-1) * inv
    hit = ok & (u >= 0) & (w >= 0) & (u + w <= 1) & (t >= 0)
    return np.where(hit, t, np.nan)


def segment_hits(origin, end, vertices, faces, t_max=1.0, eps=1e-12):
    """Smallest parameter t in [0, t_max] at which origin + t (end-origin) meets a triangle of
    the mesh (Moller-Trumbore on all faces at once), or None."""
    t = _hit_params(origin, [end], vertices, faces, eps)[0]
    t = t[~np.isnan(t)]
    t = t[t <= t_max]
    if len(t) == 0:
        return None
    return float(t.min())


BLOCKED, CLEAR, GRAZING = "blocked", "clear", "grazing"


def sightline(origin, target, meshes, delta=0.06, stretch=0.06):
    """Robust verdict for the segment origin->target against a list of (vertices, faces):
    BLOCKED if the segment and all its perturbations (end point moved by +-delta along each
    axis, segment shortened by `stretch`) meet some mesh; CLEAR if the segment and all
    perturbations (segment lengthened by `stretch`) miss every mesh; else GRAZING."""
    t = np.asarray(target, float)
    ends = np.repeat(t[None, :], 7, axis=0)
    for ax in range(3):
        ends[1 + 2 * ax, ax] -= delta
        ends[2 + 2 * ax, ax] += delta
    hit_long = np.zeros(7, bool)
    hit_short = np.zeros(7, bool)
    for v, f in meshes:
        tt = _hit_params(origin, ends, v, f)
        with np.errstate(invalid="ignore"):
            hit_long |= (tt <= 1.0 + stretch).any(axis=1)
            hit_short |= (tt <= 1.0 - stretch).any(axis=1)
    if hit_short.all():
        return BLOCKED
    if not hit_long.any():
        return CLEAR
    return GRAZING


def in_shadow_of(origin, points, vertices, faces, stretch=0.06):
    """True iff every segment origin->p (p in points) meets the mesh before 1-stretch."""
    tt = _hit_params(origin, np.asarray(points, float), vertices, faces)
    with np.errstate(invalid="ignore"):
        return bool((tt <= 1.0 - stretch).any(axis=1).all())


def wholly_behind(origin, target_points, occ_vertices, margin):
    """Sound test that an occluder cannot block any sight line to the target: every point of
    the occluder's convex hull is farther from the origin than every target point."""
    o = np.asarray(origin, float)
    tp = np.asarray(target_points, float)
    centre = tp.mean(axis=0)
    u = centre - o
    u = u / np.linalg.norm(u)
    far = float(np.max(np.linalg.norm(tp - o, axis=1)))
    near_occ = float(np.min((np.asarray(occ_vertices, float) - o) @ u))
    return near_occ > far + margin


def inflate(points, centre, factor):
    c = np.asarray(centre, float)
    return c + (np.asarray(points, float) - c) * factor


# ----------------------------------------------------------------------------------------
# boxes that are large relative to the visible distance
# ----------------------------------------------------------------------------------------
def point_box_distance(p, centre, R, dims):
    """Exact distance from point p to the solid box (centre, rotation matrix R, dims)."""
    q = R.T @ (np.asarray(p, float) - np.asarray(centre, float))
    half = np.asarray(dims, float) / 2.0
    return float(np.linalg.norm(q - np.clip(q, -half, half)))


def frame_from_axes(long_axis, thin_axis):
    """Rotation matrix whose local X is long_axis, local Y is thin_axis (made orthonormal) and
    local Z completes the right-handed frame."""
    x = np.asarray(long_axis, float)
    x = x / np.linalg.norm(x)
    y = np.asarray(thin_axis, float)
    y = y - (y @ x) * x
    y = y / np.linalg.norm(y)
    z = np.array([x[1] * y[2] - x[2] * y[1], x[2] * y[0] - x[0] * y[2], x[0] * y[1] - x[1] * y[0]])
    return np.column_stack([x, y, z])


def box_cover_balls(centre, R, dims):
    """Balls whose union contains the box: the box is cut into near-cubic pieces along its
    longest axis, each piece is enclosed in its circumscribed ball.  [(centre, radius)]"""
    dims = np.asarray(dims, float)
    ax = int(np.argmax(dims))
    others = [dims[i] for i in range(3) if i != ax]
    n = max(1, int(math.ceil(dims[ax] / max(max(others), 1e-9))))
    piece = dims[ax] / n
    rad = 0.5 * math.sqrt(piece**2 + others[0] ** 2 + others[1] ** 2)
    out = []
    for i in range(n):
        loc = np.zeros(3)
        loc[ax] = -dims[ax] / 2 + (i + 0.5) * piece
        out.append((np.asarray(centre, float) + R @ loc, rad))
    return out


def box_inner_balls(centre, R, dims, shrink=0.85):
    """Balls contained in the box, strung along its longest axis.  [(centre, radius)]"""
    dims = np.asarray(dims, float)
    ax = int(np.argmax(dims))
    r = 0.5 * min(dims[i] for i in range(3) if i != ax)
    n = max(1, int(dims[ax] / (2 * r)))
    out = []
    for i in range(n):
        loc = np.zeros(3)
        loc[ax] = -dims[ax] / 2 + r + i * (dims[ax] - 2 * r) / max(n - 1, 1)
        out.append((np.asarray(centre, float) + R @ loc, r * shrink))
    return out


def classify_balls(view_angles, vis_dist, centres, radius, ang_margin, rad_margin):
    """Vectorised classify_ball for balls of one radius given in the VIEWER frame (camera at the
    origin).  Returns (is_in, is_out) boolean arrays; same formulas as classify_ball."""
    c = np.atleast_2d(np.asarray(centres, float))
    hb, hh, vb, hv = norm_angles(view_angles)
    d = np.linalg.norm(c, axis=1)
    ok = d > radius * 1.05 + 1e-9
    ds = np.where(ok, d, 1.0)
    az = np.abs(np.arctan2(-c[:, 0], c[:, 1]))
    alt = np.arcsin(np.clip(c[:, 2] / ds, -1, 1))
    rho = np.arcsin(np.minimum(1.0, radius / ds))
    narrow = np.sin(rho) < np.cos(alt) - 1e-9
    with np.errstate(invalid="ignore", divide="ignore"):
        daz = np.where(narrow, np.arcsin(np.clip(np.sin(rho) / np.where(narrow, np.cos(alt), 1.0), -1, 1)), math.pi)
    out = d - radius >= vis_dist + rad_margin
    if vb:
        out |= (alt - rho >= hv + ang_margin) | (alt + rho <= -hv - ang_margin)
    if hb:
        out |= narrow & (az - daz >= hh + ang_margin) & (az + daz <= 2 * math.pi - hh - ang_margin)
    inside = d + radius <= vis_dist - rad_margin
    if vb:
        inside &= (alt + rho <= hv - ang_margin) & (alt - rho >= -hv + ang_margin)
    if hb:
        inside &= narrow & (az + daz <= hh - ang_margin)
    inside &= ~out
    return inside & ok, out & ok
