"""Finite-trace LTL (the final RV-LTL verdict) — reference model for C11.

Formula AST: ("ap", name) | ("not", f) | ("and", f, g) | ("or", f, g) | ("implies", f, g)
           | ("always", f) | ("eventually", f) | ("next", f) | ("until", f, g)
A trace is a list of dicts name -> value (Python truthiness).  Strong next, strong until.
"""

import itertools


def holds(f, trace, i=0):
    k = f[0]
    n = len(trace)
    if k == "ap":
        return bool(trace[i][f[1]])
    if k == "not":
        return not holds(f[1], trace, i)
    if k == "and":
        return holds(f[1], trace, i) and holds(f[2], trace, i)
    if k == "or":
        return holds(f[1], trace, i) or holds(f[2], trace, i)
    if k == "implies":
        return (not holds(f[1], trace, i)) or holds(f[2], trace, i)
    if k == "always":
        return all(holds(f[1], trace, j) for j in range(i, n))
    if k == "eventually":
        return any(holds(f[1], trace, j) for j in range(i, n))
    if k == "next":
        return i + 1 < n and holds(f[1], trace, i + 1)
    if k == "until":
        for j in range(i, n):
            if holds(f[2], trace, j):
                return True
            if not holds(f[1], trace, j):
                return False
        return False
    raise ValueError(k)


def is_temporal(f):
    if f[0] in ("always", "eventually", "next", "until"):
        return True
    return any(is_temporal(g) for g in f[1:] if isinstance(g, tuple))


def atoms(f):
    if f[0] == "ap":
        return [f[1]]
    out = []
    for g in f[1:]:
        if isinstance(g, tuple):
            for a in atoms(g):
                if a not in out:
                    out.append(a)
    return out


def next_depth(f):
    if f[0] == "ap":
        return 0
    d = max(next_depth(g) for g in f[1:] if isinstance(g, tuple))
    return d + (1 if f[0] in ("next", "until", "eventually", "always") else 0)


def some_continuation_satisfies(f, prefix, names, extra):
    """Brute force: is there an extension of `prefix` by 0..extra states satisfying f?"""
    vals = (False, True)
    for m in range(0, extra + 1):
        for ext in itertools.product(itertools.product(vals, repeat=len(names)), repeat=m):
            tr = list(prefix) + [dict(zip(names, e)) for e in ext]
            if holds(f, tr, 0):
                return True
    return False


def python_value(f, state):
    """Ordinary Python meaning of a NON-temporal formula on one state (value, not bool)."""
    k = f[0]
    if k == "ap":
        return state[f[1]]
    if k == "not":
        return not python_value(f[1], state)
    if k == "and":
        return python_value(f[1], state) and python_value(f[2], state)
    if k == "or":
        return python_value(f[1], state) or python_value(f[2], state)
    if k == "implies":
        return (not python_value(f[1], state)) or python_value(f[2], state)
    raise ValueError(k)
