"""Reference model of Scenic's *specifier resolution* (property C06).

Everything in this module is written from the documentation, not from
``Constructible._resolveSpecifiers``:

* ``parse_table`` reads the machine-readable ``**Specifies**`` / ``**Dependencies**``
  blocks of ``docs/reference/specifiers.rst`` (one row per specifier form).
* ``resolve`` is the procedure of the section "Specifier Resolution" of that file:

    1. If a property is specified at the same priority level by multiple specifiers
       in S, an ambiguity error is raised.            (priority 1 is the highest)
    2. P = properties specified by members of S + properties inherited from class C.
    3. Default value specifiers from C (or if not overridden, from its superclasses)
       are added so that each property in P is paired with a unique non-modifying
       specifier (the highest-priority one) plus up to one modifying specifier.
    4. The dependency graph is constructed.  If it is cyclic, an error is raised.
    5. Topological sort, evaluation in that order.

  plus, from the introduction of the same file: "modifying specifiers do not cause an
  ambiguity error ... if another specifier specifies the same property with the same
  priority: they take the already-specified value and manipulate it", "no property can
  be modified twice", "[the modifying version of `on`] does not accept a vector"; from
  ``docs/new.rst`` / the class docstrings: derived (``final``) properties such as
  ``heading`` and ``orientation`` "can no longer be set directly"; from
  ``docs/porting.rst``: in 2D compatibility mode ``with heading X`` is replaced with
  ``facing X`` and class-level defaults for ``heading`` become defaults for
  ``parentOrientation``.

The class structure (which class of the MRO declares a default for which property, with
which ``self.`` dependencies and attributes) is an *input* of the model: for user classes
it comes from the harness's own class descriptions, for the built-in classes it is read
from the raw per-class declarations.  The merge ("default values from subclasses
overriding those in superclasses", additive defaults collecting the whole chain) is done
here.
"""

from __future__ import annotations

import dataclasses
import re
from typing import Callable, Dict, FrozenSet, List, Optional, Tuple

# error kinds ---------------------------------------------------------------------
AMBIGUOUS = "ambiguous"  # same property, same priority, twice (incl. same specifier twice)
FINAL = "final"  # a derived (final) property is specified
MISSING = "missing-dependency"
CYCLIC = "cyclic"
MODIFIED_TWICE = "modified-twice"
ON_VECTOR = "modifying-on-vector"  # "this modifying version ... does not accept a vector"
NO_PROJECTION = "projection-unsupported"  # argument-level: the region type cannot project

DEFAULT = "default"


class DocError(Exception):
    """The reference documentation does not have the expected shape."""


# ---------------------------------------------------------------------------------
# 1. the documented table
# ---------------------------------------------------------------------------------
@dataclasses.dataclass(frozen=True)
class Entry:
    prop: str  # property name, or "<given>" for `with`
    priority: int
    modifies: bool  # "**modifies** existing value, if any"
    cond: Optional[str]  # None | "region-orientation"


@dataclasses.dataclass(frozen=True)
class Row:
    title: str
    specifies: Tuple[Entry, ...]
    deps: Tuple[str, ...]
    adds_requirement: bool


_BULLET = re.compile(r"^\s*\*\s+(.*\S)\s*$")
_PROP = re.compile(r"^:prop:`(\w+)` with priority (\d+)(.*)$")
_GIVEN = re.compile(r"^the given property, with priority (\d+)$")


def _is_underline(line, ch):
    s = line.rstrip("\n")
    return len(s) >= 3 and set(s) == {ch}


def parse_table(path) -> Dict[str, Row]:
    lines = open(path, encoding="utf-8").read().split("\n")
    sections: List[Tuple[str, List[str]]] = []
    cur = None
    i = 0
    while i < len(lines):
        nxt = lines[i + 1] if i + 1 < len(lines) else ""
        if lines[i].strip() and _is_underline(nxt, "-"):
            cur = (lines[i].strip().replace("*", ""), [])
            sections.append(cur)
            i += 2
            continue
        if lines[i].strip() and (_is_underline(nxt, "=") or _is_underline(nxt, "*")):
            cur = None
            i += 2
            continue
        if cur is not None:
            cur[1].append(lines[i])
        i += 1
    table: Dict[str, Row] = {}
    for title, body in sections:
        try:
            s0 = next(k for k, l in enumerate(body) if l.strip() == "**Specifies**:")
            d0 = next(k for k, l in enumerate(body) if l.strip().startswith("**Dependencies**:"))
        except StopIteration:
            raise DocError(f"section {title!r} has no Specifies/Dependencies block")
        if d0 < s0:
            raise DocError(f"section {title!r}: Dependencies before Specifies")
        entries = []
        adds_req = False
        for l in body[s0 + 1 : d0]:
            if not l.strip():
                continue
            m = _BULLET.match(l)
            if not m:
                raise DocError(f"section {title!r}: unexpected line in Specifies block: {l!r}")
            item = m.group(1)
            g = _GIVEN.match(item)
            p = _PROP.match(item)
            if g:
                entries.append(Entry("<given>", int(g.group(1)), False, None))
            elif p:
                rest = p.group(3).strip()
                modifies = False
                cond = None
                if rest.startswith(";"):
                    if "**modifies** existing value" not in rest:
                        raise DocError(f"section {title!r}: cannot read {item!r}")
                    modifies = True
                    rest = ""
                if rest:
                    if rest == "(if the region has a :term:`preferred orientation`)":
                        cond = "region-orientation"
                    else:
                        raise DocError(f"section {title!r}: cannot read condition {rest!r}")
                entries.append(Entry(p.group(1), int(p.group(2)), modifies, cond))
            elif item.startswith("also adds a requirement"):
                adds_req = True
            else:
                raise DocError(f"section {title!r}: cannot read bullet {item!r}")
        dl = body[d0].strip()[len("**Dependencies**:") :].strip()
        if dl == "None":
            deps: Tuple[str, ...] = ()
        else:
            deps = tuple(re.findall(r":prop:`(\w+)`", dl))
            if not deps or len(deps) != len(dl.split("•")):
                raise DocError(f"section {title!r}: cannot read dependencies {dl!r}")
        if not entries:
            raise DocError(f"section {title!r}: specifies nothing")
        if title in table:
            raise DocError(f"duplicate section {title!r}")
        table[title] = Row(title, tuple(entries), deps, adds_req)
    if len(table) < 20:
        raise DocError(f"only {len(table)} specifier sections found")
    return table


# row titles (after removing the rst emphasis asterisks) ------------------------------
T_WITH = "with property value"
T_AT = "at vector"
T_IN = "in region"
T_CONTAINED = "contained in region"
T_ON = "on (region | Object | vector)"
T_OFFSET_BY = "offset by vector"
T_OFFSET_ALONG = "offset along direction by vector"
T_BEYOND = "beyond vector by (vector | scalar) [from (vector | OrientedPoint)]"
T_VISIBLE = "visible [from (Point | OrientedPoint)]"
T_NOT_VISIBLE = "not visible [from (Point | OrientedPoint)]"
T_LR_VEC = "(left | right) of (vector) [by scalar]"
T_LR_OP = "(left | right) of OrientedPoint [by scalar]"
T_LR_OBJ = "(left | right) of Object [by scalar]"
T_AB_VEC = "(ahead of | behind) vector [by scalar]"
T_AB_OP = "(ahead of | behind) OrientedPoint [by scalar]"
T_AB_OBJ = "(ahead of | behind) Object [by scalar]"
T_UD_VEC = "(above | below) vector [by scalar]"
T_UD_OP = "(above | below) OrientedPoint [by scalar]"
T_UD_OBJ = "(above | below) Object [by scalar]"
T_FOLLOWING = "following vectorField [from vector] for scalar"
T_FACING = "facing orientation"
T_FACING_FIELD = "facing vectorField"
T_FACING_TOWARD = "facing (toward | away from) vector"
T_FACING_DIRECTLY = "facing directly (toward | away from) vector"
T_APPARENTLY = "apparently facing heading [from vector]"

ALL_TITLES = [v for k, v in sorted(globals().items()) if k.startswith("T_")]


# ---------------------------------------------------------------------------------
# 2. specifier instances as the model sees them
# ---------------------------------------------------------------------------------
@dataclasses.dataclass(frozen=True)
class SpecDesc:
    """A specifier instance: documented row + what is needed to instantiate the row."""

    key: str  # harness name of the instance
    title: str  # row title
    given: Optional[str] = None  # property for `with`
    region_orientation: bool = False  # argument is a region with preferred orientation
    vector_arg: bool = False  # `on <vector>`
    no_projection: bool = False  # `on <region>` whose type does not implement projection


@dataclasses.dataclass(frozen=True)
class SpecSem:
    key: str
    form: str  # row title actually applied (after the 2D rewriting)
    priorities: Tuple[Tuple[str, int], ...]
    modifiable: FrozenSet[str]
    deps: Tuple[str, ...]
    vector_arg: bool
    no_projection: bool = False

    @property
    def prio(self):
        return dict(self.priorities)


def semantics(table: Dict[str, Row], d: SpecDesc, mode2D: bool, oriented: bool = True) -> SpecSem:
    """oriented: the class being instantiated is OrientedPoint or a subclass of it."""
    title, given = d.title, d.given
    if mode2D and oriented and title == T_WITH and given == "heading":
        # porting.rst: "The specifier `with heading X` is replaced with `facing X`."
        # (a plain Point has no heading to face: there the text is read as not applying)
        title, given = T_FACING, None
    if title not in table:
        raise DocError(f"specifier form {title!r} not found in specifiers.rst")
    row = table[title]
    pr = []
    mod = set()
    for e in row.specifies:
        if e.cond == "region-orientation" and not d.region_orientation:
            continue
        prop = e.prop
        if prop == "<given>":
            if given is None:
                raise DocError("`with` without a property")
            prop = given
        pr.append((prop, e.priority))
        if e.modifies:
            mod.add(prop)
    return SpecSem(d.key, title, tuple(pr), frozenset(mod), tuple(row.deps), d.vector_arg, d.no_projection)


# ---------------------------------------------------------------------------------
# 3. classes
# ---------------------------------------------------------------------------------
@dataclasses.dataclass(frozen=True)
class Decl:
    """One `prop[attrs]: value` line of one class."""

    deps: FrozenSet[str]
    final: bool = False
    additive: bool = False
    dynamic: bool = False
    expr: Optional[str] = None  # source text of the default (user classes only)


@dataclasses.dataclass(frozen=True)
class Merged:
    deps: FrozenSet[str]
    final: bool
    additive: bool
    exprs: Tuple[Optional[str], ...]  # most derived first (length 1 unless additive)


def c3_mro(name: str, bases: Dict[str, Tuple[str, ...]]) -> List[str]:
    """Python's C3 linearisation over the described classes (Scenic classes are Python
    classes; `bases` maps a described class to its bases, anything else is a leaf).
    The reference does not say how several superclasses are ordered: that "superclasses"
    means the Python MRO is an assumption of this model."""

    def lin(n):
        bs = bases.get(n, ())
        if not bs:
            return [n]
        seqs = [lin(b) for b in bs] + [list(bs)]
        out = [n]
        while any(seqs):
            for seq in seqs:
                if not seq:
                    continue
                head = seq[0]
                if not any(head in other[1:] for other in seqs):
                    break
            else:
                raise DocError(f"no consistent MRO for {n}")
            out.append(head)
            for seq in seqs:
                if seq and seq[0] == head:
                    del seq[0]
        return out

    return lin(name)


def merge_defaults(chain: List[Dict[str, Decl]]) -> Dict[str, Merged]:
    """chain: declarations per class in MRO order, most derived class first.

    "default values from subclasses overriding those in superclasses": the first class of
    the MRO declaring a property decides.  If that declaration is additive, the property
    collects the values of *every* declaration of it along the MRO (whatever their own
    attributes), most derived first, and so depends on everything any of them depends on.
    """
    out: Dict[str, Merged] = {}
    for k, decls in enumerate(chain):
        for prop, d in decls.items():
            if prop in out:
                continue
            if d.additive:
                rest = [c[prop] for c in chain[k + 1 :] if prop in c]
                deps = set(d.deps)
                for r in rest:
                    deps |= r.deps
                out[prop] = Merged(frozenset(deps), d.final, True, tuple([d.expr] + [r.expr for r in rest]))
            else:
                out[prop] = Merged(frozenset(d.deps), d.final, False, (d.expr,))
    return out


# ---------------------------------------------------------------------------------
# 4. the resolution procedure
# ---------------------------------------------------------------------------------
@dataclasses.dataclass
class Outcome:
    errors: FrozenSet[str]  # non-empty: creating the object must fail with one of these kinds
    winner: Dict[str, object]  # property -> index into the specifier list | DEFAULT
    modifier: Dict[str, int]  # property -> index of the modifying specifier
    deps: Dict[object, Tuple[str, ...]]  # node (index | ("default", prop)) -> dependencies
    shadowed_tie: bool  # an equal-priority pair exists *below* the best priority of its property
    top_tie: bool  # an equal-priority pair exists at the best priority of its property
    priority_conflicts: int  # properties with >= 2 specifiers at different priorities
    detail: str = ""
    may_refuse_projection: bool = False  # a modifying `on` whose region type cannot project
    final_only_by_modifying_form: bool = False  # every specified final property is specified
    # only by specifiers of a row that can modify (i.e. `on`)


def resolve(sems: List[SpecSem], defaults: Dict[str, Merged], extra_finals=frozenset()) -> Outcome:
    errors = set()
    detail = []
    finals = {p for p, m in defaults.items() if m.final} | set(extra_finals)

    # who specifies what
    by_prop: Dict[str, List[Tuple[int, int, bool]]] = {}
    for i, s in enumerate(sems):
        for prop, pri in s.priorities:
            by_prop.setdefault(prop, []).append((i, pri, prop in s.modifiable))

    winner: Dict[str, object] = {}
    modifier: Dict[str, int] = {}
    shadowed_tie = top_tie = False
    conflicts = 0
    for prop, lst in by_prop.items():
        if prop in finals:
            errors.add(FINAL)
            detail.append(f"{prop} is final")
        normal = [(i, pri) for i, pri, m in lst if not m]
        modif = [(i, pri) for i, pri, m in lst if m]
        best_n = min((pri for _, pri in normal), default=None)
        # a modifying specifier acts as an ordinary specifier when nothing of at least its
        # priority is there to be modified ("If position is not already specified with
        # priority 1, positions ...")
        as_normal = [(i, pri) for i, pri in modif if best_n is None or pri < best_n]
        as_modifier = [(i, pri) for i, pri in modif if not (best_n is None or pri < best_n)]
        cands = normal + as_normal
        best = min(pri for _, pri in cands)
        # step 1: same priority level twice
        levels: Dict[int, int] = {}
        for _, pri in cands:
            levels[pri] = levels.get(pri, 0) + 1
        for pri, n in levels.items():
            if n > 1:
                errors.add(AMBIGUOUS)
                detail.append(f"{prop} specified {n} times with priority {pri}")
                if pri == best:
                    top_tie = True
                else:
                    shadowed_tie = True
        if len(levels) > 1:
            conflicts += 1
        if len(as_modifier) > 1:
            errors.add(MODIFIED_TWICE)
        top = [i for i, pri in cands if pri == best]
        winner[prop] = top[0]
        if as_modifier:
            modifier[prop] = as_modifier[0][0]

    out = Outcome(frozenset(errors), winner, modifier, {}, shadowed_tie, top_tie, conflicts, "; ".join(detail))
    spec_finals = [p for p in by_prop if p in finals]
    out.final_only_by_modifying_form = bool(spec_finals) and all(sems[i].modifiable for p in spec_finals for i, _, _ in by_prop[p])
    if errors:
        return out

    # steps 2-3: defaults for everything not specified
    for prop in defaults:
        if prop not in winner:
            winner[prop] = DEFAULT

    # step 4: dependency graph over *all* specifiers of S (also those that determine nothing)
    node_deps: Dict[object, Tuple[str, ...]] = {}
    for i, s in enumerate(sems):
        node_deps[i] = tuple(s.deps)
    for prop, w in winner.items():
        if w == DEFAULT:
            node_deps[(DEFAULT, prop)] = tuple(sorted(defaults[prop].deps))
    out.deps = node_deps

    def provider(prop):
        if prop in modifier:
            return modifier[prop]
        w = winner.get(prop)
        if w is None:
            return None
        return (DEFAULT, prop) if w == DEFAULT else w

    edges: Dict[object, List[object]] = {}
    for node, deps in node_deps.items():
        succ = []
        for d in deps:
            p = provider(d)
            if p is None:
                errors.add(MISSING)
                detail.append(f"{d} required by {node} is not specified")
            else:
                succ.append(p)
        edges[node] = succ
    # a modifying specifier needs the value it modifies
    for prop, m in modifier.items():
        w = winner[prop]
        edges[m].append((DEFAULT, prop) if w == DEFAULT else w)

    state: Dict[object, int] = {}

    def dfs(start):
        stack = [(start, iter(edges[start]))]
        state[start] = 1
        while stack:
            node, it = stack[-1]
            for nx in it:
                st = state.get(nx, 0)
                if st == 1:
                    return True
                if st == 0:
                    state[nx] = 1
                    stack.append((nx, iter(edges[nx])))
                    break
            else:
                state[node] = 2
                stack.pop()
        return False

    for node in edges:
        if state.get(node, 0) == 0 and dfs(node):
            errors.add(CYCLIC)
            detail.append("cyclic dependencies")
            break
    if errors:
        out.errors = frozenset(errors)
        out.detail = "; ".join(detail)
        return out

    # step 5: evaluation; the only documented evaluation-time refusal
    for prop, m in modifier.items():
        if sems[m].vector_arg:
            errors.add(ON_VECTOR)
            detail.append("modifying `on` with a vector")
        elif sems[m].no_projection:
            # outside the resolution procedure: projecting a *concrete* position fails at
            # once, projecting a random one only when a scene is sampled
            out.may_refuse_projection = True
    out.errors = frozenset(errors)
    out.detail = "; ".join(detail)
    return out


# ---------------------------------------------------------------------------------
# 5. documented finals of the built-in classes (docstrings rendered in classes.rst)
# ---------------------------------------------------------------------------------
_DOCPROP = re.compile(r"^\s{8}(\w+) \(([^)]*(?:\([^)]*\)[^)]*)*)\):")


def documented_finals(docstring: str) -> FrozenSet[str]:
    """Properties flagged `final` in the `Properties:` list of a class docstring."""
    out = set()
    for line in (docstring or "").split("\n"):
        m = _DOCPROP.match(line)
        if m and re.search(r"\bfinal\b", m.group(2)):
            out.add(m.group(1))
    return frozenset(out)
