"""World model used by C14's programs (imported with `model verif_model`)."""
import verif_probe as probe
probe.ev("model.import")

class Thing(Object):
    foo: probe.val("thingfoo")
    bar: 2
    allowCollisions: True
