"""Probe module imported by generated Scenic programs (DESIGN §2.2 ProbeModule).

Plain Python (not Scenic), so Scenic's module purging never touches it.  The harness
configures STATE before each run; programs call ev/cond/Act/rec.
"""

import scenic.syntax.veneer as _veneer
from scenic.core.dynamics.actions import Action as _Action


class _State:
    def __init__(self):
        self.reset()

    def reset(self, tables=None, fault=None, default=False):
        self.log = []  # (time, tag)
        self.tables = tables or {}
        self.default = default
        self.fault = fault  # (visit_index, exception factory) or None
        self.visits = 0
        self.cond_evals = []  # (time, name, value)
        self.sites = []  # tag of every fault site visit, in order
        self.flags = {}  # program state written by `setflag`, read by conditions "flag:<name>"


STATE = _State()


def now():
    sim = _veneer.currentSimulation
    if sim is None:
        return -1
    return sim.currentTime


def _site(tag):
    st = STATE
    i = st.visits
    st.visits += 1
    st.sites.append(tag)
    if st.fault is not None and st.fault[0] == i:
        raise st.fault[1]()


class HangDetected(BaseException):
    """More events in one run than any program of the fragments can produce."""


MAX_EVENTS = 20000


def ev(tag):
    """Mark that control reached this point."""
    STATE.log.append((now(), tag))
    if len(STATE.log) > MAX_EVENTS:
        raise HangDetected(tag)
    _site(tag)
    return True


def cond(name):
    """Scripted truth value of condition `name` at the current time step."""
    t = now()
    tab = STATE.tables.get(name)
    if name.startswith("flag:"):
        v = bool(STATE.flags.get(name[5:], False))
    elif name.startswith("notflag:"):
        v = not STATE.flags.get(name[8:], False)
    elif tab is None:
        v = STATE.default
    elif callable(tab):
        v = tab(t)
    else:
        v = tab[min(max(t, 0), len(tab) - 1)]
    STATE.cond_evals.append((t, name, v))
    _site("?" + name)
    return v


def setflag(name, value):
    """Program state: read back by conditions named "flag:<name>"."""
    STATE.flags[name] = bool(value)
    return True


def val(name):
    """Scripted arbitrary value (same table mechanism as cond)."""
    return cond(name)


def rec(tag, value=None):
    STATE.log.append((now(), "rec:" + tag))
    _site("rec:" + tag)
    return (tag, now()) if value is None else value


class Act(_Action):
    def __init__(self, tag):
        self.tag = tag

    def applyTo(self, agent, simulation):
        STATE.log.append((now(), f"apply:{getattr(agent, 'name', '?')}:{self.tag}"))
        _site("apply:" + str(self.tag))

    def __repr__(self):
        return f"Act({self.tag!r})"
