"""C08 -- pruning never changes which scenes can be generated.

Technique: bounded-exhaustive enumeration, no sampling.

Every program of gen/prune_c08.py is compiled twice, with `scenic.syntax.translator.usePruning`
off (U) and on (P, under a CPU-time watchdog).  The three pruning passes are observed through
wrappers (which pass replaced which object's position).

Stage A (position samplers).  For every object whose position is a point drawn uniformly in
a region (optionally plus an offset), the *sampler of that region* (`uniformPointInner`) is
driven through the complete N^k midpoint lattice of its k continuous random inputs and all
of its discrete branches (triangle choice of `PolygonalRegion`, ...) under the seam below; one
attempt per execution (retry loops are cut).  This gives a finite list of candidate base
points per object, for U (original region) and for P (pruned region).

Stage B (scenes).  A lattice scene = one candidate base point per positioned object x one
value of every other random input (Range -> endpoint-inclusive quantile lattice, Options /
Uniform -> every option, soft requirements -> active and inactive).  The scene is built by
Scenic's own `Samplable.sampleAll(scenario.dependencies)` (the position distributions
answer with the chosen candidate, the other draws are answered by the seam) and judged by
Scenic's own `scenario.checker.checkRequirements(sample)`.  For every candidate c of every
object the scenes containing c are enumerated until one is accepted (then c is *feasible*);
all of them are enumerated when none is.  While one object is the focus (lattice N_pair) the
other positioned objects run through a coarser lattice (N_partner).

Oracle
 (1) no feasible scene is lost: every base point of an accepted U scene lies in the region
     the pruned program samples from (the region of `obj.position._conditioned`; when that
     region depends on other objects, its value in P under the same forced draws), tested with
     the region's own `containsPoint` and with an independent membership test computed here
     from the region's vertices (even-odd rule for polygons with holes, winding number for
     meshes); points closer than MARGIN*scale to the boundary are skipped and counted.
 (2) no scene is added: every base point of an accepted P scene lies in the original region
     (same two tests), and the scene is accepted by U when U's position distributions and
     other random inputs are forced to the same values.
 (3) all non-positional properties of the compiled objects, the parameters and the requirement
     lists are structurally identical.
 (4) compiling with pruning fails only if U has no accepted lattice scene
     (`infeasible-reported:*` for InvalidScenarioError, `compile-crash:<Type>:*` otherwise).
 (5) compiling with pruning finishes within WATCHDOG seconds of CPU time (`hang:*`).

Signatures: `<failure>:<pruning passes that changed the object>:<family>[<constructs in which
the program differs from the family default>]`, e.g. `scene-lost:relheading:rh[dist=D!=c]`.
Defects found on the pinned tree are reproduced by findings/c08_pruning_defects.py; a patch
is proposed in findings/c08_proposed_fixes.patch.
"""

from __future__ import annotations

import contextlib
import io
import itertools
import math
import random
import re
import signal
import time

import numpy as np

from mc import explorer, seams
from mc.explorer import HarnessError
from models import solid
from gen import prune_c08 as G

ID = "C08"
LEVEL = "exploration"

WATCHDOG = 60  # seconds of CPU time, pruned compilation
WALL_FACTOR = 5  # ... and 5 x 60 s of wall-clock time
MARGIN = 1e-6  # relative to the region's scale: closer to the boundary = not judged
ONE = 1.0 - 2.0**-53


# =========================================================================================
# seam
# =========================================================================================
class _Cut(BaseException):
    """A region sampler asked for more randomness than one attempt needs (retry loop)."""


class _Hang(BaseException):
    pass


class _Unaligned(Exception):
    """Forced replay met a draw that does not match the recorded one."""


class _S:
    N = 8  # lattice of the region sampler being driven
    aux_n = 2  # quantiles of the other continuous draws
    stack = []  # one [used, budget] per primitive uniformPointInner being executed
    aux_log = []  # (kind, args, answer) of every non-positional draw of this execution
    forced_aux = None  # list to replay instead of asking the explorer
    pir_handler = None  # callable(pir, value) -> point, installed by the scene evaluator
    np_fixed = None  # RandomState for numpy draws outside samplers (heuristics only)
    np_fixed_calls = 0
    installed = False


def _aux_quantiles(n):
    if n == 1:
        return (0.5,)
    return tuple(min(i / (n - 1), ONE) for i in range(n))


def _begin_execution():
    _S.stack = []
    _S.aux_log = []
    _S.np_fixed = np.random.RandomState(20240508)  # fixed seed: heuristics only, see notes


def _pos_draw():
    top = _S.stack[-1]
    if top[0] >= top[1]:
        raise _Cut()
    top[0] += 1
    i = explorer.choose(_S.N, tag="L")
    return (2 * i + 1) / (2 * _S.N)


def _aux(kind, args, n, weights=None):
    """A draw outside the position samplers: ask the explorer or replay."""
    if _S.forced_aux is not None:
        if not _S.forced_aux:
            raise _Unaligned("more draws than recorded")
        k, a, ans = _S.forced_aux.pop(0)
        if k != kind or a != args:
            raise _Unaligned(f"recorded {k}{a}, now {kind}{args}")
        _S.aux_log.append((kind, args, ans))
        return ans
    ans = explorer.choose(n, weights=weights, tag=kind) if n > 1 else 0
    _S.aux_log.append((kind, args, ans))
    return ans


def s_uniform(a, b):
    if _S.stack:
        return a + (b - a) * _pos_draw()
    q = _aux_quantiles(_S.aux_n)
    i = _aux("uniform", (float(a), float(b)), len(q))
    return a + (b - a) * q[i]


def s_random():
    if _S.stack:
        return _pos_draw()
    q = (0.25, 0.75)
    return q[_aux("random", (), 2)]


def s_triangular(low=0.0, high=1.0, mode=None):
    u = s_random() if not _S.stack else _pos_draw()
    try:
        c = 0.5 if mode is None else (mode - low) / (high - low)
    except ZeroDivisionError:
        return low
    if u > c:
        u, c, low, high = 1.0 - u, 1.0 - c, high, low
    return low + (high - low) * math.sqrt(u * c)


def _disc(n, args=()):
    """Discrete branch: every alternative is explored."""
    if n == 1:
        return 0
    if _S.stack:
        return explorer.choose(n, tag="sel")
    return _aux("disc", (n,) + tuple(args), n)


_POS_CACHE = {}


def _positive(cum):
    """Indices of the alternatives with positive weight (the law over them is irrelevant here:
    every one of them is explored)."""
    key = (id(cum), len(cum))
    hit = _POS_CACHE.get(key)
    if hit is not None and hit[0] is cum:
        return hit[1]
    idx = [i for i in range(len(cum)) if cum[i] > (cum[i - 1] if i else 0)]
    if isinstance(cum, tuple):
        if len(_POS_CACHE) > 64:
            _POS_CACHE.clear()
        _POS_CACHE[key] = (cum, idx)
    return idx


def s_choices(population, weights=None, *, cum_weights=None, k=1):
    if k != 1:
        raise HarnessError("choices with k != 1")
    n = len(population)
    if cum_weights is None:
        if weights is None:
            return [population[_disc(n)]]
        cum_weights = list(itertools.accumulate(weights))
    idx = _positive(cum_weights)
    if not idx:
        raise ValueError("Total of weights must be greater than zero")
    return [population[idx[_disc(len(idx))]]]


def s_randrange(start, stop=None, step=1):
    if step != 1:
        raise HarnessError("randrange step")
    if stop is None:
        start, stop = 0, start
    if stop <= start:
        raise ValueError("empty range for randrange()")
    return start + _disc(stop - start)


def s_randint(a, b):
    return s_randrange(a, b + 1)


def s_choice(seq):
    if not len(seq):
        raise IndexError("Cannot choose from an empty sequence")
    return seq[_disc(len(seq))]


def _np_random(size=None, *more):
    """numpy.random.random / random_sample / rand."""
    if more:
        size = (size,) + tuple(more)
    if size is None:
        shape = ()
    elif isinstance(size, (int, np.integer)):
        shape = (int(size),)
    else:
        shape = tuple(int(s) for s in size)
    if not _S.stack:
        # requirement-checking heuristics (candidate points of containment passes, ray
        # retries of trimesh): deterministic stream, not part of the scene
        _S.np_fixed_calls += 1
        if _S.np_fixed is None:
            _S.np_fixed = np.random.RandomState(20240508)
        return _S.np_fixed.random_sample(shape if shape else None)
    if len(shape) == 2:
        shape = (1, shape[1])  # trimesh.sample.volume_mesh: one candidate per attempt
    n = int(np.prod(shape)) if shape else 1
    if n > 6:
        raise HarnessError(f"unexpected numpy batch {shape} inside a region sampler")
    vals = [_pos_draw() for _ in range(n)]
    return np.array(vals).reshape(shape) if shape else vals[0]


_PRIMITIVE_BUDGET = {"PolygonalRegion": 2, "PolylineRegion": 1, "PathRegion": 1}


def _wrap_primitive(cls):
    orig = cls.__dict__["uniformPointInner"]
    budget = _PRIMITIVE_BUDGET.get(cls.__name__, 3)

    def uniformPointInner(self):
        if not _S.installed:
            return orig(self)
        _S.stack.append([0, budget])
        try:
            return orig(self)
        finally:
            _S.stack.pop()

    uniformPointInner._c08_orig = orig
    return uniformPointInner


@contextlib.contextmanager
def scene_seam():
    """random / numpy.random answered by the explorer; primitive region samplers get a draw
    budget; `PointInRegionDistribution.sampleGiven` is routed to `_S.pir_handler`."""
    import numpy.random as npr
    import scenic.core.regions as R
    from scenic.core.workspaces import Workspace

    combinators = (R.IntersectionRegion, R.UnionRegion, R.DifferenceRegion, Workspace)
    todo, seen = [R.Region], set()
    prims = []
    while todo:
        c = todo.pop()
        if c in seen:
            continue
        seen.add(c)
        todo.extend(c.__subclasses__())
        if "uniformPointInner" in c.__dict__ and c not in combinators and c is not R.Region:
            prims.append(c)
    if R.PolygonalRegion not in prims or R.MeshVolumeRegion not in prims:
        raise HarnessError("seam target uniformPointInner missing")
    saved_prims = {c: c.__dict__["uniformPointInner"] for c in prims}
    pir_cls = R.PointInRegionDistribution
    orig_pir = pir_cls.__dict__["sampleGiven"]

    def sampleGiven(self, value):
        h = _S.pir_handler
        if h is None:
            return orig_pir(self, value)
        return h(self, value)

    with seams.rng_seam(mode="lattice", lattice_n=2):
        mine = dict(
            random=s_random,
            uniform=s_uniform,
            triangular=s_triangular,
            choices=s_choices,
            randrange=s_randrange,
            randint=s_randint,
            choice=s_choice,
        )
        saved = {k: getattr(random, k) for k in mine}
        np_names = [n for n in ("random", "random_sample", "rand", "ranf", "sample") if hasattr(npr, n)]
        saved_np = {k: getattr(npr, k) for k in np_names}
        try:
            for k, f in mine.items():
                setattr(random, k, f)
            for k in np_names:
                setattr(npr, k, _np_random)
            for c in prims:
                c.uniformPointInner = _wrap_primitive(c)
            pir_cls.sampleGiven = sampleGiven
            _S.installed = True
            yield
        finally:
            _S.installed = False
            _S.pir_handler = None
            _S.forced_aux = None
            _S.stack = []
            pir_cls.sampleGiven = orig_pir
            for c, f in saved_prims.items():
                c.uniformPointInner = f
            for k, f in saved.items():
                setattr(random, k, f)
            for k, f in saved_np.items():
                setattr(npr, k, f)


def seam_selftest():
    import scenic.core.regions as R
    from scenic.core.vectors import Vector

    sq = R.PolygonalRegion([Vector(0, 0), Vector(2, 0), Vector(2, 2), Vector(0, 2)])
    box = R.BoxRegion(dimensions=(2, 2, 2))
    with scene_seam():
        pts, n, cut = sampler_candidates(sq, 4, 10000)
        pts3, n3, cut3 = sampler_candidates(box, 3, 10000)

        def prog():
            _begin_execution()
            return random.uniform(1, 3), random.choices("ab", weights=[1, 3])[0]

        _S.aux_n = 3
        runs, _ = explorer.explore_all(prog)
    if n != 2 * 16 or len(pts) != 16 or cut != 12:
        # two triangles x 4^2 draws; 10 of the 16 lattice points of the bounding box are in each
        # triangle (4 on the shared diagonal), the other 6 ask for a retry and are cut
        raise HarnessError(f"seam selftest: polygon sampler lattice {n} executions, {len(pts)} points, {cut} cut")
    if n3 != 27 or len(pts3) != 27:
        raise HarnessError(f"seam selftest: box sampler lattice {n3} executions, {len(pts3)} points")
    if sorted({round(r[0], 9) for _, r in runs}) != [1.0, 2.0, 3.0] or len(runs) != 6:
        raise HarnessError("seam selftest: aux lattice")
    if not isinstance(random.random(), float) or _S.installed:
        raise HarnessError("seam not restored")
    if "uniformPointInner" not in R.PolygonalRegion.__dict__ or hasattr(R.PolygonalRegion.uniformPointInner, "_c08_orig"):
        raise HarnessError("region samplers not restored")


# =========================================================================================
# stage A: candidates of one region sampler
# =========================================================================================
def sampler_candidates(region, N, cap):
    """All points `region.uniformPointInner()` returns over the N^k lattice of its continuous
    inputs and all discrete branches (one attempt each).  Must run inside scene_seam()."""
    from scenic.core.distributions import RejectionException

    def once():
        _begin_execution()
        try:
            return region.uniformPointInner()
        except RejectionException:
            return None
        except _Cut:
            return "cut"

    old = _S.N
    _S.N = N
    pts, n, cut = [], 0, 0
    seen = set()
    try:
        for ex, res, stats in explorer.explore(once, max_executions=cap):
            n += 1
            if res is None:
                continue
            if isinstance(res, str):
                cut += 1
                continue
            key = (res[0], res[1], res[2])
            if key not in seen:
                seen.add(key)
                pts.append(res)
        if stats.capped:
            raise HarnessError(f"sampler lattice of {region!r} exceeds {cap} executions")
    finally:
        _S.N = old
    return pts, n, cut


# =========================================================================================
# independent membership
# =========================================================================================
class Shape:
    """Independent description of a fixed region, built from its vertices."""

    def __init__(self, kind, **kw):
        self.kind = kind
        self.__dict__.update(kw)


def _rings(geom):
    polys = list(geom.geoms) if hasattr(geom, "geoms") else [geom]
    out = []
    for p in polys:
        if p.is_empty:
            continue
        ext = [tuple(c[:2]) for c in p.exterior.coords][:-1]
        holes = [[tuple(c[:2]) for c in r.coords][:-1] for r in p.interiors]
        out.append((ext, holes))
    return out


def _ring_area(r):
    a = 0.0
    for i in range(len(r)):
        x1, y1 = r[i]
        x2, y2 = r[(i + 1) % len(r)]
        a += x1 * y2 - x2 * y1
    return abs(a) / 2


def shape_of(region):
    """Shape for a *fixed* Scenic region, or None when no independent description exists."""
    import scenic.core.regions as R
    from scenic.core.workspaces import Workspace
    from scenic.core.distributions import needsSampling

    if isinstance(region, Workspace):
        return shape_of(region.region)
    if needsSampling(region):
        return None
    if isinstance(region, R.AllRegion):
        return Shape("all", scale=1.0, size=math.inf)
    if isinstance(region, R.EmptyRegion):
        return Shape("empty", scale=1.0, size=0.0)
    if isinstance(region, (R.PolygonalRegion, R.PolygonalFootprintRegion)):
        rings = _rings(region.polygons)
        xs = [x for ext, _ in rings for x, _y in ext]
        ys = [y for ext, _ in rings for _x, y in ext]
        scale = max(max(xs) - min(xs), max(ys) - min(ys), 1e-9)
        size = sum(_ring_area(e) - sum(_ring_area(h) for h in hs) for e, hs in rings)
        z = region.z if isinstance(region, R.PolygonalRegion) else None
        return Shape("poly", rings=rings, z=z, scale=scale, size=size)
    if isinstance(region, R.MeshVolumeRegion):
        m = region.mesh
        V = np.array(m.vertices, float)
        F = np.array(m.faces, np.int64)
        S = solid.Solid(V, F, E=np.zeros((0, 2), np.int64), reps=[])
        return Shape("mesh", S=S, scale=float(max(S.hi - S.lo)), size=abs(S.volume()))
    if isinstance(region, R.IntersectionRegion):
        parts = [shape_of(r) for r in region.regions]
        if any(p is None for p in parts):
            return None
        return Shape("and", parts=parts, scale=min(p.scale for p in parts), size=None)
    if isinstance(region, R.DifferenceRegion):
        a, b = shape_of(region.regionA), shape_of(region.regionB)
        if a is None or b is None:
            return None
        return Shape("diff", parts=[a, b], scale=a.scale, size=None)
    return None


def _seg_dist(px, py, ring):
    d = math.inf
    n = len(ring)
    for i in range(n):
        x1, y1 = ring[i]
        x2, y2 = ring[(i + 1) % n]
        dx, dy = x2 - x1, y2 - y1
        den = dx * dx + dy * dy
        t = 0.0 if den == 0 else max(0.0, min(1.0, ((px - x1) * dx + (py - y1) * dy) / den))
        d = min(d, math.hypot(px - x1 - t * dx, py - y1 - t * dy))
    return d


def _in_ring(px, py, ring):
    inside = False
    n = len(ring)
    for i in range(n):
        x1, y1 = ring[i]
        x2, y2 = ring[(i + 1) % n]
        if (y1 > py) != (y2 > py):
            if px < x1 + (py - y1) * (x2 - x1) / (y2 - y1):
                inside = not inside
    return inside


def member(shape, p):
    """(inside: bool, distance to the boundary).  p = (x, y, z)."""
    k = shape.kind
    if k == "all":
        return True, math.inf
    if k == "empty":
        return False, math.inf
    if k == "poly":
        inside, d = False, math.inf
        for ext, holes in shape.rings:
            d = min(d, _seg_dist(p[0], p[1], ext))
            here = _in_ring(p[0], p[1], ext)
            for h in holes:
                d = min(d, _seg_dist(p[0], p[1], h))
                if here and _in_ring(p[0], p[1], h):
                    here = False
            inside = inside or here
        if shape.z is not None and abs(p[2] - shape.z) > MARGIN * shape.scale:
            return False, min(d, abs(p[2] - shape.z)) if inside else d
        return inside, d
    if k == "mesh":
        P = np.array([p], float)
        w = float(solid.winding_number(P, shape.S)[0])
        d = float(solid.point_surface_dist(P, shape.S)[0])
        return abs(w) > 0.5, d
    if k == "and":
        rs = [member(s, p) for s in shape.parts]
        return all(r[0] for r in rs), min(r[1] for r in rs)
    if k == "diff":
        (ia, da), (ib, db) = member(shape.parts[0], p), member(shape.parts[1], p)
        return ia and not ib, min(da, db)
    raise HarnessError(k)


# =========================================================================================
# compilation, observation of the pruning passes
# =========================================================================================
def _alarm(signum, frame):
    # re-arm first: an exception raised inside a __del__ or a callback is swallowed by the
    # interpreter, the next tick then raises again
    signal.setitimer(signal.ITIMER_PROF, 1.0)
    signal.alarm(1)
    raise _Hang()


STAGES = ("containment", "relheading", "visibility")


def compile_pair(text, mode2D):
    """-> dict(U=, P=, u_error=, p_error=, hang=, stages=[set per object], log=, t_prune=)"""
    import scenic
    import scenic.core.errors as errors
    import scenic.core.pruning as pruning
    import scenic.syntax.translator as translator

    out = {"U": None, "P": None, "u_error": None, "p_error": None, "hang": False, "stages": None, "log": ""}
    old = translator.usePruning
    translator.usePruning = False
    try:
        out["U"] = scenic.scenarioFromString(text, mode2D=mode2D)
    except Exception as e:
        out["u_error"] = e
    finally:
        translator.usePruning = old

    names = {"containment": "pruneContainment", "relheading": "pruneRelativeHeading", "visibility": "pruneVisibility"}
    saved = {}
    changed = {}

    def observe(stage, fn):
        def wrapped(scenario, verbosity):
            before = [id(o.position._conditioned) for o in scenario.objects]
            try:
                r = fn(scenario, verbosity)
                changed.setdefault("reached", []).append(stage)
                return r
            finally:
                for i, o in enumerate(scenario.objects):
                    if id(o.position._conditioned) != before[i]:
                        changed.setdefault(i, []).append(stage)

        return wrapped

    for st, nm in names.items():
        if not hasattr(pruning, nm):
            raise HarnessError(f"seam target scenic.core.pruning.{nm} is gone")
        saved[nm] = getattr(pruning, nm)
        setattr(pruning, nm, observe(st, saved[nm]))
    old_verb = errors.verbosityLevel
    errors.verbosityLevel = 1
    buf = io.StringIO()
    # watchdog: WATCHDOG seconds of CPU time of this process (immune to machine load), and
    # WALL_FACTOR times as much wall-clock time (a hang that does not burn CPU)
    old_handler = signal.signal(signal.SIGALRM, _alarm)
    old_prof = signal.signal(signal.SIGPROF, _alarm)
    t0 = time.time()
    translator.usePruning = True
    try:
        try:
            signal.setitimer(signal.ITIMER_PROF, WATCHDOG)
            signal.alarm(WATCHDOG * WALL_FACTOR)
            with contextlib.redirect_stdout(buf):
                out["P"] = scenic.scenarioFromString(text, mode2D=mode2D)
        finally:
            signal.setitimer(signal.ITIMER_PROF, 0)
            signal.alarm(0)
    except _Hang:
        out["hang"] = True
    except Exception as e:
        out["p_error"] = e
    finally:
        signal.setitimer(signal.ITIMER_PROF, 0)
        signal.alarm(0)
        translator.usePruning = old
        signal.signal(signal.SIGALRM, old_handler)
        signal.signal(signal.SIGPROF, old_prof)
        errors.verbosityLevel = old_verb
        for nm, f in saved.items():
            setattr(pruning, nm, f)
        _reset_veneer()
    out["t_prune"] = time.time() - t0
    out["log"] = buf.getvalue()
    out["stages"] = changed
    return out


def _reset_veneer():
    """An exception (or the watchdog) inside compilation may leave the veneer active."""
    try:
        import scenic.syntax.veneer as veneer

        if veneer.isActive():
            while veneer.isActive():
                veneer.deactivate()
    except Exception:
        pass


# =========================================================================================
# (3) structural comparison of non-positional properties
# =========================================================================================
_ADDR = re.compile(r" at 0x[0-9a-fA-F]+")
POSITIONAL = {"position"}


def canon(v, depth=0):
    from scenic.core.distributions import Samplable

    if depth > 6:
        return "..."
    if isinstance(v, (int, float, str, bool, type(None))):
        return repr(v)
    if isinstance(v, (tuple, list)):
        return "[" + ",".join(canon(x, depth + 1) for x in v) + "]"
    if isinstance(v, dict):
        return "{" + ",".join(f"{k}:{canon(x, depth + 1)}" for k, x in sorted(v.items(), key=lambda kv: str(kv[0]))) + "}"
    try:
        r = repr(v)
    except Exception as e:  # pragma: no cover
        r = f"<unrepr {type(v).__name__}>"
    r = _ADDR.sub("", r)
    if isinstance(v, Samplable) and v._conditioned is not v:
        r += "=>" + _ADDR.sub("", repr(v._conditioned))
    return type(v).__name__ + ":" + r


def compare_properties(U, P):
    diffs = []
    if len(U.objects) != len(P.objects):
        return [("objects", len(U.objects), len(P.objects))]
    for i, (a, b) in enumerate(zip(U.objects, P.objects)):
        pa, pb = sorted(a.properties), sorted(b.properties)
        if pa != pb:
            diffs.append((f"obj{i}.properties", pa, pb))
            continue
        for prop in pa:
            if prop in POSITIONAL:
                continue
            ca, cb = canon(getattr(a, prop)), canon(getattr(b, prop))
            if ca != cb:
                diffs.append((f"obj{i}.{prop}", ca[:300], cb[:300]))
    ka, kb = sorted(U.params), sorted(P.params)
    if ka != kb:
        diffs.append(("params", ka, kb))
    else:
        for k in ka:
            if canon(U.params[k]) != canon(P.params[k]):
                diffs.append((f"param {k}", canon(U.params[k])[:300], canon(P.params[k])[:300]))
    ra = [(r.line, r.prob, r.ty.name) for r in U.userRequirements]
    rb = [(r.line, r.prob, r.ty.name) for r in P.userRequirements]
    if ra != rb:
        diffs.append(("requirements", ra, rb))
    if len(U.defaultRequirements) != len(P.defaultRequirements):
        diffs.append(("defaultRequirements", len(U.defaultRequirements), len(P.defaultRequirements)))
    return diffs


# =========================================================================================
# stage B: scenes
# =========================================================================================
class Side:
    """One compiled scenario with its positioned objects and candidate lists."""

    def __init__(self, scenario, conditioned):
        import scenic.core.pruning as pruning

        self.scn = scenario
        self.bases = {}  # object index -> (region, offset, pir)
        self.pir_obj = {}  # id(pir) -> object index
        for i, o in enumerate(scenario.objects):
            pos = o.position._conditioned if conditioned else o.position
            reg, off, pir = pruning.matchInRegion(pos)
            if pir is not None:
                self.bases[i] = (reg, off, pir)
                self.pir_obj[id(pir)] = i
        self.cands = {}  # object index -> list of points (fixed regions only)
        self.stats = {}
        self.other_cands = {}  # id(pir) -> list, PIRs that are not the base of an object
        self.keep = []

    def prepare(self, N_of, cap):
        from scenic.core.distributions import needsSampling

        for i, (reg, off, pir) in self.bases.items():
            if needsSampling(reg):
                self.cands[i] = None  # sampled inline at the partner resolution
                continue
            pts, n, cut = sampler_candidates(pir.region, N_of(i), cap)
            self.cands[i] = pts
            self.stats[i] = (n, len(pts), cut)


def _vec3(p):
    return (float(p[0]), float(p[1]), float(p[2]))


class Evaluator:
    """Enumerates scenes of one Side; must be used inside scene_seam()."""

    def __init__(self, side, N_inline, max_exec):
        self.side = side
        self.N_inline = N_inline
        self.max_exec = max_exec
        self.evals = 0
        self.capped = False
        self.errors = {}
        self.first_error = None
        self.order = {i: list(range(len(c))) if c is not None else None for i, c in side.cands.items()}

    # -- one execution ------------------------------------------------------------
    def _once(self, forced_pts):
        """forced_pts: object index -> point (others are chosen by the explorer)."""
        from scenic.core.distributions import RejectionException, Samplable, needsSampling

        side = self.side
        scn = side.scn
        got = {}
        regions_seen = {}

        def handler(pir, value):
            i = side.pir_obj.get(id(pir))
            if i is None:
                # a point drawn in a region that is not the base of an object's position:
                # coarsest lattice
                key = id(pir)
                c = side.other_cands.get(key)
                if c is None:
                    c = side.other_cands[key] = self._inline_cands(pir.region)
                    side.keep.append(pir)
                if not c:
                    raise RejectionException("empty")
                if _S.forced_aux is not None:
                    return c[0]
                return c[_aux("pir", (len(c),), len(c))]
            regions_seen[i] = value[pir.region]
            if i in forced_pts:
                got[i] = forced_pts[i]
                return forced_pts[i]
            c = side.cands[i]
            if c is None:
                # region depends on other samples: drive its sampler here
                reg = value[pir.region]
                old = _S.N
                _S.N = self.N_inline
                try:
                    p = reg.uniformPointInner()
                finally:
                    _S.N = old
                got[i] = p
                return p
            if not c:
                raise RejectionException("no candidate")
            order = self.order[i]
            k = order[_aux("cand", (i, len(c)), len(c))]
            got[i] = c[k]
            return c[k]

        _begin_execution()
        self.evals += 1
        for req in scn.userRequirements:
            if req.prob >= 1:
                req.active = True
            elif req.prob <= 0:
                req.active = False
            else:
                req.active = _aux("soft", (req.line,), 2) == 0
        _S.pir_handler = handler
        try:
            try:
                sample = Samplable.sampleAll(scn.dependencies)
            except RejectionException:
                return None
            except _Cut:
                return None
            except (HarnessError, _Unaligned):
                raise
            except Exception as e:
                k = "sampling:" + type(e).__name__
                self.errors[k] = self.errors.get(k, 0) + 1
                if self.first_error is None:
                    self.first_error = f"{k} {e!r} for points {[(j, _vec3(p)) for j, p in got.items()]}, draws {_S.aux_log}"
                return None
            finally:
                _S.pir_handler = None
            for obj in scn.objects:
                if needsSampling(sample[obj]):
                    raise HarnessError("sample still random")
            try:
                rejection = scn.checker.checkRequirements(sample)
            except _Unaligned:
                raise
            except Exception as e:
                # Scenic itself fails on this scene (with and without pruning alike): not a
                # scene of either program; counted, never judged
                k = type(e).__name__
                self.errors[k] = self.errors.get(k, 0) + 1
                if self.first_error is None:
                    import traceback

                    tb = traceback.extract_tb(e.__traceback__)[-1]
                    self.first_error = f"{k} at {tb.filename.split('/scenic/')[-1]}:{tb.lineno} for points {[(j, _vec3(p)) for j, p in got.items()]}, draws {_S.aux_log}"
                return None
        finally:
            _S.pir_handler = None
        if rejection is not None:
            return None
        return {"pts": dict(got), "aux": list(_S.aux_log), "regions": regions_seen, "sample": sample}

    def _inline_cands(self, region):
        from scenic.core.distributions import needsSampling

        if needsSampling(region):
            raise HarnessError("random region for a point that is not an object's base")
        pts, _, _ = sampler_candidates(region, 1, 100000)
        return pts

    # -- searches -----------------------------------------------------------------
    def find(self, forced_pts, limit=None):
        """First accepted scene containing the forced points, or None.  `limit`: give up after
        that many scenes (sticky search, see check_program); not a cap of the run."""
        if self.capped:
            return None
        left = self.max_exec - self.evals
        if left <= 0:
            self.capped = True
            return None
        stats = None
        budget = left if limit is None else min(left, limit)
        for ex, res, stats in explorer.explore(lambda: self._once(forced_pts), max_executions=budget):
            if res is not None:
                return res
        if stats is not None and stats.capped and budget == left:
            self.capped = True
        return None

    def forced(self, forced_pts, aux):
        """Replay: all points forced and all other draws taken from `aux`."""
        _S.forced_aux = [a for a in aux if a[0] not in ("cand", "pir")]
        try:
            with explorer.running(explorer.Execution()):
                return self._once(forced_pts)
        finally:
            _S.forced_aux = None


# =========================================================================================
# one program
# =========================================================================================
def _sig_kind(stages):
    return "+".join(s for s in STAGES if s in stages) or "none"


def check_program(item):
    spec, params = item
    t0 = time.time()
    res = {
        "id": spec["id"],
        "family": spec["family"],
        "violations": [],
        "counters": {},
        "stages": [],
        "shrunk": False,
        "shrunk_ratios": {},  # pass -> ratios pruned/original size of the objects it shrank
        "feasible": 0,
        "evals": 0,
        "judged": 0,
        "capped": False,
        "note": None,
    }
    cnt = res["counters"]

    def bump(k, n=1):
        cnt[k] = cnt.get(k, 0) + n

    def viol(sig, desc, extra=None):
        case = {"spec": spec, "params": params}
        if extra:
            case["detail"] = extra
        res["violations"].append((sig, desc + "\nprogram:\n" + spec["text"], case))

    text, mode2D, tag = spec["text"], spec.get("mode2D", False), spec["tag"]
    cp = compile_pair(text, mode2D)
    res["t_prune"] = round(cp["t_prune"], 3)
    res["log"] = cp["log"]
    if cp["u_error"] is not None and (cp["p_error"] is not None or cp["hang"]):
        if cp["hang"]:
            viol(f"hang:{tag}", f"compilation with pruning did not finish within {WATCHDOG} s (without pruning: {cp['u_error']!r})")
        bump("both_fail:" + type(cp["u_error"]).__name__)
        res["note"] = f"unpruned compile fails: {cp['u_error']!r}"
        res["wall"] = time.time() - t0
        return res
    if cp["u_error"] is not None:
        # compiles with pruning only: validate() judged the unpruned program statically
        bump("unpruned_only_fails:" + type(cp["u_error"]).__name__)
        res["note"] = f"unpruned compile fails: {cp['u_error']!r}"
        res["wall"] = time.time() - t0
        return res
    U = cp["U"]
    reached = cp["stages"].get("reached", [])
    stage_sets = {i: set(v) for i, v in cp["stages"].items() if i != "reached"}

    with scene_seam():
        _S.aux_n = params["aux_n"]
        sideU = Side(U, conditioned=False)
        nrand = len(sideU.bases)
        focusN = params["N_pair"] if nrand > 1 else (params["N3"] if spec.get("dim", 2) == 3 else params["N2"])
        sideU.prepare(lambda i: focusN, params["sampler_cap"])
        evU = Evaluator(sideU, params["N_partner"], params["max_evals"])
        # partner lists: a coarse sub-lattice is used when another object is the focus
        full = {i: c for i, c in sideU.cands.items()}
        coarse = {}
        if nrand > 1:
            for i, (reg, off, pir) in sideU.bases.items():
                if full[i] is None:
                    coarse[i] = None
                else:
                    coarse[i], _, _ = sampler_candidates(pir.region, params["N_partner"], params["sampler_cap"])

        nfeasible_scenes = 0

        # Search modes.  Default: for a focus candidate every combination of partner candidates
        # is tried until a scene is accepted.  "sticky" (programs whose objects are constrained
        # independently of each other: several visible / contained objects): the partners first
        # take the points of the last accepted scene, then at most STICKY_TRIES other
        # combinations; partner lists start with the lattice of the partner's *pruned* region,
        # most central points first (likely feasible), followed by the coarse lattice of the
        # original region, and grow by the points found feasible while the partner was the focus.
        # Both modes only ever report scenes that Scenic accepted.
        sticky = spec.get("search") == "sticky" and nrand > 1
        STICKY_TRIES = 4
        STICKY_PRUNED_FOCUS = 96  # focus candidates per object on the pruned side (thinned lattice)
        STICKY_INNER = 12  # points of the pruned region's lattice put in front of a partner list

        def _same(p, q):
            return _vec3(p) == _vec3(q)

        def search_focus(ev, side, fullc, coarsec, i, on_accept, front=None):
            n_ok = 0
            for c in fullc[i] or []:
                if ev.capped:
                    break
                for j in side.bases:
                    if j != i:
                        side.cands[j] = coarsec[j]
                        if coarsec[j] is None:
                            ev.order[j] = None
                        else:
                            order = list(range(len(coarsec[j])))
                            if front is not None and front.get(j, 0) < len(order):
                                f = front.get(j, 0)
                                order = [f] + order[:f] + order[f + 1 :]
                            ev.order[j] = order
                r = ev.find({i: c}, limit=STICKY_TRIES if front is not None else None)
                if r is not None:
                    n_ok += 1
                    if front is not None:
                        for j, p in r["pts"].items():
                            lst = coarsec.get(j)
                            if lst is None:
                                continue
                            k = next((k for k, q in enumerate(lst) if _same(p, q)), None)
                            if k is None:
                                lst.append(p)
                                k = len(lst) - 1
                            front[j] = k
                    on_accept(i, c, r)
            return n_ok

        def search_all(ev, side, fullc, coarsec, on_accept, only=None):
            front = {} if sticky else None
            todo = [i for i in side.bases if (only is None or i in only)]
            counts = {}
            for rnd in range(2 if sticky else 1):
                again = []
                for i in todo:
                    if fullc[i] is None:
                        continue
                    counts[i] = search_focus(ev, side, fullc, coarsec, i, on_accept, front)
                    if counts[i] == 0:
                        again.append(i)
                # sticky: an object examined before any scene was known is examined again
                todo = again if (sticky and front and len(again) < len(counts)) else []
            return counts

        def central(pts):
            if not pts:
                return pts
            cx = sum(p[0] for p in pts) / len(pts)
            cy = sum(p[1] for p in pts) / len(pts)
            cz = sum(p[2] for p in pts) / len(pts)
            return sorted(pts, key=lambda p: (p[0] - cx) ** 2 + (p[1] - cy) ** 2 + (p[2] - cz) ** 2)

        p_failed = cp["hang"] or cp["p_error"] is not None
        P = cp["P"]
        sideP = None
        shapesP, shapesU = {}, {}
        if not p_failed:
            sideP = Side(P, conditioned=True)
            if set(sideP.bases) != set(sideU.bases):
                viol(
                    f"structure:{tag}",
                    f"objects with a position drawn in a region: {sorted(sideU.bases)} without pruning, {sorted(sideP.bases)} with pruning",
                )
                p_failed = True
        if not p_failed:
            for i, (reg, off, pir) in sideP.bases.items():
                shapesP[i] = shape_of(reg)
                shapesU[i] = shape_of(sideU.bases[i][0])
                if i in stage_sets:
                    a, b = shapesU[i], shapesP[i]
                    if a is not None and b is not None and a.size is not None and b.size is not None:
                        if b.size < a.size * (1 - 1e-9):
                            res["shrunk"] = True
                            for st in stage_sets[i]:
                                res["shrunk_ratios"].setdefault(st, []).append(round(b.size / a.size, 3))
                        elif b.size > a.size * (1 + 1e-6):
                            bump("pruned_region_larger")
            res["stages"] = sorted({s for v in stage_sets.values() for s in v})

        judged_pts = set()

        def judge_lost(i, c, scene):
            """(1): base point c of object i of an accepted unpruned scene."""
            if p_failed:
                return
            key = (i,) + _vec3(c)
            if key in judged_pts:
                return
            judged_pts.add(key)
            if i not in stage_sets:
                bump("unpruned_object_points")
                return
            regP = sideP.bases[i][0]
            sh = shapesP[i]
            if sh is None:
                # region of the pruned position depends on other objects: evaluate the pruned
                # program with every random input forced to this scene's values
                try:
                    r = evP.forced({j: p for j, p in scene["pts"].items()}, scene["aux"])
                except _Unaligned:
                    bump("forced_region_unaligned")
                    return
                bump("forced_region_evaluations")
                if r is None or i not in r["regions"]:
                    # P rejects/cannot build this scene: judge through its concrete region
                    # only when it could be built
                    bump("forced_region_unavailable")
                    return
                regP = r["regions"][i]
                sh = shape_of(regP)
            own = bool(regP.containsPoint(c))
            if sh is None:
                bump("independent_unavailable")
                if not own:
                    bump("own_outside_unconfirmed")
                return
            ind, d = member(sh, _vec3(c))
            res["judged"] += 1
            if d <= MARGIN * sh.scale:
                bump("skipped_touching")
                return
            if ind and own:
                bump("kept")
                return
            kind = _sig_kind(stage_sets[i])
            if not ind and not own:
                viol(
                    f"scene-lost:{kind}:{tag}",
                    f"object {i}: base point {tuple(round(x, 6) for x in _vec3(c))} of a scene ACCEPTED without pruning lies outside the "
                    f"pruned region (own containsPoint False, independent membership False, distance to its boundary {d:.6g}); "
                    f"scene points {[(j, tuple(round(x, 4) for x in _vec3(p))) for j, p in scene['pts'].items()]}, other draws {scene['aux']}; "
                    f"pruning passes that changed this object: {sorted(stage_sets[i])}; pruning log: {cp['log'].strip()!r}",
                    {"object": i, "point": _vec3(c)},
                )
            else:
                viol(
                    f"membership-disagree:{kind}:{tag}",
                    f"object {i}: pruned region containsPoint={own} but independent membership={ind} (distance to boundary {d:.6g}) for "
                    f"base point {_vec3(c)} of an accepted unpruned scene",
                    {"object": i, "point": _vec3(c)},
                )

        def on_accept_U(i, c, r):
            nonlocal nfeasible_scenes
            nfeasible_scenes += 1
            for j, p in r["pts"].items():
                judge_lost(j, p, r)

        evP = None
        if not p_failed:
            # the pruned regions are only checked for "nothing added": half the resolution, and
            # never more candidates than the original region gave (voxel slices have many triangles)
            def NP_of(i):
                n = max(2, focusN // 2)
                reg = sideP.bases[i][0]
                tris = len(reg._samplingData[0]) if hasattr(reg, "_samplingData") else 1
                budget = max(2048, 2 * sideU.stats.get(i, (0,))[0]) if not sticky else 4 * sideU.stats.get(i, (128,))[0]
                while n > 2 and tris * n ** (3 if spec.get("dim", 2) == 3 else 2) > budget:
                    n -= 1
                return n

            sideP.prepare(NP_of, params["sampler_cap"])
            evP = Evaluator(sideP, params["N_partner"], params["max_evals"])
            fullP = {i: c for i, c in sideP.cands.items()}
            if sticky:
                for i, c in fullP.items():
                    if c is not None and len(c) > STICKY_PRUNED_FOCUS:
                        fullP[i] = c[:: -(-len(c) // STICKY_PRUNED_FOCUS)]
            coarseP = {}
            if nrand > 1:
                for i, (reg, off, pir) in sideP.bases.items():
                    if fullP[i] is None:
                        coarseP[i] = None
                    else:
                        coarseP[i], _, _ = sampler_candidates(pir.region, params["N_partner"], params["sampler_cap"])
            if sticky:
                for i, (reg, off, pir) in sideP.bases.items():
                    if fullP[i] is None or coarse.get(i) is None:
                        continue
                    inner, _, _ = sampler_candidates(pir.region, max(3, params["N_partner"]), params["sampler_cap"])
                    inner = central(inner)[:STICKY_INNER]
                    regU, regP = sideU.bases[i][0], reg
                    coarse[i] = [p for p in inner if regU.containsPoint(p)] + [p for p in coarse[i] if not any(_same(p, q) for q in inner)]
                    coarseP[i] = inner + [p for p in coarseP[i] if not any(_same(p, q) for q in inner)]
                    bump("sticky_partner_points", len(coarse[i]))

        # ---- U side --------------------------------------------------------------------
        if nrand == 0:
            r = evU.find({})
            if r is not None:
                nfeasible_scenes += 1
        for i in sideU.bases:
            if full[i] is None:
                # original region random: handled as a partner only
                bump("random_original_region")
        search_all(evU, sideU, full, coarse, on_accept_U)
        res["feasible"] = nfeasible_scenes
        res["evals"] += evU.evals
        res["capped"] = res["capped"] or evU.capped
        for k, v in evU.errors.items():
            bump("scene_evaluation_error:" + k, v)
        if evU.first_error:
            res["note"] = "Scenic raised while checking a lattice scene: " + evU.first_error

        # ---- (4), (5) --------------------------------------------------------------------
        if cp["hang"]:
            viol(f"hang:{tag}", f"compilation with pruning did not finish within {WATCHDOG} s of CPU time ({WATCHDOG * WALL_FACTOR} s wall); passes completed: {reached}")
        elif cp["p_error"] is not None:
            e = cp["p_error"]
            from scenic.core.errors import InvalidScenarioError

            stage = next((s for s in STAGES if s not in reached), "validate")
            if nfeasible_scenes > 0:
                kind = "infeasible-reported" if isinstance(e, InvalidScenarioError) else "compile-crash:" + type(e).__name__
                viol(
                    f"{kind}:{stage}:{tag}",
                    f"compiling with pruning raises {e!r} (during {stage}) but the unpruned program has {nfeasible_scenes} accepted lattice scenes",
                )
            else:
                bump(("infeasible_agreed:" if isinstance(e, InvalidScenarioError) else "crash_on_infeasible:") + type(e).__name__)

        # ---- P side: (2), (3) --------------------------------------------------------------
        if not p_failed:
            diffs = compare_properties(U, P)
            if diffs:
                viol(f"property-changed:{tag}", f"non-positional state differs between the unpruned and the pruned compilation: {diffs[:4]}")

            added_seen = set()

            def on_accept_P(i, c, r):
                bump("pruned_scenes_accepted")
                key = tuple((j,) + _vec3(p) for j, p in sorted(r["pts"].items()))
                if key in added_seen:
                    return
                added_seen.add(key)
                ok = True
                for j, p in r["pts"].items():
                    shU = shapesU.get(j)
                    regU = sideU.bases[j][0]
                    if shU is None:
                        bump("original_region_random")
                        continue
                    own = bool(regU.containsPoint(p))
                    ind, d = member(shU, _vec3(p))
                    if d <= MARGIN * shU.scale:
                        bump("skipped_touching")
                        ok = False
                        continue
                    if not own and not ind:
                        ok = False
                        viol(
                            f"scene-added:outside-original-region:{_sig_kind(stage_sets.get(j, ()))}:{tag}",
                            f"object {j}: base point {_vec3(p)} of a scene accepted WITH pruning is outside the original region "
                            f"(distance {d:.6g})",
                            {"object": j, "point": _vec3(p)},
                        )
                    elif own != ind:
                        ok = False
                        bump("original_membership_disagree")
                if not ok:
                    return
                try:
                    ru = evU.forced(dict(r["pts"]), r["aux"])
                except _Unaligned:
                    bump("recheck_unaligned")
                    return
                bump("pruned_scenes_rechecked")
                if ru is None:
                    viol(
                        f"scene-added:rejected-without-pruning:{tag}",
                        f"scene accepted WITH pruning (points {[(j, _vec3(p)) for j, p in r['pts'].items()]}, draws {r['aux']}) is rejected by "
                        f"the unpruned program under the same values",
                    )

            search_all(evP, sideP, fullP, coarseP, on_accept_P, only={i for i in sideP.bases if i in stage_sets})
            res["evals"] += evP.evals
            res["capped"] = res["capped"] or evP.capped
            for k, v in evP.errors.items():
                bump("scene_evaluation_error:" + k, v)
            if evP.first_error and not res["note"]:
                res["note"] = "Scenic raised while checking a lattice scene of the pruned program: " + evP.first_error

        if nfeasible_scenes == 0:
            bump("no_feasible_scene")
    res["cand_stats"] = {str(i): v for i, v in sideU.stats.items()}
    res["wall"] = round(time.time() - t0, 2)
    return res


# =========================================================================================
# driver
# =========================================================================================
# N2 / N3: lattice of the position sampler of a program with ONE positioned object (2-D / 3-D
# region); N_pair: lattice of the focus object when several objects are positioned, N_partner:
# lattice of the other objects meanwhile; aux_n: quantiles of every other continuous draw
PARAMS = {
    "quick": dict(N2=16, N3=8, N_pair=8, N_partner=2, aux_n=2, sampler_cap=200000, max_evals=60000),
    "thorough": dict(N2=40, N3=16, N_pair=10, N_partner=3, aux_n=3, sampler_cap=400000, max_evals=600000),
}


def _run_item(item):
    try:
        return check_program(item)
    except HarnessError as e:
        return {"harness_error": f"{item[0]['id']}: {e}"}


def run(ctx):
    seams.rng_selftest()
    seam_selftest()
    params = PARAMS[ctx.tier]
    specs = G.programs(ctx.tier)
    items = ctx.rotate([(s, params) for s in specs])
    items.sort(key=lambda it: -it[0].get("cost", 1))  # stable: watchdog candidates first
    fam = {}
    stage_fired = {s: 0 for s in STAGES}
    dist_fired = 0
    multi_shrunk = {}  # pass -> programs in which it shrank >= 2 objects' regions by different amounts
    rh3_fired = 0  # three-object programs (relations with different targets) pruned by relative heading
    shrunk = feasible_programs = judged = evals = 0
    totals = {}
    samples = []
    slow = []
    notes = {}
    infeasible_ids = []
    for r in ctx.pmap(_run_item, items, chunksize=1):
        if "harness_error" in r:
            raise HarnessError(r["harness_error"])
        fam[r["family"]] = fam.get(r["family"], 0) + 1
        for s in r["stages"]:
            stage_fired[s] += 1
        if "relheading" in r["stages"] and r["id"].find("dist") >= 0:
            dist_fired += 1
        if "relheading" in r["stages"] and r["family"] == "rh3":
            rh3_fired += 1
        for st, ratios in r.get("shrunk_ratios", {}).items():
            if len(set(ratios)) >= 2:
                multi_shrunk[st] = multi_shrunk.get(st, 0) + 1
        shrunk += 1 if r["shrunk"] else 0
        feasible_programs += 1 if r["feasible"] else 0
        if not r["feasible"]:
            infeasible_ids.append(r["id"])
        judged += r["judged"]
        evals += r["evals"]
        if r["capped"]:
            ctx.capped = True
            ctx.cov["cap"] = "max_evals per program"
        for k, v in r["counters"].items():
            totals[k] = totals.get(k, 0) + v
        for sig, desc, case in r["violations"]:
            ctx.violation(sig, desc, case)
        slow.append((r.get("wall", 0), r["id"]))
        if r.get("note"):
            notes[r["id"]] = r["note"]
        if len(samples) < 3 and r["stages"] and r["feasible"]:
            samples.append({"id": r["id"], "stages": r["stages"], "accepted_scenes": r["feasible"], "log": r.get("log", "")[:300]})
    if not specs:
        raise HarnessError("no programs")
    vacuous = []
    if feasible_programs == 0 or judged == 0:
        vacuous.append("no accepted lattice scene was judged against a pruned region")
    if shrunk == 0:
        vacuous.append("pruning never shrank a region")
    for s in STAGES:
        if stage_fired[s] == 0:
            vacuous.append(f"{s} pruning never fired")
    if dist_fired == 0:
        vacuous.append("no relative-heading pruning driven by a distance bound")
    if rh3_fired == 0:
        vacuous.append("no three-object program was pruned by relative heading")
    for st in ("containment", "visibility"):
        if multi_shrunk.get(st, 0) == 0:
            vacuous.append(f"{st} pruning never shrank two objects of one program by different amounts")
    if vacuous:
        if not ctx.violations:
            raise HarnessError("vacuous: " + "; ".join(vacuous))
        # violations were found: report them (exit 1) instead of hiding them behind exit 2
        ctx.notes.append("vacuity guards that would have failed without the violations: " + "; ".join(vacuous))
    slow.sort(reverse=True)
    ctx.cov.update(
        evaluations=evals,
        distinct_nontrivial=shrunk,
        programs=len(specs),
        programs_by_family=fam,
        programs_with_accepted_scene=feasible_programs,
        programs_without_accepted_scene=sorted(infeasible_ids)[:40],
        programs_where_pruning_shrank_region=shrunk,
        pruning_fired=dict(stage_fired, distance_bound=dist_fired, relheading_with_relations_to_two_targets=rh3_fired),
        programs_with_two_objects_shrunk_differently=multi_shrunk,
        base_points_judged=judged,
        skipped_touching=totals.get("skipped_touching", 0),
        counters=totals,
        slowest=[f"{w:.1f}s {i}" for w, i in slow[:5]],
        rule="all programs of gen/prune_c08.py for the tier, each compiled with translator.usePruning off and on; for every "
        "object positioned in a region the region's sampler is driven through the full midpoint lattice of its continuous "
        "inputs and every discrete branch; scenes = candidate base points x endpoint-inclusive lattice of the other draws, "
        "built by Samplable.sampleAll and judged by scenario.checker; evaluations = scenes built; non-trivial = program in "
        "which a pruning pass replaced a position by one over a region of strictly smaller area/volume",
        samples=samples,
        bounds=dict(params, watchdog_s=WATCHDOG, margin=MARGIN),
        notes_per_program=dict(list(notes.items())[:20]),
    )
    ctx.assumptions += [
        "numpy draws made by requirement-checking heuristics (candidate points of containment passes, trimesh ray retries) come "
        "from a fixed-seed stream; they do not decide acceptance",
        "existence search: for every candidate base point the scenes containing it are enumerated until one is accepted; partner "
        "objects use a coarser lattice while another object is the focus (accepted scenes found are genuine, infeasibility of a "
        "candidate is relative to the partner lattice)",
    ]


def replay(ctx, case):
    r = check_program((case["spec"], case["params"]))
    for sig, desc, c in r["violations"]:
        ctx.violation(sig, desc, c)
