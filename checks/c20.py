"""C20 — road networks are internally consistent for every map, cached or parsed.

(A) graph consistency, exhaustive over every element and every link of every network
    built from the shipped OpenDRIVE maps (x parser option combinations, x single-element
    deletions of the small maps): link reciprocity, lookups at a deterministic probe
    lattice judged by an independent containment oracle, children inside parents,
    drivable-region coverage, tangency of the reported traffic direction.
(B) cache protocol: every operation sequence up to the depth bound over the alphabet of
    models/cache_c20.py is replayed on the implementation (temp copy of a small map under
    /scratch/c20/<unique>/), each load judged against the reference model (which (map,
    options) the returned network must be equivalent to; whether the parser may / must
    run), plus an exhaustive single-byte corruption sweep of a small cache file.
"""

from __future__ import annotations

import collections
import copy
import gc
import hashlib
import math
import os
import pathlib
import pickle
import re
import shutil
import time
import uuid
import warnings
import xml.etree.ElementTree as ET

import numpy as np
import shapely
import shapely.ops

from mc.explorer import HarnessError
from models import cache_c20 as cm

ID = "C20"
LEVEL = "model_checking"

REPO = pathlib.Path(os.environ.get("VERIF_REPO", "/repo"))
MAPS = REPO / "assets" / "maps"
SCRATCH = pathlib.Path("/scratch/c20")
EPS = 1e-7  # anything this close to a decision boundary is skipped and counted
# Scenic tests "within tolerance" with point.buffer(tolerance), a 64-gon inscribed in the
# disc: distances in (cos(pi/64), 1] * tolerance are direction dependent -> skipped, counted
DISC = 1 - math.cos(math.pi / 64) + 1e-6

TIERS = {
    "quick": dict(k_tri=4, k_cl=3, k_seg=3, k_band=3, k_drv=200, n_maps=8, depth=3, sweep_stride=64),
    "thorough": dict(k_tri=10, k_cl=5, k_seg=8, k_band=8, k_drv=2000, n_maps=None, depth=4, sweep_stride=1),
}
# lattice of the 15 non-default option combinations in the thorough tier (every element and
# every link is still visited; fewer probes per element)
LIGHT = dict(k_tri=2, k_cl=1, k_seg=2, k_band=2, k_drv=100)
# the medium maps added to the quick tier (intersections, sidewalks, shoulders)
QUICK_EXTRA = ("LGSVL/borregasave.xodr", "CARLA/Town02.xodr", "CARLA/Town01.xodr", "misc/Issue189.xodr")
N_VARIANT_MAPS = 6
# protocol exploration on the smallest map with lanes (parse 0.01 s, cache 18 KB): the
# protocol does not depend on the content; cached-vs-parsed equivalence of rich networks is
# the round trip done for every map of the tier
CACHE_MAP = "LGSVL/Straight2LaneSame.xodr"
SWEEP_MAP = "LGSVL/Straight2LaneSame.xodr"


# --------------------------------------------------------------------------------------
# maps, options, variants
# --------------------------------------------------------------------------------------
def list_maps():
    """(non-empty maps sorted by size, empty ones)"""
    good, empty = [], []
    for p in sorted(MAPS.rglob("*.xodr")):
        rel = str(p.relative_to(MAPS))
        if p.stat().st_size == 0:
            empty.append(rel)
        else:
            good.append((p.stat().st_size, rel))
    good.sort()
    return [r for _, r in good], empty


def option_combos(tier):
    if tier == "quick":
        return [{}]
    combos = []
    for tol in (0.05, 0.5):
        for fg in (True, False):
            for fi in (True, False):
                for el in (False, True):
                    combos.append(dict(tolerance=tol, fill_gaps=fg, fill_intersections=fi, elide_short_roads=el))
    return combos


VARIANT_TAGS = ("road", "link", "lane", "junction")


def variant_targets(path):
    root = ET.parse(path).getroot()
    out = []
    for i, el in enumerate(root.iter()):
        if el.tag in VARIANT_TAGS:
            out.append((i, el.tag))
    return out


def write_variant(path, index, dest):
    tree = ET.parse(path)
    root = tree.getroot()
    parent = {c: p for p in root.iter() for c in p}
    for i, el in enumerate(root.iter()):
        if i == index:
            parent[el].remove(el)
            break
    else:
        raise HarnessError(f"variant index {index} not found in {path}")
    tree.write(dest)


def build(path, opts):
    from scenic.domains.driving.roads import Network

    with warnings.catch_warnings():
        warnings.simplefilter("ignore")
        return Network.fromFile(str(path), useCache=False, writeCache=False, **opts)


# --------------------------------------------------------------------------------------
# geometry helpers (independent of Scenic's own lookup machinery)
# --------------------------------------------------------------------------------------
def heading_of(a, b):
    """Scenic heading (anticlockwise from +y) of the segment a->b."""
    return math.atan2(b[1] - a[1], b[0] - a[0]) - math.pi / 2


def angdiff(a, b):
    d = (a - b) % (2 * math.pi)
    if d > math.pi:
        d -= 2 * math.pi
    return abs(d)


def polys_of(geom):
    if geom.geom_type == "Polygon":
        return [geom]
    return [g for g in getattr(geom, "geoms", []) if g.geom_type == "Polygon"]


def tri_centroids(geom, k):
    """Centroids of up to k triangles of a constrained Delaunay triangulation of the
    polygon (largest first, then an even stride through the area-sorted list)."""
    pts = []
    for poly in polys_of(geom):
        if poly.is_empty or poly.area <= 0:
            continue
        try:
            tris = shapely.constrained_delaunay_triangles(poly)
        except Exception:
            continue
        for t in tris.geoms:
            if t.area > 1e-8:
                pts.append((t.area, t.centroid.x, t.centroid.y))
    pts.sort(key=lambda t: (-t[0], t[1], t[2]))
    if len(pts) > k:
        step = len(pts) / k
        pts = [pts[int(i * step)] for i in range(k)]
    return [(x, y) for _, x, y in pts]


def line_points(points, k):
    """k interior points of a polyline at fractions (i+1)/(k+1) of its length."""
    ls = shapely.LineString([(p[0], p[1]) for p in points])
    if ls.length <= 0:
        return []
    out = []
    for i in range(k):
        q = ls.interpolate((i + 1) / (k + 1), normalized=True)
        out.append((q.x, q.y))
    return out


def band_points(geom, k, off):
    """For up to k boundary vertices: the two points at distance `off` on either side
    of the boundary (along the normal of the following edge, at the edge midpoint)."""
    out = []
    for poly in polys_of(geom):
        cs = np.asarray(poly.exterior.coords)[:, :2]
        n = len(cs) - 1
        if n < 3:
            continue
        idx = sorted({int(i * n / k) for i in range(k)}) if n > k else range(n)
        for i in idx:
            a, b = cs[i], cs[i + 1]
            d = b - a
            L = math.hypot(*d)
            if L < 1e-6:
                continue
            nx, ny = -d[1] / L, d[0] / L
            mx, my = (a + b) / 2
            out.append((mx + nx * off, my + ny * off))
            out.append((mx - nx * off, my - ny * off))
    return out


# --------------------------------------------------------------------------------------
# result accumulator
# --------------------------------------------------------------------------------------
class Acc:
    def __init__(self, label, case):
        self.label = label  # map stem (+ ~del-tag for variants): goes into signatures
        self.case = case
        self.rel = collections.Counter()  # relation kind -> links checked
        self.cnt = collections.Counter()  # other counters
        self.viol = []
        self.stats = {}
        self._seen = collections.Counter()

    def check(self, family, kind, ok, detail):
        """Count one judged link/lookup; `detail` is a callable or str (lazy)."""
        self.rel[f"{family}:{kind}"] += 1
        if ok:
            return True
        sig = f"{family}:{kind}:{self.label}"
        self._seen[sig] += 1
        if self._seen[sig] <= 3:
            d = detail() if callable(detail) else detail
            self.viol.append((sig, f"[{self.label} opts={self.case.get('opts')}] {d}", dict(self.case, signature=sig)))
        return False

    def out(self):
        return dict(
            label=self.label,
            rel=dict(self.rel),
            cnt=dict(self.cnt),
            viol=self.viol,
            nviol=dict(self._seen),
            stats=self.stats,
        )


def uid(e):
    return getattr(e, "uid", e) if e is not None else None


# --------------------------------------------------------------------------------------
# (A1) link graph
# --------------------------------------------------------------------------------------
def check_links(net, acc):
    from scenic.core.distributions import RejectionException
    from scenic.domains.driving import roads as R

    C = acc.check
    elements = net.elements
    registered = {id(e) for e in elements.values()}

    def reg(e):
        return e is not None and id(e) in registered

    # ---- network-level index ----
    for u, e in elements.items():
        C("linkage", "element-uid-index", e.uid == u, f"elements[{u!r}].uid == {e.uid!r}")
        try:
            ok = e.network.elements is elements
        except ReferenceError:
            ok = False
        C("linkage", "element-network-backlink", ok, f"{u}.network is not the owning network")
    byclass = {
        R.Road: set(map(id, net.allRoads)),
        R.LaneGroup: set(map(id, net.laneGroups)),
        R.Lane: set(map(id, net.lanes)),
        R.LaneSection: set(map(id, net.laneSections)),
        R.Intersection: set(map(id, net.intersections)),
        R.Sidewalk: set(map(id, net.sidewalks)),
        R.Shoulder: set(map(id, net.shoulders)),
        R.PedestrianCrossing: set(map(id, net.crossings)),
    }
    for u, e in elements.items():
        if type(e) is R.RoadSection:
            ok = reg(e.road) and any(s is e for s in e.road.sections)
        else:
            ok = type(e) in byclass and id(e) in byclass[type(e)]
        C("linkage", "element-listed-in-network", ok, f"{u} ({type(e).__name__}) is in elements but not in the network's tuple for its class")
    for name in ("roads", "connectingRoads", "laneGroups", "lanes", "laneSections", "roadSections", "intersections", "sidewalks", "shoulders", "crossings"):
        seq = getattr(net, name)
        us = [x.uid for x in seq]
        C("linkage", "network-tuple-no-duplicates", len(set(us)) == len(us), f"network.{name} lists an element twice")
        for x in seq:
            C("linkage", "listed-element-registered", reg(x) and elements.get(x.uid) is x, f"network.{name} contains {x.uid} which is not elements[{x.uid!r}]")
    C("linkage", "allRoads", tuple(net.allRoads) == tuple(net.roads) + tuple(net.connectingRoads), "allRoads != roads + connectingRoads")
    C("linkage", "laneGroups-of-roads", set(map(id, net.laneGroups)) == {id(g) for r in net.allRoads for g in r.laneGroups}, "network.laneGroups != groups of all roads")
    C("linkage", "lanes-of-roads", set(map(id, net.lanes)) == {id(l) for r in net.allRoads for l in r.lanes}, "network.lanes != lanes of all roads")
    C("linkage", "laneSections-of-lanes", [id(s) for s in net.laneSections] == [id(s) for l in net.lanes for s in l.sections], "network.laneSections != sections of network.lanes")
    C("linkage", "roadSections-of-roads", [id(s) for s in net.roadSections] == [id(s) for r in net.roads for s in r.sections], "network.roadSections != sections of network.roads")
    C("linkage", "shoulders-of-groups", set(map(id, net.shoulders)) == {id(g._shoulder) for g in net.laneGroups if g._shoulder}, "network.shoulders != shoulders of lane groups")
    C("linkage", "sidewalks-of-groups", set(map(id, net.sidewalks)) == {id(g._sidewalk) for g in net.laneGroups if g._sidewalk}, "network.sidewalks != sidewalks of lane groups")

    # ---- every predecessor/successor is an element of this network (or None) ----
    for u, e in elements.items():
        if isinstance(e, R.LinearElement):
            for attr in ("_successor", "_predecessor"):
                v = getattr(e, attr)
                if v is None:
                    acc.cnt["link_none"] += 1
                    continue
                C("linkage", "link-target-is-element", isinstance(v, R.NetworkElement) and reg(v), lambda: f"{u}.{attr} = {v!r} is not an element of the network")
                # public accessor agrees
                try:
                    pub = getattr(e, attr[1:])
                except RejectionException:
                    pub = None
                C("linkage", "public-accessor", pub is v, f"{u}.{attr[1:]} is not {u}.{attr}")
        if isinstance(e, R.LinearElement) and e._successor is None:
            try:
                e.successor
                ok = False
            except RejectionException:
                ok = True
            C("linkage", "missing-link-rejects", ok, f"{u}.successor does not reject although there is none")

    isLS = lambda x: isinstance(x, R.LaneSection)
    isLane = lambda x: isinstance(x, R.Lane)

    conn_ids = set(map(id, net.connectingRoads))
    # ---- roads / groups / lanes / sections ----
    for road in net.allRoads:
        ru = road.uid
        C("linkage", "road-has-lane-group", bool(road.forwardLanes or road.backwardLanes), f"{ru} has no lane group")
        C("linkage", "road-is1Way", road.is1Way == (not (road.forwardLanes and road.backwardLanes)), f"{ru}.is1Way inconsistent")
        expect_groups = tuple(g for g in (road.forwardLanes, road.backwardLanes) if g)
        C("linkage", "road-laneGroups", len(road.laneGroups) == len(expect_groups) and all(a is b for a, b in zip(road.laneGroups, expect_groups)), f"{ru}.laneGroups != (forwardLanes, backwardLanes)")
        fwd, bwd = road.forwardLanes, road.backwardLanes
        if fwd:
            C("linkage", "opposite-group", fwd._opposite is bwd, f"{ru}.forwardLanes._opposite is {uid(fwd._opposite)}, backwardLanes is {uid(bwd)}")
        if bwd:
            C("linkage", "opposite-group", bwd._opposite is fwd, f"{ru}.backwardLanes._opposite is {uid(bwd._opposite)}, forwardLanes is {uid(fwd)}")
        seen = {}
        for g in road.laneGroups:
            C("linkage", "group-road", g.road is road, f"{g.uid}.road is {uid(g.road)}, not {ru}")
            C("linkage", "group-nonempty", len(g.lanes) > 0, f"{g.uid} has no lanes")
            for nm, coll in (("_sidewalk", net.sidewalks), ("_shoulder", net.shoulders)):
                x = getattr(g, nm)
                if x is not None:
                    C("linkage", "group-" + nm[1:], x.road is road and any(y is x for y in coll), f"{g.uid}.{nm} = {x.uid}: road is {uid(x.road)} / listed in network: {any(y is x for y in coll)}")
                    if nm == "_shoulder" and hasattr(x, "group"):
                        C("linkage", "shoulder-group", x.group is g, f"{x.uid}.group is {uid(x.group)}, not {g.uid}")
            for lane in g.lanes:
                C("linkage", "lane-in-one-group", id(lane) not in seen, f"{lane.uid} is in two groups")
                seen[id(lane)] = lane
                C("linkage", "lane-group", lane.group is g, f"{lane.uid}.group is {uid(lane.group)}, not {g.uid}")
                C("linkage", "lane-road", lane.road is road, f"{lane.uid}.road is {uid(lane.road)}, not {ru}")
                C("linkage", "lane-has-sections", len(lane.sections) > 0, f"{lane.uid} has no sections")
                for s in lane.sections:
                    C("linkage", "section-lane", s.lane is lane, f"{s.uid}.lane is {uid(s.lane)}, not {lane.uid}")
                    C("linkage", "section-group", s.group is g, f"{s.uid}.group is {uid(s.group)}, not {g.uid}")
                    C("linkage", "section-road", s.road is road, f"{s.uid}.road is {uid(s.road)}, not {ru}")
                    C("linkage", "section-isForward", s.isForward == (g is road.forwardLanes), f"{s.uid}.isForward={s.isForward} but its group is {g.uid}")
                for a, b in zip(lane.sections, lane.sections[1:]):
                    C("linkage", "lane-section-chain", a._successor is b and b._predecessor is a, f"consecutive sections of {lane.uid}: {a.uid}._successor={uid(a._successor)}, {b.uid}._predecessor={uid(b._predecessor)}")
                # lane-level link agrees with the link of its end sections
                ls, fs = lane.sections[-1], lane.sections[0]
                if isLane(lane._successor) and isLS(ls._successor) and ls._successor.lane is not lane:
                    C("linkage", "lane-vs-section-successor", ls._successor.lane is lane._successor, f"{lane.uid}._successor={uid(lane._successor)} but its last section continues into {uid(ls._successor)} of lane {uid(ls._successor.lane)}")
                if isLane(lane._predecessor) and isLS(fs._predecessor) and fs._predecessor.lane is not lane:
                    C("linkage", "lane-vs-section-predecessor", fs._predecessor.lane is lane._predecessor, f"{lane.uid}._predecessor={uid(lane._predecessor)} but its first section comes from {uid(fs._predecessor)} of lane {uid(fs._predecessor.lane)}")
                for m in lane.maneuvers:
                    C("linkage", "maneuver-startLane", m.startLane is lane, f"maneuver of {lane.uid} has startLane {uid(m.startLane)}")
        C("linkage", "road-lanes", {id(l) for l in road.lanes} == set(seen) and len(road.lanes) == len(seen), f"{ru}.lanes != lanes of its groups")
        C("linkage", "road-sidewalks", [id(x) for x in road.sidewalks] == [id(g._sidewalk) for g in road.laneGroups if g._sidewalk], f"{ru}.sidewalks != sidewalks of its groups")

        # road sections
        C("linkage", "road-has-sections", len(road.sections) > 0, f"{ru} has no sections")
        for a, b in zip(road.sections, road.sections[1:]):
            C("linkage", "road-section-chain", a._successor is b and b._predecessor is a, f"{a.uid}._successor={uid(a._successor)}, {b.uid}._predecessor={uid(b._predecessor)}")
        in_rs = collections.Counter()
        for rs in road.sections:
            C("linkage", "roadsection-road", rs.road is road, f"{rs.uid}.road is {uid(rs.road)}")
            C("linkage", "roadsection-lanes", tuple(map(id, rs.lanes)) == tuple(map(id, tuple(rs.forwardLanes) + tuple(rs.backwardLanes))), f"{rs.uid}.lanes != forwardLanes + backwardLanes")
            fw = set(map(id, rs.forwardLanes))
            for ls in rs.lanes:
                in_rs[id(ls)] += 1
                C("linkage", "roadsection-lanesection-road", ls.road is road, f"{ls.uid} in {rs.uid} has road {uid(ls.road)}")
                C("linkage", "roadsection-forward", ls.isForward == (id(ls) in fw), f"{ls.uid}.isForward={ls.isForward} but forwardLanes membership is {id(ls) in fw}")
                C("linkage", "roadsection-opendrive-id", rs.lanesByOpenDriveID.get(ls.openDriveID) is ls, f"{rs.uid}.lanesByOpenDriveID[{ls.openDriveID}] is not {ls.uid}")
                check_adjacent(net, acc, rs, ls)
        own = collections.Counter(id(s) for l in road.lanes for s in l.sections)
        C("linkage", "lane-sections-partition-road-sections", in_rs == own, f"{ru}: lane sections of its road sections != sections of its lanes")

        # lane-level adjacency
        for lane in road.lanes:
            exp = [id(s2.lane) for s in lane.sections for s2 in s.adjacentLanes]
            C("linkage", "lane-adjacentLanes", [id(x) for x in lane.adjacentLanes] == exp, f"{lane.uid}.adjacentLanes != lanes of its sections' adjacent sections")
            for other in lane.adjacentLanes:
                C("linkage", "lane-adjacent-symmetric", any(x is lane for x in other.adjacentLanes), f"{other.uid} in {lane.uid}.adjacentLanes but not vice versa")

        # road-level links
        for attr in ("_successor", "_predecessor"):
            v = getattr(road, attr)
            if isinstance(v, R.Intersection):
                C("linkage", "road-intersection", any(r is road for r in v.roads), f"{ru}.{attr} = {v.uid} but {ru} not in its roads")
            elif isinstance(v, R.Road):
                ok = road in (v._predecessor, v._successor)
                if not ok:
                    # through a junction: v links to an intersection that uses a lane of
                    # `road` (or of v) as connecting lane and lists the other as a road
                    for w, conn, plain in ((v, road, v), (road, v, road)):
                        for i2 in (w._predecessor, w._successor):
                            if isinstance(i2, R.Intersection) and any(m.connectingLane.road is conn for m in i2.maneuvers) and any(r is plain for r in i2.roads):
                                ok = True
                if not ok and id(road) not in conn_ids and id(v) not in conn_ids:
                    # two ordinary roads, link declared on one side only in the map:
                    # transcribed as is, reported, not judged (see one_sided below)
                    acc.cnt["one_sided_road_to_road_links"] += 1
                    acc.stats.setdefault("one_sided_links", [])
                    if len(acc.stats["one_sided_links"]) < 12:
                        acc.stats["one_sided_links"].append(f"{ru}.{attr} = {v.uid}, no link back")
                else:
                    C("linkage", "road-link-reciprocal", ok, lambda: f"{ru}.{attr} = {v.uid}, but {v.uid} links to ({uid(v._predecessor)}, {uid(v._successor)}) and no intersection relates them")

        # group links agree with lane links
        for g in road.laneGroups:
            for attr in ("_successor", "_predecessor"):
                v = getattr(g, attr)
                if isinstance(v, R.LaneGroup):
                    ok = any(isLane(getattr(l, a2)) and getattr(l, a2).group is v for l in g.lanes for a2 in ("_successor", "_predecessor"))
                    C("linkage", "group-link-backed-by-lane-link", ok, f"{g.uid}.{attr} = {v.uid} but no lane of the group links to a lane of {v.uid}")
                elif isinstance(v, R.Intersection):
                    C("linkage", "group-intersection", any(r is road for r in v.roads), f"{g.uid}.{attr} = {v.uid} but {ru} is not one of its roads")

    # ---- lane successor / predecessor reciprocity ----
    conn_roads = set(map(id, net.connectingRoads))

    def one_sided(a, attr, b):
        # Scenic transcribes the lane links the map declares for road-to-road links; a
        # link declared on one side only is reported, not judged (no docstring promises
        # that the parser completes it).  Contradictory links are judged.
        acc.cnt["one_sided_road_to_road_links"] += 1
        acc.stats.setdefault("one_sided_links", [])
        if len(acc.stats["one_sided_links"]) < 12:
            acc.stats["one_sided_links"].append(f"{a.uid}.{attr} = {b.uid}, no link back")

    starts_via = collections.defaultdict(list)  # connecting lane -> start lanes
    for i in net.intersections:
        for m in i.maneuvers:
            if m.connectingLane is not None:
                starts_via[id(m.connectingLane)].append(m.startLane)
    for lane in net.lanes:
        s = lane._successor
        if isLane(s):
            a_conn, b_conn = id(lane.road) in conn_roads, id(s.road) in conn_roads
            if not a_conn and not b_conn:
                if s.road is lane.road:
                    acc.cnt["lane_merge_within_road"] += 1  # merges into the middle of a lane
                else:
                    p = s._predecessor
                    if p is None:
                        one_sided(lane, "_successor", s)
                    else:
                        C("linkage", "lane-successor-reciprocal", isLane(p) and (p is lane or p._successor is s), lambda: f"{lane.uid}._successor = {s.uid} (different ordinary road) but {s.uid}._predecessor = {uid(s._predecessor)}")
            elif not a_conn and b_conn:
                C("linkage", "incoming-successor-is-own-connecting-lane", any(m.connectingLane is s for m in lane.maneuvers) or not lane.maneuvers or lane.maneuvers[0].connectingLane is None, lambda: f"{lane.uid}._successor = {s.uid} is not the connecting lane of any of its maneuvers")
                p = s._predecessor
                C("linkage", "connecting-lane-predecessor", isLane(p) and (p is lane or any(x is p for x in starts_via.get(id(s), ()))), lambda: f"{lane.uid}._successor = {s.uid} (connecting lane) but {s.uid}._predecessor = {uid(s._predecessor)}")
            elif a_conn and not b_conn:
                acc.cnt["connecting_to_outgoing"] += 1  # judged through the maneuvers below
            else:
                acc.cnt["connecting_to_connecting"] += 1
        p = lane._predecessor
        if isLane(p):
            a_conn, b_conn = id(lane.road) in conn_roads, id(p.road) in conn_roads
            if not a_conn and not b_conn and p.road is not lane.road:
                q = p._successor
                if q is None:
                    one_sided(lane, "_predecessor", p)
                else:
                    C("linkage", "lane-predecessor-reciprocal", isLane(q) and (q is lane or q._predecessor is p), lambda: f"{lane.uid}._predecessor = {p.uid} (different ordinary road) but {p.uid}._successor = {uid(p._successor)}")
            elif a_conn and not b_conn:
                C("linkage", "connecting-predecessor-is-start-lane", id(lane) not in starts_via or any(x is p for x in starts_via[id(lane)]), lambda: f"connecting lane {lane.uid}._predecessor = {p.uid} which starts no maneuver through it")
    # same at the level of lane sections (end sections only; inner ones are the chains)
    for lane in net.lanes:
        ls = lane.sections[-1] if lane.sections else None
        if ls is not None and isLS(ls._successor) and ls._successor.road is not lane.road:
            t = ls._successor
            a_conn, b_conn = id(lane.road) in conn_roads, id(t.road) in conn_roads
            p = t._predecessor
            if not a_conn and not b_conn and p is None:
                one_sided(ls, "_successor", t)
            elif not a_conn:  # ordinary -> ordinary, or incoming -> connecting
                C("linkage", "section-successor-reciprocal", isLS(p) and (p is ls or p._successor is t), lambda: f"{ls.uid}._successor = {t.uid} but {t.uid}._predecessor = {uid(t._predecessor)}")

    # ---- maneuvers and intersections ----
    for lane in net.lanes:
        for m in lane.maneuvers:
            if m.connectingLane is None:
                C("linkage", "merge-maneuver", m.intersection is None and m.type is R.ManeuverType.STRAIGHT and m.endLane is lane._successor, lambda: f"lane-merge maneuver of {lane.uid}: end {uid(m.endLane)}, successor {uid(lane._successor)}, intersection {uid(m.intersection)}")
                continue
            i = m.intersection
            ok = isinstance(i, R.Intersection) and reg(i)
            C("linkage", "maneuver-intersection", ok, f"maneuver of {lane.uid} via {uid(m.connectingLane)} has intersection {uid(i)}")
            if not ok:
                continue
            C("linkage", "maneuver-in-intersection", any(x is m for x in i.maneuvers), f"maneuver {lane.uid}->{m.connectingLane.uid} missing from {i.uid}.maneuvers")
            C("linkage", "maneuver-start-is-incoming", any(x is lane for x in i.incomingLanes), f"{lane.uid} starts a maneuver of {i.uid} but is not in incomingLanes")
    for i in net.intersections:
        iu = i.uid
        for nm in ("roads", "incomingLanes", "outgoingLanes"):
            seq = getattr(i, nm)
            C("linkage", "intersection-no-duplicates", len({id(x) for x in seq}) == len(seq), f"{iu}.{nm} has duplicates")
        C("linkage", "intersection-has-maneuvers", len(i.maneuvers) > 0, f"{iu} has no maneuvers")
        ends = set()
        for m in i.maneuvers:
            c = m.connectingLane
            C("linkage", "maneuver-intersection-backlink", m.intersection is i, f"maneuver in {iu}.maneuvers has intersection {uid(m.intersection)}")
            C("linkage", "maneuver-in-startLane", any(x is m for x in m.startLane.maneuvers), f"maneuver {uid(m.startLane)}->{uid(c)} of {iu} missing from its start lane's maneuvers")
            ok = isLane(c) and reg(c)
            C("linkage", "maneuver-connecting-lane", ok and id(c.road) in conn_roads, f"maneuver {uid(m.startLane)} via {uid(c)}: connecting lane is not a lane of a connecting road")
            if not ok:
                continue
            C("linkage", "maneuver-end-is-connecting-successor", c._successor is m.endLane, f"maneuver via {c.uid}: endLane {uid(m.endLane)} but {c.uid}._successor = {uid(c._successor)}")
            C("linkage", "maneuver-start-is-connecting-predecessor", isLane(c._predecessor) and any(x is c._predecessor for x in starts_via.get(id(c), ())), f"{c.uid}._predecessor = {uid(c._predecessor)} starts no maneuver via {c.uid}")
            C("linkage", "maneuver-start-successor", any(m2.connectingLane is m.startLane._successor for m2 in m.startLane.maneuvers), f"{uid(m.startLane)}._successor = {uid(m.startLane._successor)} is not a connecting lane of its maneuvers")
            C("linkage", "maneuver-end-is-outgoing", any(x is m.endLane for x in i.outgoingLanes), f"endLane {uid(m.endLane)} not in {iu}.outgoingLanes")
            C("linkage", "maneuver-roads-in-intersection", any(r is m.startLane.road for r in i.roads) and any(r is m.endLane.road for r in i.roads), f"roads of maneuver {uid(m.startLane)}->{uid(m.endLane)} not in {iu}.roads")
            ends.add(id(m.endLane))
            # symmetric derived relations
            for conf in m.conflictingManeuvers:
                C("linkage", "conflicting-symmetric", conf is not m and any(x is m for x in conf.conflictingManeuvers), f"{iu}: conflictingManeuvers not symmetric for {uid(m.startLane)}->{c.uid}")
            for rev in m.reverseManeuvers:
                C("linkage", "reverse-symmetric", rev is not m and any(x is m for x in rev.reverseManeuvers) and rev.startLane.road is m.endLane.road and rev.endLane.road is m.startLane.road, f"{iu}: reverseManeuvers not symmetric for {uid(m.startLane)}->{c.uid}")
        C("linkage", "outgoing-are-maneuver-ends", {id(x) for x in i.outgoingLanes} == ends, f"{iu}.outgoingLanes != end lanes of its maneuvers")
        for inc in i.incomingLanes:
            C("linkage", "incoming-road-in-intersection", any(r is inc.road for r in i.roads), f"{inc.uid} incoming to {iu} but its road is not in roads")
            s = inc._successor
            C("linkage", "incoming-successor-connecting", isLane(s) and id(s.road) in conn_roads, f"incoming lane {inc.uid}._successor = {uid(s)} is not a connecting lane")
            # geometric meaning of 'incoming': the lane ends at the intersection
            d_end = shapely.distance(shapely.Point(*inc.centerline.points[-1][:2]), i.polygon)
            d_start = shapely.distance(shapely.Point(*inc.centerline.points[0][:2]), i.polygon)
            if abs(d_end - d_start) < 1e-3:
                acc.cnt["skipped_touching"] += 1
            else:
                C("linkage", "incoming-lane-ends-at-intersection", d_end < d_start, f"{inc.uid} is incoming to {iu} but its start is nearer ({d_start:.3f}) than its end ({d_end:.3f})")
        for out in i.outgoingLanes:
            C("linkage", "outgoing-road-in-intersection", any(r is out.road for r in i.roads), f"{out.uid} outgoing from {iu} but its road is not in roads")
            d_end = shapely.distance(shapely.Point(*out.centerline.points[-1][:2]), i.polygon)
            d_start = shapely.distance(shapely.Point(*out.centerline.points[0][:2]), i.polygon)
            if abs(d_end - d_start) < 1e-3:
                acc.cnt["skipped_touching"] += 1
            else:
                C("linkage", "outgoing-lane-starts-at-intersection", d_start < d_end, f"{out.uid} is outgoing from {iu} but its end is nearer ({d_end:.3f}) than its start ({d_start:.3f})")
        for r in i.roads:
            C("linkage", "intersection-road-backlink", i in (r._predecessor, r._successor), f"{r.uid} in {iu}.roads but links to ({uid(r._predecessor)}, {uid(r._successor)})")


def _mid_and_dir(points):
    """Midpoint (by arc length) of a polyline and its coarse unit direction there (chord
    from 35% to 65% of the length: offset curves of kinked reference lines fold back
    locally, so a single segment is not a reliable direction)."""
    ls = shapely.LineString([(p[0], p[1]) for p in points])
    if ls.length <= 1e-6:
        return None
    a, m, b = (ls.interpolate(f, normalized=True) for f in (0.35, 0.5, 0.65))
    d = np.array([b.x - a.x, b.y - a.y])
    n = math.hypot(*d)
    if n < 0.1 * ls.length:  # strongly folded
        return None
    return np.array([m.x, m.y]), d / n


def side_of(ref_points, other_geom):
    """+1 if other_geom lies to the left of the polyline at its midpoint, -1 right,
    0 undecidable (too close / not abeam)."""
    md = _mid_and_dir(ref_points)
    if md is None:
        return 0
    mid, d = md
    q = shapely.ops.nearest_points(shapely.Point(mid[0], mid[1]), other_geom)[1]
    v = np.array([q.x - mid[0], q.y - mid[1]])
    n = math.hypot(*v)
    if n < 1e-3:
        return 0
    cr = (d[0] * v[1] - d[1] * v[0]) / n
    if abs(cr) < 0.5:
        return 0
    return 1 if cr > 0 else -1


def check_adjacent(net, acc, rs, s):
    from scenic.core.distributions import RejectionException

    C = acc.check
    left, right = s._laneToLeft, s._laneToRight
    fastSlow = (s._fasterLane, s._slowerLane)
    in_rs = lambda x: any(y is x for y in rs.lanes)
    for nm, other in (("left", left), ("right", right)):
        pub = "laneToLeft" if nm == "left" else "laneToRight"
        if other is None:
            try:
                getattr(s, pub)
                ok = False
            except RejectionException:
                ok = True
            C("linkage", "missing-adjacent-rejects", ok, f"{s.uid}.{pub} does not reject")
            acc.cnt["adjacent_none"] += 1
            continue
        C("linkage", f"laneTo{nm.title()}-in-same-road-section", in_rs(other) and other is not s, f"{s.uid}._laneTo{nm.title()} = {other.uid} is not another lane of {rs.uid}")
        C("linkage", f"laneTo{nm.title()}-accessors", getattr(s, pub) is other and s.shiftedBy(1 if nm == "left" else -1) is other, f"{s.uid}.{pub}/shiftedBy disagree with _{pub}")
        same = s.isForward == other.isForward
        if nm == "left":
            back = other._laneToRight if same else other._laneToLeft
        else:
            back = other._laneToLeft if same else other._laneToRight
        C("linkage", f"laneTo{nm.title()}-reciprocal", back is s, lambda: f"{s.uid}._laneTo{nm.title()} = {other.uid} ({'same' if same else 'opposite'} direction) whose reverse link is {uid(back)}")
        if same:
            C("linkage", "adjacent-same-direction-is-faster-or-slower", sum(1 for x in fastSlow if x is other) == 1, f"{s.uid}: {other.uid} is adjacent in the same direction but (faster, slower) = ({uid(fastSlow[0])}, {uid(fastSlow[1])})")
        # geometry: the lane said to be on the left *is* on the left of the direction of travel
        sd = side_of(s.centerline.points, other.centerline.lineString)
        if sd == 0:
            acc.cnt["skipped_touching"] += 1
        else:
            C("geometry", f"laneTo{nm.title()}-side", sd == (1 if nm == "left" else -1), f"{s.uid}._laneTo{nm.title()} = {other.uid} lies on the {'left' if sd > 0 else 'right'} of {s.uid}'s direction of travel")
    C("linkage", "left-right-distinct", left is None or left is not right, f"{s.uid}: same lane to left and right")
    for x, nm in zip(fastSlow, ("_fasterLane", "_slowerLane")):
        if x is not None:
            C("linkage", "faster-slower-is-adjacent-same-direction", (x is left or x is right) and x.isForward == s.isForward, f"{s.uid}.{nm} = {x.uid} is not an adjacent lane in the same direction")
    exp = [id(x) for x in (left, right) if x is not None]
    C("linkage", "section-adjacentLanes", [id(x) for x in s.adjacentLanes] == exp, f"{s.uid}.adjacentLanes != (laneToLeft, laneToRight)")
    # own edges: left edge on the left of the centreline, right edge on the right
    for nm, edge, want in (("leftEdge", s.leftEdge, 1), ("rightEdge", s.rightEdge, -1)):
        sd = side_of(s.centerline.points, edge.lineString)
        if sd == 0:
            acc.cnt["skipped_touching"] += 1
        else:
            C("geometry", f"{nm}-side", sd == want, f"{s.uid}.{nm} lies on the {'left' if sd > 0 else 'right'} of its centreline")
    # isForward: "whether this lane has the same direction as its parent road": the
    # projection onto the road's centreline advances along it iff the lane is forward
    cl = s.centerline.lineString
    rl = s.road.centerline.lineString
    if cl.length > 1e-6 and rl.length > 1e-6:
        t1 = rl.project(cl.interpolate(0.35, normalized=True))
        t2 = rl.project(cl.interpolate(0.65, normalized=True))
        if abs(t2 - t1) < 0.05 * cl.length:
            acc.cnt["skipped_touching"] += 1
        else:
            C("geometry", "isForward-vs-road-direction", (t2 > t1) == s.isForward, f"{s.uid}.isForward={s.isForward} but its centreline runs {'along' if t2 > t1 else 'against'} the road's (road arc length {t1:.2f} -> {t2:.2f})")


# --------------------------------------------------------------------------------------
# (A2) probes, lookups, containment, tangency
# --------------------------------------------------------------------------------------
def make_probes(net, P):
    """Deterministic probe lattice: [(x, y, source uid, kind)]"""
    from scenic.domains.driving import roads as R

    tol = net.tolerance
    probes = []
    for u, e in net.elements.items():
        for x, y in tri_centroids(e.polygon, P["k_tri"]):
            probes.append((x, y, u, "tri"))
        if isinstance(e, R.LinearElement):
            for x, y in line_points(e.centerline.points, P["k_cl"]):
                probes.append((x, y, u, "cl"))
    off = tol / 2 if tol > 0 else 0.01
    for e in tuple(net.intersections) + tuple(net.roads) + tuple(net.shoulders) + tuple(net.sidewalks):
        for x, y in band_points(e.polygon, P["k_band"], off):
            probes.append((x, y, e.uid, "band"))
    for x, y in tri_centroids(net.drivableRegion.polygons, P["k_drv"]):
        probes.append((x, y, None, "drv"))
    return probes


class Oracle:
    """Independent containment oracle: own STRtree over the element polygons, exact
    distances; per probe the elements at distance 0 / <= tolerance."""

    def __init__(self, net, probes):
        self.net = net
        self.tol = net.tolerance
        self.elems = list(net.elements.values())
        self.index = {id(e): i for i, e in enumerate(self.elems)}
        self.polys = np.array([e.polygon for e in self.elems], dtype=object)
        self.bounds = shapely.boundary(self.polys)
        self.pts = shapely.points(np.array([(p[0], p[1]) for p in probes], dtype=float).reshape(-1, 2))
        tree = shapely.STRtree(self.polys)
        if len(probes):
            pi, ei = tree.query(self.pts, predicate="dwithin", distance=self.tol + 10 * EPS)
        else:
            pi, ei = np.array([], dtype=int), np.array([], dtype=int)
        d = shapely.distance(self.pts[pi], self.polys[ei]) if len(pi) else np.array([])
        bd = shapely.distance(self.pts[pi], self.bounds[ei]) if len(pi) else np.array([])
        self.near = [[] for _ in probes]
        for p, e, dd, bb in zip(pi.tolist(), ei.tolist(), d.tolist(), bd.tolist()):
            self.near[p].append((e, dd, bb))

    def mask(self, seq):
        return frozenset(self.index[id(e)] for e in seq)

    def sets(self, p, dom):
        """(S0, S1, touching) for probe index p within the domain (frozenset of indices).
        S0: elements containing the point; S1: within tolerance; touching: some element
        of the domain is within EPS of either decision boundary."""
        S0, S1, touching = [], [], False
        for e, d, bd in self.near[p]:
            if e not in dom:
                continue
            if d == 0:
                if bd < EPS:
                    touching = True
                S0.append(e)
                S1.append(e)
            else:
                if d < EPS or self.tol * (1 - DISC) - EPS < d < self.tol + EPS:
                    touching = True
                if d <= self.tol:
                    S1.append(e)
        return S0, S1, touching


def check_lookups(net, acc, probes, orc):
    from scenic.core.vectors import Vector
    from scenic.domains.driving import roads as R

    C = acc.check
    E = orc.elems
    idx = orc.index
    top = tuple(net.intersections) + tuple(net.roads) + tuple(net.shoulders) + tuple(net.sidewalks)
    nomdir = tuple(net.intersections) + tuple(net.roads) + tuple(net.shoulders)
    rank = {}
    for k, seq in enumerate((net.intersections, net.roads, net.shoulders, net.sidewalks)):
        for e in seq:
            rank[idx[id(e)]] = k
    doms = {
        "elementAt": (orc.mask(top), net.elementAt),
        "roadAt": (orc.mask(net.allRoads), net.roadAt),
        "laneAt": (orc.mask(net.lanes), net.laneAt),
        "intersectionAt": (orc.mask(net.intersections), net.intersectionAt),
        "sidewalkAt": (orc.mask(net.sidewalks), net.sidewalkAt),
        "shoulderAt": (orc.mask(net.shoulders), net.shoulderAt),
    }
    dom_nd = orc.mask(nomdir)
    dom_ls = orc.mask(net.laneSections)
    lanes_fwd = list(net.lanes)
    lanes_rev = lanes_fwd[::-1]
    order = {idx[id(l)]: k for k, l in enumerate(lanes_fwd)}
    drivable_dom = orc.mask(tuple(net.intersections) + tuple(net.allRoads))
    answers = []  # per probe: dict name -> uid(s)  (for the cache equivalence fingerprint)

    for p, (x, y, src, kind) in enumerate(probes):
        v = Vector(x, y)
        ans = {}
        where = lambda: f"probe ({x!r}, {y!r}) [{kind} of {src}]"
        # ---- direct lookups ----
        exp_by = {}
        for name, (dom, fn) in doms.items():
            S0, S1, touching = orc.sets(p, dom)
            r = fn(v)
            ans[name] = uid(r)
            if touching:
                acc.cnt["skipped_touching"] += 1
                exp_by[name] = None
                continue
            exp = S0 if S0 else S1
            exp_by[name] = exp
            if not exp:
                C("lookup", f"{name}-none-when-nothing-near", r is None, lambda: f"{where()}: {name} = {uid(r)} but no candidate element is within tolerance {orc.tol}")
                acc.cnt[f"{name}_none"] += 1
                continue
            ok = r is not None and id(r) in idx and idx[id(r)] in exp
            C("lookup", f"{name}-contains-probe" + ("" if S0 else "-within-tolerance"), ok, lambda: f"{where()}: {name} = {uid(r)}; elements {'containing the point' if S0 else 'within tolerance'}: {[E[i].uid for i in exp][:6]}" + ("" if r is None or id(r) not in idx else f"; distance of the answer {shapely.distance(orc.pts[p], r.polygon):.6g}"))
            acc.cnt["lookups_exact" if S0 else "lookups_tolerance"] += 1
            if name == "elementAt" and ok and not S0:
                ranks = {rank[i] for i in exp}
                if len(ranks) > 1:
                    acc.cnt["elementAt_priority_discriminating"] += 1
                C("lookup", "elementAt-priority-order", rank[idx[id(r)]] == min(ranks), lambda: f"{where()}: within tolerance of {[E[i].uid for i in exp][:6]}; documented priority Intersection>Road>Shoulder>Sidewalk; answer {uid(r)}")
        # ---- findPointIn: "the first of the given elements containing the point" ----
        exp = exp_by.get("laneAt")
        if exp and len(exp) > 1:
            first = min(exp, key=order.get)
            last = max(exp, key=order.get)
            r1 = net.findPointIn(v, lanes_fwd, False)
            r2 = net.findPointIn(v, lanes_rev, False)
            C("lookup", "findPointIn-first-of-given-order", r1 is E[first] and r2 is E[last], lambda: f"{where()}: lanes {[E[i].uid for i in sorted(exp, key=order.get)][:6]} qualify; findPointIn(lanes) = {uid(r1)}, findPointIn(reversed lanes) = {uid(r2)}")
        # ---- derived lookups ----
        ls = net.laneSectionAt(v)
        ans["laneSectionAt"] = uid(ls)
        lane_exp = exp_by.get("laneAt")
        if lane_exp is not None:
            if not lane_exp:
                C("lookup", "laneSectionAt-none-when-no-lane", ls is None, lambda: f"{where()}: laneSectionAt = {uid(ls)} but no lane is within tolerance")
            elif ls is None:
                acc.cnt["laneSectionAt_none_inside_lane"] += 1
            else:
                d = shapely.distance(orc.pts[p], ls.polygon)
                if orc.tol * (1 - DISC) - EPS < d < orc.tol + EPS:
                    acc.cnt["skipped_touching"] += 1
                else:
                    C("lookup", "laneSectionAt-contains-probe", d <= orc.tol and idx.get(id(ls.lane)) in lane_exp, lambda: f"{where()}: laneSectionAt = {ls.uid} at distance {d:.6g} (tolerance {orc.tol}), its lane {ls.lane.uid}; qualifying lanes {[E[i].uid for i in lane_exp][:6]}")
        g = net.laneGroupAt(v)
        ans["laneGroupAt"] = uid(g)
        road_exp = exp_by.get("roadAt")
        if road_exp is not None:
            if not road_exp:
                C("lookup", "laneGroupAt-none-when-no-road", g is None, lambda: f"{where()}: laneGroupAt = {uid(g)} but no road is within tolerance")
            elif g is None:
                acc.cnt["laneGroupAt_none_inside_road"] += 1
            else:
                d = shapely.distance(orc.pts[p], g.polygon)
                if orc.tol * (1 - DISC) - EPS < d < orc.tol + EPS:
                    acc.cnt["skipped_touching"] += 1
                else:
                    C("lookup", "laneGroupAt-contains-probe", d <= orc.tol and idx.get(id(g.road)) in road_exp, lambda: f"{where()}: laneGroupAt = {g.uid} at distance {d:.6g} (tolerance {orc.tol}); qualifying roads {[E[i].uid for i in road_exp][:6]}")
        # ---- directions ----
        dirs = net.nominalDirectionsAt(v)
        rd = net.roadDirection[v]
        yaws = tuple(d.yaw for d in dirs)
        ans["nominalDirectionsAt"] = yaws
        ans["roadDirection"] = rd.yaw
        S0, S1, touching = orc.sets(p, dom_nd)
        # a probe on the boundary of a lane: `containsPoint` (used by nominalDirectionsAt)
        # and `distanceTo == 0` (used by the orientation of an intersection) may disagree
        touching = touching or orc.sets(p, doms["laneAt"][0])[2]
        if touching:
            acc.cnt["skipped_touching"] += 1
        else:
            exp = S0 if S0 else S1
            if not exp:
                C("lookup", "nominalDirectionsAt-empty-off-road", len(dirs) == 0 and rd.yaw == 0, lambda: f"{where()}: no intersection/road/shoulder within tolerance but nominalDirectionsAt = {yaws}, roadDirection = {rd.yaw}")
            else:
                C("lookup", "nominalDirectionsAt-nonempty-on-road", len(dirs) >= 1, lambda: f"{where()}: within {[E[i].uid for i in exp][:4]} but nominalDirectionsAt is empty")
                if dirs:
                    C("lookup", "roadDirection-among-nominalDirections", any(angdiff(rd.yaw, t) < 1e-9 for t in yaws), lambda: f"{where()}: roadDirection {rd.yaw} not among nominalDirectionsAt {yaws}")
                if len(exp) == 1 and not isinstance(E[exp[0]], R.Intersection):
                    C("lookup", "single-direction-outside-intersections", len(dirs) == 1, lambda: f"{where()}: only {E[exp[0]].uid} here but {len(dirs)} nominal directions")
        # ---- children inside parents, at this probe ----
        if kind in ("tri",) and src is not None:
            e = net.elements[src]
            for parent, nm in parents_of(e):
                d = shapely.distance(orc.pts[p], parent.polygon)
                if orc.tol * (1 - DISC) - EPS < d < orc.tol + EPS:
                    acc.cnt["skipped_touching"] += 1
                else:
                    C("containment", f"{type(e).__name__}-probe-inside-{nm}", d <= orc.tol, lambda: f"{where()}: interior point of {e.uid} is {d:.6g} away from its {nm} {parent.uid} (tolerance {orc.tol})")
            # the element's own class lookup finds *something* there, and through its parent
            if isinstance(e, R.LaneSection):
                S0, S1, touching = orc.sets(p, orc.mask(e.lane.sections))
                r = e.lane.sectionAt(v)
                if not touching:
                    C("lookup", "lane.sectionAt-contains-probe", r is not None and idx[id(r)] in S0, lambda: f"{where()}: {e.lane.uid}.sectionAt = {uid(r)}, sections containing the point {[E[i].uid for i in S0]}")
            if isinstance(e, R.Lane):
                S0, S1, touching = orc.sets(p, orc.mask(e.group.lanes))
                r = e.group.laneAt(v)
                if not touching:
                    C("lookup", "group.laneAt-contains-probe", r is not None and idx[id(r)] in S0, lambda: f"{where()}: {e.group.uid}.laneAt = {uid(r)}, lanes containing the point {[E[i].uid for i in S0]}")
                S0, S1, touching = orc.sets(p, orc.mask(e.road.lanes))
                r = e.road.laneAt(v)
                if not touching:
                    C("lookup", "road.laneAt-contains-probe", r is not None and idx[id(r)] in S0, lambda: f"{where()}: {e.road.uid}.laneAt = {uid(r)}, lanes containing the point {[E[i].uid for i in S0]}")
            if isinstance(e, R.RoadSection):
                S0, S1, touching = orc.sets(p, orc.mask(e.road.sections))
                r = e.road.sectionAt(v)
                if not touching:
                    C("lookup", "road.sectionAt-contains-probe", r is not None and idx[id(r)] in S0, lambda: f"{where()}: {e.road.uid}.sectionAt = {uid(r)}, sections containing the point {[E[i].uid for i in S0]}")
        # ---- drivable region is covered by what the lookups return ----
        if kind == "drv" or (kind == "tri" and isinstance(net.elements.get(src), (R.Road, R.Lane, R.Intersection))):
            S0, S1, touching = orc.sets(p, drivable_dom)
            if touching:
                acc.cnt["skipped_touching"] += 1
            else:
                C("coverage", "drivable-point-near-a-road-or-intersection", bool(S1), lambda: f"{where()}: point of the drivable region but no road or intersection within tolerance {orc.tol}")
                if S1:
                    got = [net.elementAt(v), net.roadAt(v), net.intersectionAt(v)]
                    C("coverage", "drivable-point-found-by-lookups", got[0] is not None and (got[1] is not None or got[2] is not None), lambda: f"{where()}: drivable point; elementAt={uid(got[0])} roadAt={uid(got[1])} intersectionAt={uid(got[2])}")
        answers.append(ans)
    return answers


def parents_of(e):
    from scenic.domains.driving import roads as R

    if isinstance(e, R.LaneSection):
        return [(e.lane, "lane"), (e.group, "group"), (e.road, "road")]
    if isinstance(e, R.Lane):
        return [(e.group, "group"), (e.road, "road")]
    if isinstance(e, R.LaneGroup):
        return [(e.road, "road")]
    if isinstance(e, R.RoadSection):
        return [(e.road, "road")]
    return []


def check_containment(net, acc):
    """Children inside parents, exhaustively over all polygon vertices; construction-time
    promises (edges / centrelines inside the element within 0.5) re-checked."""
    from scenic.domains.driving import roads as R

    C = acc.check
    tol = net.tolerance
    worst = 0.0

    def verts(geom):
        return shapely.points(shapely.get_coordinates(geom))

    for u, e in net.elements.items():
        for parent, nm in parents_of(e):
            pts = verts(e.polygon)
            if len(pts) == 0:
                continue
            d = float(shapely.distance(pts, parent.polygon).max())
            worst = max(worst, d)
            if abs(d - tol) < EPS:
                acc.cnt["skipped_touching"] += 1
                continue
            C("containment", f"{type(e).__name__}-inside-{nm}", d <= tol, f"a vertex of {u} is {d:.6g} outside its {nm} {parent.uid} (tolerance {tol})")
        if isinstance(e, R.LinearElement):
            for nm in ("leftEdge", "rightEdge"):
                d = float(shapely.distance(verts(getattr(e, nm).lineString), e.polygon).max())
                C("containment", "edge-inside-element", d <= 0.5 + EPS, f"{u}.{nm} is {d:.6g} outside the element (constructor promises 0.5)")
            if isinstance(e, (R.Lane, R.LaneSection, R.Sidewalk, R.Shoulder, R.PedestrianCrossing)):
                d = float(shapely.distance(verts(e.centerline.lineString), e.polygon).max())
                C("containment", "centerline-inside-element", d <= 0.5 + EPS, f"{u}.centerline is {d:.6g} outside the element (constructor promises 0.5)")
    for i in net.intersections:
        for m in i.maneuvers:
            if m.connectingLane is not None:
                d = float(shapely.distance(verts(m.connectingLane.polygon), i.polygon).max())
                C("containment", "connecting-lane-inside-intersection", d <= 0.5 + EPS, f"connecting lane {m.connectingLane.uid} is {d:.6g} outside {i.uid} (constructor promises 0.5)")
    drv = net.drivableRegion.polygons
    for nm in ("laneRegion", "roadRegion", "intersectionRegion"):
        reg = getattr(getattr(net, nm), "polygons", None)
        if reg is None or reg.is_empty:
            continue
        d = float(shapely.distance(verts(reg), drv).max())
        if abs(d - tol) < EPS:
            acc.cnt["skipped_touching"] += 1
        else:
            C("containment", f"{nm}-inside-drivableRegion", d <= tol, f"a vertex of network.{nm} is {d:.6g} outside drivableRegion")
    acc.stats["max_child_vertex_excess"] = worst


def check_tangency(net, acc, orc_factory, P):
    """The traffic direction reported at a point of a lane's centreline is tangent to the
    centreline: mid-points of centreline segments (never the joints), bound = the turn
    angle to the neighbouring segments + 1e-6."""
    from scenic.core.vectors import Vector
    from scenic.domains.driving import roads as R

    C = acc.check
    cases = []
    for lane in net.lanes:
        pts = [(p[0], p[1]) for p in lane.centerline.points]
        segs = [(i, pts[i], pts[i + 1]) for i in range(len(pts) - 1) if math.dist(pts[i], pts[i + 1]) > 1e-4]
        if not segs:
            continue
        k = P["k_seg"]
        if len(segs) > k:
            step = len(segs) / k
            pick = [segs[int((j + 0.5) * step)] for j in range(k)]
        else:
            pick = segs
        for i, a, b in pick:
            h = heading_of(a, b)
            bound = 1e-6
            if i > 0 and math.dist(pts[i - 1], a) > 1e-9:
                bound = max(bound, angdiff(h, heading_of(pts[i - 1], a)) + 1e-6)
            if i + 2 < len(pts) and math.dist(b, pts[i + 2]) > 1e-9:
                bound = max(bound, angdiff(h, heading_of(b, pts[i + 2])) + 1e-6)
            cases.append((lane, ((a[0] + b[0]) / 2, (a[1] + b[1]) / 2), h, bound))
    probes = [(m[0], m[1], lane.uid, "seg") for lane, m, h, bound in cases]
    orc = orc_factory(probes)
    idx = orc.index
    dom_lanes = orc.mask(net.lanes)
    dom_nd = orc.mask(tuple(net.intersections) + tuple(net.roads) + tuple(net.shoulders))
    via = collections.defaultdict(set)
    for i in net.intersections:
        for m in i.maneuvers:
            if m.connectingLane is not None:
                via[id(i)].add(id(m.connectingLane))
    worst = 0.0
    for p, (lane, mid, h, bound) in enumerate(cases):
        v = Vector(*mid)
        where = lambda: f"midpoint {mid} of a centreline segment of {lane.uid} (tangent heading {h:.6f}, bound {bound:.2g})"
        own = lane.orientation[v].yaw
        worst = max(worst, angdiff(own, h))
        C("tangency", "lane.orientation", angdiff(own, h) <= bound, lambda: f"{where()}: lane.orientation = {own:.6f}")
        # through the network: only where the answer is unambiguous
        S0, S1, touching = orc.sets(p, dom_lanes)
        N0, N1, touching2 = orc.sets(p, dom_nd)
        if touching or touching2:
            acc.cnt["skipped_touching"] += 1
            continue
        if len(N1) != 1:
            acc.cnt["tangency_skipped_several_top_level_elements"] += 1
            continue
        top = orc.elems[N1[0]]
        me = idx[id(lane)]
        if isinstance(top, R.Intersection):
            if id(lane) not in via[id(top)] or me not in S0:
                acc.cnt["tangency_skipped_not_a_connecting_lane_here"] += 1
                continue
            yaws = [d.yaw for d in net.nominalDirectionsAt(v)]
            C("tangency", "nominalDirectionsAt-in-intersection", any(angdiff(t, h) <= bound for t in yaws), lambda: f"{where()}: inside {top.uid}; nominalDirectionsAt = {yaws}")
            if S1 == [me]:
                rd = net.roadDirection[v].yaw
                C("tangency", "roadDirection", angdiff(rd, h) <= bound, lambda: f"{where()}: only this lane here; roadDirection = {rd:.6f}")
        elif isinstance(top, R.Road):
            if lane.road is not top or S1 != [me]:
                acc.cnt["tangency_skipped_overlapping_lanes"] += 1
                continue
            rd = net.roadDirection[v].yaw
            nd = [d.yaw for d in net.nominalDirectionsAt(v)]
            C("tangency", "roadDirection", angdiff(rd, h) <= bound, lambda: f"{where()}: only this lane here; roadDirection = {rd:.6f}")
            C("tangency", "nominalDirectionsAt-on-road", len(nd) == 1 and angdiff(nd[0], h) <= bound, lambda: f"{where()}: only this lane here; nominalDirectionsAt = {nd}")
            for nm, fld in (("road", top), ("group", lane.group)):
                y = fld.orientation[v].yaw
                C("tangency", f"{nm}.orientation", angdiff(y, h) <= bound, lambda: f"{where()}: {fld.uid}.orientation = {y:.6f}")
        else:
            acc.cnt["tangency_skipped_shoulder"] += 1
    acc.stats["max_tangent_error"] = worst
    return len(cases)


# --------------------------------------------------------------------------------------
# one network
# --------------------------------------------------------------------------------------
def check_network(net, acc, P):
    check_links(net, acc)
    check_containment(net, acc)
    probes = make_probes(net, P)
    orc = Oracle(net, probes)
    check_lookups(net, acc, probes, orc)
    nseg = check_tangency(net, acc, lambda pr: Oracle(net, pr), P)
    acc.cnt["elements"] += len(net.elements)
    acc.cnt["probes"] += len(probes) + nseg
    for cls in ("roads", "connectingRoads", "laneGroups", "lanes", "laneSections", "intersections", "sidewalks", "shoulders"):
        acc.cnt["n_" + cls] += len(getattr(net, cls))


# --------------------------------------------------------------------------------------
# equivalence of two networks (cached vs parsed)
# --------------------------------------------------------------------------------------
_REG = [None]  # elements dict of the network being fingerprinted (identity check)


def _euid(x):
    """uid of a reference -- but only if it *is* the registered element of that uid in the
    network being fingerprinted (a placeholder or a copy with the same uid is not)."""
    from scenic.domains.driving import roads as R

    if x is None:
        return None
    if isinstance(x, R.NetworkElement) and _REG[0].get(x.uid) is x:
        return x.uid
    return f"<foreign {type(x).__name__} uid={getattr(x, 'uid', None)!r}>"


def _ref(v):
    from scenic.domains.driving import roads as R

    if isinstance(v, (R.NetworkElement, R._ElementPlaceholder)):
        return ("E", _euid(v))
    if isinstance(v, R.Maneuver):
        return ("M", v.type.name if v.type else None, _euid(v.startLane), _euid(v.connectingLane), _euid(v.endLane), _euid(v.intersection))
    if isinstance(v, R.Signal):
        return ("S", v.uid, v.openDriveID, v.country, v.type)
    return None


def _facet(v):
    """Canonical, comparable value of an attribute (None = not part of the fingerprint)."""
    from scenic.core.regions import PolygonalRegion, PolylineRegion
    from scenic.domains.driving import roads as R

    r = _ref(v)
    if r is not None:
        return r
    if v is None or isinstance(v, (bool, int, float, str)):
        return ("v", v)
    if isinstance(v, (tuple, list)):
        items = [_facet(x) for x in v]
        return ("t",) + tuple(items) if all(i is not None for i in items) else None
    if isinstance(v, dict):
        items = [(repr(k), _facet(x)) for k, x in sorted(v.items(), key=lambda kv: repr(kv[0]))]
        return ("d",) + tuple(items) if all(i[1] is not None for i in items) else None
    if isinstance(v, frozenset):
        return ("fs",) + tuple(sorted(getattr(x, "name", repr(x)) for x in v))
    if isinstance(v, PolylineRegion):
        return ("line", np.asarray([(p[0], p[1]) for p in v.points], dtype=float).tobytes())
    if isinstance(v, PolygonalRegion) and not isinstance(v, R.NetworkElement):
        return ("poly", shapely.to_wkb(v.polygons))
    if isinstance(v, (shapely.Polygon, shapely.MultiPolygon)):
        return ("poly", shapely.to_wkb(v))
    return None


_SKIP_ATTRS = {"network", "orientation", "_rtree", "_uidForIndex", "elements", "roadDirection"}


def fingerprint(net):
    """uid -> {attribute -> canonical value}: every element-valued, geometric and scalar
    attribute of every element and of the network itself (link graph by uid *and identity*,
    polygons as WKB, polylines as coordinate arrays)."""
    _REG[0] = net.elements
    try:
        return _fingerprint(net)
    finally:
        _REG[0] = None


def _fingerprint(net):
    fp = {}
    for u, e in net.elements.items():
        rec = {"__class__": type(e).__name__, "polygon": ("poly", shapely.to_wkb(e.polygon))}
        try:
            rec["__network__"] = e.network.elements is net.elements
        except ReferenceError:
            rec["__network__"] = False
        for k, v in vars(e).items():
            if k in _SKIP_ATTRS or k.startswith("_cached") or k in rec:
                continue
            f = _facet(v)
            if f is not None:
                rec[k] = f
        if hasattr(e, "maneuvers"):
            rec["maneuvers"] = tuple(_ref(m) for m in e.maneuvers)
        fp[u] = rec
    rec = {"__class__": "Network", "__uids__": tuple(net.elements)}
    for k, v in vars(net).items():
        if k in _SKIP_ATTRS or k.startswith("_cached"):
            continue
        f = _facet(v)
        if f is not None:
            rec[k] = f
    fp["<network>"] = rec
    return fp


def _same(a, b):
    if a == b:
        return True
    if isinstance(a, tuple) and isinstance(b, tuple) and len(a) == 2 and len(b) == 2 and a[0] == b[0]:
        if a[0] == "poly":
            return bool(shapely.equals_exact(shapely.from_wkb(a[1]), shapely.from_wkb(b[1]), 1e-9))
        if a[0] == "line" and len(a[1]) == len(b[1]):
            return bool(np.allclose(np.frombuffer(a[1]), np.frombuffer(b[1]), rtol=0, atol=1e-9))
    return False


def fp_diff(ref, got):
    """First difference between two fingerprints: (facet kind, text) or None."""
    if list(ref) != list(got):
        miss = [u for u in ref if u not in got][:4]
        extra = [u for u in got if u not in ref][:4]
        if miss or extra:
            return "element-uids", f"missing {miss} / unexpected {extra}"
        return "element-order", "same uids in a different order"
    for u in ref:
        ra, rb = ref[u], got[u]
        if ra.keys() != rb.keys():
            return "attributes", f"{u}: attributes {sorted(set(ra) ^ set(rb))[:6]} present on one side only"
        for k in ra:
            if not _same(ra[k], rb[k]):
                kind = "polygon" if ra[k][0] in ("poly", "line") else ("link" if ra[k][0] in ("E", "M", "t", "d") else "value")
                va, vb = (ra[k], rb[k]) if kind != "polygon" else ("<geometry>", "<different geometry>")
                return kind, f"{u}.{k}: expected {str(va)[:160]}, got {str(vb)[:160]}"
    return None


LOOKUPS = ("elementAt", "roadAt", "laneAt", "laneSectionAt", "laneGroupAt", "intersectionAt", "sidewalkAt", "shoulderAt")


def lookup_answers(net, probes, guard=False):
    """Answers of every lookup at every probe.  guard=True (networks that came out of a
    possibly damaged cache): an exception inside a lookup becomes the answer."""
    from scenic.core.vectors import Vector

    out = []
    for x, y, *_ in probes:
        v = Vector(x, y)
        try:
            row = [uid(getattr(net, nm)(v)) for nm in LOOKUPS]
            row.append(tuple(d.yaw for d in net.nominalDirectionsAt(v)))
            row.append(net.roadDirection[v].yaw)
        except Exception as e:
            if not guard:
                raise
            row = [f"raised {type(e).__name__}: {str(e)[:120]}"] * (len(LOOKUPS) + 2)
        out.append(row)
    return out


def net_diff(ref, key, net):
    """First difference between a network and the reference for `key`, or None."""
    with warnings.catch_warnings():
        warnings.simplefilter("ignore")  # damaged caches produce NaN geometry etc.
        try:
            dd = fp_diff(ref["fps"][key], fingerprint(net))
        except Exception as e:
            return ("structure-raises", f"inspecting the returned network raised {type(e).__name__}: {str(e)[:160]}")
        if dd is None:
            a = answers_diff(ref["answers"][key], lookup_answers(net, ref["probes"][key], guard=True), ref["probes"][key])
            dd = ("lookup", a) if a else None
    return dd


def answers_diff(ref, got, probes):
    names = LOOKUPS + ("nominalDirectionsAt", "roadDirection")
    for row_a, row_b, pr in zip(ref, got, probes):
        for nm, a, b in zip(names, row_a, row_b):
            if a != b:
                return f"{nm} at ({pr[0]!r}, {pr[1]!r}): expected {a}, got {b}"
    return None


# --------------------------------------------------------------------------------------
# (B) cache protocol
# --------------------------------------------------------------------------------------
_PARSES = [0]
_PATCHED = [False]


def install_parse_counter():
    """Harness-side, timing-independent observation of 'cache used' vs 'map parsed':
    count calls of the OpenDRIVE parser entry point."""
    import scenic.formats.opendrive.xodr_parser as xp

    if _PATCHED[0]:
        return
    orig = xp.RoadMap.parse

    def parse(self, path):
        _PARSES[0] += 1
        return orig(self, path)

    if not callable(orig):
        raise HarnessError("seam target RoadMap.parse missing")
    xp.RoadMap.parse = parse
    _PATCHED[0] = True


def scale_widths(data: bytes) -> bytes:
    """Geometry edit: every lane width polynomial's constant term x 0.9."""

    def rep(m):
        return m.group(1) + repr(float(m.group(2)) * 0.9).encode() + m.group(3)

    new, n = re.subn(rb'(<width\b[^>]*?\ba=")([^"]+)(")', rep, data)
    if n == 0:
        raise HarnessError("no <width a=...> to edit in the cache map")
    return new


CACHE_PROBE_P = dict(k_tri=1, k_cl=1, k_band=0, k_drv=24)
REFS = {}  # (map rel) -> dict(contents, fps, probes, answers)


def prepare_refs(rel, rundir, probe_params=CACHE_PROBE_P):
    """Fresh parses (useCache=False) of every (geometry version, options) of the map:
    the reference the model's predictions point to."""
    src = (MAPS / rel).read_bytes()
    g = {0: src, 1: scale_widths(src)}
    contents = {(gv, c): g[gv] + (b"\n<!-- c20 edit -->\n" if c else b"") for gv in (0, 1) for c in (0, 1)}
    d = pathlib.Path(rundir) / f"ref-{pathlib.Path(rel).stem}"
    d.mkdir(parents=True, exist_ok=True)
    fps, probes, answers = {}, {}, {}
    for gv in (0, 1):
        p = d / f"g{gv}.xodr"
        p.write_bytes(contents[(gv, 0)])
        for on, opts in cm.OPTS.items():
            net = build(p, opts)
            fps[(gv, on)] = fingerprint(net)
            pr = make_probes(net, probe_params)
            probes[(gv, on)] = pr
            answers[(gv, on)] = lookup_answers(net, pr)
            # determinism of the reference itself (a second fresh parse must be identical)
            net2 = build(p, opts)
            dd = fp_diff(fps[(gv, on)], fingerprint(net2)) or answers_diff(answers[(gv, on)], lookup_answers(net2, pr), pr)
            if dd:
                raise HarnessError(f"two fresh parses of {rel} g{gv} {on} differ: {dd}")
    keys = list(fps)
    for i, a in enumerate(keys):
        for b in keys[i + 1 :]:
            if fp_diff(fps[a], fps[b]) is None:
                raise HarnessError(f"references {a} and {b} are indistinguishable: a wrongly used cache would go unnoticed")
    if any(f.suffix == ".snet" for f in d.iterdir()):
        raise HarnessError("useCache=False/writeCache=False wrote a cache file")
    REFS[rel] = dict(contents=contents, fps=fps, probes=probes, answers=answers)


class Rig:
    """The implementation side: a map file and its cache file in a private directory."""

    def __init__(self, rel, rundir):
        self.rel = rel
        self.ref = REFS[rel]
        self.dir = pathlib.Path(rundir) / f"rig-{os.getpid()}-{uuid.uuid4().hex[:8]}"
        self.dir.mkdir(parents=True)
        self.map = self.dir / "m.xodr"
        self.cache = self.dir / "m.snet"
        self.map.write_bytes(self.ref["contents"][(0, 0)])
        self.state = cm.INITIAL
        self.viol = []
        self.trans = set()
        self.tally = collections.Counter()

    def close(self):
        shutil.rmtree(self.dir, ignore_errors=True)

    def snapshot(self):
        return (self.map.read_bytes(), self.cache.read_bytes() if self.cache.exists() else None, self.state)

    def restore(self, snap):
        mp, ca, st = snap
        self.map.write_bytes(mp)
        if ca is None:
            if self.cache.exists():
                self.cache.unlink()
        else:
            self.cache.write_bytes(ca)
        self.state = st

    def report(self, sig, desc, trace):
        if sum(1 for v in self.viol if v[0] == sig) < 2:
            self.viol.append((sig, f"after operations {trace} on a copy of {self.rel}: {desc}", {"part": "cache", "map": self.rel, "trace": list(trace), "signature": sig}))
        self.tally["violations"] += 1

    def do(self, op, trace):
        """Apply one operation to the files, judge it against the model, advance the model."""
        from scenic.domains.driving.roads import Network

        st = self.state
        if op in cm.LOADS:
            optname, use, write = cm.LOADS[op]
            refkey, allowed = cm.predict_load(st, op)
            cls = cm.classify(st, op)
            before = self.cache.read_bytes() if self.cache.exists() else None
            n0 = _PARSES[0]
            net = err = None
            try:
                with warnings.catch_warnings():
                    warnings.simplefilter("ignore")
                    net = Network.fromFile(str(self.map), useCache=use, writeCache=write, **cm.OPTS[optname])
            except Exception as e:  # judged below
                err = e
            parsed = _PARSES[0] - n0
            after = self.cache.read_bytes() if self.cache.exists() else None
            self.tally[f"load:{cls}:{'raised' if err else ('parsed' if parsed else 'cache-used')}"] += 1
            if err is not None:
                if cls != "soft-corrupt":  # (damaged payload: outside the property, tallied only)
                    self.report(f"cache:load-raises:{cls}:{type(err).__name__}", f"{op} with a {cls} cache raised {type(err).__name__}: {str(err)[:200]}", trace)
                # model: nothing was returned; the cache is whatever is on disk -> resync by observation
                parsed_for_model = 1 if (after != before and after is not None) else 0
                self.advance(st, op, parsed_for_model if len(allowed) > 1 else allowed[0])
                return
            if parsed not in allowed:
                if parsed == 0:
                    self.report(f"cache:mismatching-cache-used:{cls}", f"{op}: the cache was {cls} for this load, yet the map was not parsed (cached network returned)", trace)
                elif allowed == (0,):
                    self.report(f"cache:valid-cache-ignored:{cls}", f"{op}: a cache written for exactly this map and options exists, yet the parser ran {parsed}x", trace)
                else:
                    self.report(f"cache:parser-ran-{parsed}-times:{cls}", f"{op}: parser ran {parsed} times", trace)
            if parsed:  # parsed afresh in this process: deterministic, structure suffices
                dd = fp_diff(self.ref["fps"][refkey], fingerprint(net))
            else:
                dd = net_diff(self.ref, refkey, net)
            if dd is not None and cls == "soft-corrupt" and parsed == 0:
                # the property says nothing about a cache whose payload is damaged
                self.tally["observed:soft-corrupt-cache-used-and-network-differs"] += 1
            elif dd is not None:
                self.report(f"cache:network-differs-from-fresh-parse:{cls}:{dd[0]}", f"{op} ({cls} cache, parser ran {parsed}x) returned a network that differs from a fresh parse of the current map with options {cm.OPTS[optname]}: {dd[1]}", trace)
            else:
                self.tally["equivalent_loads"] += 1
            if not write and after != before:
                self.report("cache:writeCache-false-touched-cache", f"{op}: writeCache=False but the cache file changed", trace)
            if parsed == 0 and after != before:
                self.report("cache:cache-used-but-rewritten", f"{op}: cache used but the cache file changed", trace)
            if parsed and write and after is None:
                self.report("cache:cache-not-written", f"{op}: parsed with writeCache=True but no cache file exists", trace)
            self.advance(st, op, parsed if parsed in allowed else allowed[0])
            return
        # non-load operations
        if op == "editG" or op == "editC":
            new = cm.step(st, op)
            self.map.write_bytes(self.ref["contents"][new[1]])
        elif op == "delete":
            if self.cache.exists():
                self.cache.unlink()
        else:
            if self.cache.exists():
                data = cm.apply_corruption(op, self.cache.read_bytes())
                if data is not None:
                    self.cache.write_bytes(data)
        self.advance(st, op, None)

    def advance(self, st, op, parsed):
        new = cm.step(st, op, parsed)
        self.trans.add((st, op, new))
        self.state = new

    def explore(self, trace, depth_left):
        """All continuations of `trace` up to depth_left more operations (depth-first over
        the operation tree, files restored from a snapshot at every branch)."""
        n = 0
        snap = self.snapshot()
        for op in cm.ALPHABET:
            self.restore(snap)
            t = trace + [op]
            self.do(op, t)
            n += 1
            if depth_left > 1:
                n += self.explore(t, depth_left - 1)
        self.restore(snap)
        return n


RUNDIR = [None]


def cache_item(item):
    """One prefix of the operation tree and everything below it."""
    rel, prefix, depth = item
    rig = Rig(rel, RUNDIR[0])
    t0 = time.time()
    try:
        trace = []
        for op in prefix:
            trace = trace + [op]
            rig.do(op, trace)
        n = 1
        if depth > len(prefix):
            n += rig.explore(trace, depth - len(prefix))
        return dict(kind="cache", traces=n, trans=rig.trans, tally=dict(rig.tally), viol=rig.viol, secs=time.time() - t0)
    finally:
        rig.close()


# Damage of the *payload* of a cache whose header still matches is outside the property
# (it speaks of valid caches and of caches whose map / options differ): the outcomes are
# observed and counted (ctx.cov["corruption_sweep"]), never reported as violations.  Damage
# of the header fields (format version, map digest, options digest) is judged: the cache
# must be ignored and the load must return the freshly parsed network.
# A load of the 18 KB cache of the sweep map takes ~0.05 s.  Some single-byte damages make
# pickle.load allocate gigabytes and run for over a minute (measured stand-alone: 69 s,
# 2.4 GB RSS) before returning: the child is killed after this many seconds without a result.
LOAD_DEADLINE_S = 10


def judge_damaged_cache(rel, mp, ca, data, pos):
    """Load the map next to a damaged cache file `data`; classify and judge the outcome.
    -> (outcome key, violation or None).  Runs inside an expendable child process."""
    import base64

    from scenic.domains.driving.roads import Network

    ref = REFS[rel]
    ca.write_bytes(data)
    zone = "header" if pos < cm.HEADER else "payload"
    case = {"part": "sweep", "map": rel, "pos": pos, "cache_b64": base64.b64encode(data).decode()}
    n0 = _PARSES[0]
    try:
        with warnings.catch_warnings():
            warnings.simplefilter("ignore")
            net = Network.fromFile(str(mp), useCache=True, writeCache=False, **cm.OPTS["A"])
    except Exception as e:
        v = None
        if zone == "header":
            v = (f"cache:damaged-header-load-raises:{type(e).__name__}", f"cache of {rel} with header byte {pos} incremented: fromFile raised {type(e).__name__}: {str(e)[:200]}", case)
        return f"{zone}:raised:{type(e).__name__}", v
    parsed = _PARSES[0] - n0
    if parsed:
        # parsed afresh: deterministic, the structural comparison suffices
        try:
            dd = fp_diff(ref["fps"][(0, "A")], fingerprint(net))
        except Exception as e:
            dd = ("structure-raises", repr(e)[:160])
    else:
        dd = net_diff(ref, (0, "A"), net)
    key = f"{zone}:{'parsed' if parsed else 'cache-used'}:{'equivalent' if dd is None else 'DIFFERENT-' + dd[0]}"
    v = None
    if dd is not None and (zone == "header" or parsed):
        # (damaged payload that is loaded: observed and counted only, outside the property)
        v = (f"cache:damaged-{zone}-wrong-network", f"cache of {rel} ({len(data)} bytes) with byte {pos} incremented by one: fromFile returned, without any error, a network that is not equivalent to a fresh parse ({dd[0]}): {dd[1]}", case)
    elif zone == "header" and parsed == 0:
        v = ("cache:corrupt-header-accepted", f"cache of {rel} with header byte {pos} incremented was used", case)
    return key, v


def _send(fd, obj):
    data = pickle.dumps(obj)
    os.write(fd, len(data).to_bytes(8, "little"))
    while data:
        n = os.write(fd, data)
        data = data[n:]


def _recv_all(fd, deadline_s, first_deadline_s):
    """Records streamed by the child until EOF; (records, timed_out).  The first record
    (the child's "ready" after its warm-up) may take first_deadline_s, later ones deadline_s."""
    import select

    buf = b""
    recs = []
    last = time.time()
    while True:
        r, _, _ = select.select([fd], [], [], 1.0)
        if r:
            chunk = os.read(fd, 1 << 20)
            if not chunk:
                return recs, False
            buf += chunk
            while len(buf) >= 8:
                n = int.from_bytes(buf[:8], "little")
                if len(buf) < 8 + n:
                    break
                recs.append(pickle.loads(buf[8 : 8 + n]))
                buf = buf[8 + n :]
                last = time.time()
        elif time.time() - last > (deadline_s if recs else first_deadline_s):
            return recs, True


READY = "__ready__"


def isolated_each(fn, args_list, deadline_s=180, warmup=None):
    """fn(*args) for each args in a forked child process that streams its results back.
    Loading a damaged pickle can take the interpreter down (observed: 'SystemError:
    deallocated bytearray object has exported buffers' followed by the death of the
    process) or run for minutes; the worker must survive that.  The child first runs
    `warmup` (a forked process is slow until it has touched -- copied -- the pages it
    needs; that must not count against the job's deadline) and reports ready.
    -> list of ("ok", result) | ("crashed", wait status) | ("hung", None), one per args."""
    out = []
    i = 0
    while i < len(args_list):
        rfd, wfd = os.pipe()
        pid = os.fork()
        if pid == 0:  # child
            code = 0
            try:
                # keep the cyclic GC away from the inherited heap: a full collection in a
                # forked process writes to every object header, i.e. copies the whole heap
                # page by page (measured: a 0.02 s parse took 5-15 s in the child)
                gc.freeze()
                os.close(rfd)
                if warmup is not None:
                    warmup()
                _send(wfd, READY)
                for args in args_list[i:]:
                    try:
                        rec = fn(*args)
                    except Exception as e:  # a bug of the harness, not a crash of the load
                        rec = ("__harness_exception__", repr(e)[:300])
                    _send(wfd, rec)
            except BaseException:
                code = 3
            finally:
                os._exit(code)
        os.close(wfd)
        recs, timed_out = _recv_all(rfd, deadline_s, 300)
        os.close(rfd)
        if timed_out:
            try:
                os.kill(pid, 9)
            except ProcessLookupError:
                pass
        _, status = os.waitpid(pid, 0)
        if not recs or recs[0] != READY:
            raise HarnessError(f"isolated child did not get through its warm-up (status {status}, timed out {timed_out})")
        recs = recs[1:]
        for r in recs:
            if isinstance(r, tuple) and r and r[0] == "__harness_exception__":
                raise HarnessError(f"exception in isolated harness code: {r[1]}")
        out.extend(("ok", r) for r in recs)
        i += len(recs)
        if i < len(args_list):
            # the child stopped before finishing: args_list[i] is the one that killed it
            out.append(("hung", None) if timed_out else ("crashed", status))
            i += 1
    return out


def _warm(rel, mp, ca, good):
    """Warm-up of a sweep child: one load from the intact cache and one parse."""
    from scenic.domains.driving.roads import Network

    ca.write_bytes(good)
    with warnings.catch_warnings():
        warnings.simplefilter("ignore")
        net = Network.fromFile(str(mp), useCache=True, writeCache=False, **cm.OPTS["A"])
        net_diff(REFS[rel], (0, "A"), net)
        net = Network.fromFile(str(mp), useCache=False, writeCache=False, **cm.OPTS["A"])
        fingerprint(net)


def sweep_item(item):
    """Single-byte corruption sweep: each position of a valid cache incremented by one.
    (The cache bytes differ from run to run -- cached id()-based hashes are pickled -- so
    the failing case carries the damaged file itself for the replay.)"""
    import base64

    rel, positions = item
    from scenic.domains.driving.roads import Network

    ref = REFS[rel]
    d = pathlib.Path(RUNDIR[0]) / f"sweep-{os.getpid()}-{uuid.uuid4().hex[:8]}"
    d.mkdir(parents=True)
    out = collections.Counter()
    viol = []
    try:
        mp, ca = d / "m.xodr", d / "m.snet"
        mp.write_bytes(ref["contents"][(0, 0)])
        with warnings.catch_warnings():
            warnings.simplefilter("ignore")
            Network.fromFile(str(mp), **cm.OPTS["A"])
        good = ca.read_bytes()
        jobs = []
        for pos in positions:
            if pos >= len(good):
                continue
            b = bytearray(good)
            b[pos] = (b[pos] + 1) % 256
            jobs.append((rel, mp, ca, bytes(b), pos))
        for job, (how, res) in zip(jobs, isolated_each(judge_damaged_cache, jobs, deadline_s=LOAD_DEADLINE_S, warmup=lambda: _warm(rel, mp, ca, good))):
            pos = job[4]
            zone = "header" if pos < cm.HEADER else "payload"
            if how == "ok":
                key, v = res
                out[key] += 1
                if v is not None:
                    viol.append(v)
            else:
                out[f"{zone}:process-{how}"] += 1
                case = {"part": "sweep", "map": rel, "pos": pos, "cache_b64": base64.b64encode(job[3]).decode()}
                what = f"the loading process died (wait status {res})" if how == "crashed" else f"the load did not return within {LOAD_DEADLINE_S} s (a normal load takes ~0.05 s)"
                if zone == "header":
                    viol.append(("cache:damaged-header-kills-load", f"cache of {rel} ({len(job[3])} bytes) with byte {pos} incremented by one: {what}", case))
        seen = collections.Counter()
        keep = []
        for v in viol:
            seen[v[0]] += 1
            if seen[v[0]] <= 2:
                keep.append(v)
        return dict(kind="sweep", outcomes=dict(out), viol=keep, nviol=len(viol), n=len(jobs), size=len(good))
    finally:
        shutil.rmtree(d, ignore_errors=True)


# --------------------------------------------------------------------------------------
# cached-vs-parsed equivalence on the full probe lattice of a map (through fromFile)
# --------------------------------------------------------------------------------------
def roundtrip(rel, opts, net, probes, answers, acc):
    from scenic.domains.driving.roads import Network

    d = pathlib.Path(RUNDIR[0]) / f"rt-{os.getpid()}-{uuid.uuid4().hex[:8]}"
    d.mkdir(parents=True)
    try:
        mp = d / "m.xodr"
        shutil.copyfile(MAPS / rel, mp)
        with warnings.catch_warnings():
            warnings.simplefilter("ignore")
            n0 = _PARSES[0]
            Network.fromFile(str(mp), **opts)  # parses and writes the cache
            n1 = _PARSES[0]
            cached = Network.fromFile(str(mp), **opts)
            n2 = _PARSES[0]
        acc.check("cache", "first-load-parses", n1 - n0 == 1, f"first load of a fresh copy ran the parser {n1 - n0}x")
        acc.check("cache", "second-load-uses-cache", n2 - n1 == 0, f"second load with identical map and options ran the parser {n2 - n1}x although a cache was just written")
        dd = fp_diff(fingerprint(net), fingerprint(cached))
        acc.check("cache", "cached-equals-parsed-structure", dd is None, lambda: f"network loaded from the cache differs from the parsed one ({dd[0]}): {dd[1]}")
        rows = [[a[nm] for nm in LOOKUPS] + [a["nominalDirectionsAt"], a["roadDirection"]] for a in answers]
        a2 = answers_diff(rows, lookup_answers(cached, probes, guard=True), probes)
        acc.check("cache", "cached-equals-parsed-lookups", a2 is None, lambda: f"lookup on the network loaded from the cache differs: {a2}")
        acc.cnt["roundtrip_probes"] += len(probes)
    finally:
        shutil.rmtree(d, ignore_errors=True)


def graph_item_rt(item):
    """graph_item + cached-vs-parsed round trip (same probe lattice)."""
    rel, opts, variant, tier, dense, rt = item
    P = dict(TIERS[tier])
    if dense == "light":
        P.update(LIGHT)
    elif not dense:
        P.update(TIERS["quick"], depth=P["depth"])
    stem = pathlib.Path(rel).stem
    label = stem if variant is None else f"{stem}~del-{variant['tag']}"
    case = {"part": "graph", "map": rel, "opts": opts, "variant": variant, "tier": tier, "dense": dense, "rt": rt}
    acc = Acc(label, case)
    src = MAPS / rel
    t0 = time.time()
    tmpdir = None
    res = dict(kind="graph", item=(rel, opts, variant), built=False, unbuilt=None)
    try:
        if variant is not None:
            tmpdir = pathlib.Path(RUNDIR[0]) / f"var-{os.getpid()}-{uuid.uuid4().hex[:8]}"
            tmpdir.mkdir(parents=True)
            path = tmpdir / f"{stem}.xodr"
            write_variant(src, variant["index"], path)
        else:
            path = src
        try:
            net = build(path, opts)
        except Exception as e:
            # a network that fails to build is not judged (shipped map with an option set, or
            # deletion variant): counted with the exception type and where it was raised
            import traceback

            tb = traceback.extract_tb(e.__traceback__)
            res["unbuilt"] = type(e).__name__
            res["unbuilt_where"] = f"{pathlib.Path(tb[-1].filename).name}:{tb[-1].lineno} `{tb[-1].line}`" if tb else "?"
            res.update(acc.out(), parse_s=time.time() - t0, total_s=time.time() - t0)
            return res
        t1 = time.time()
        if not net.elements or not hasattr(net.drivableRegion, "polygons"):
            # (only deletion variants) nothing drivable left: nothing to judge
            res["unbuilt"] = "EmptyNetwork"
            res.update(acc.out(), parse_s=t1 - t0, total_s=time.time() - t0)
            return res
        check_links(net, acc)
        check_containment(net, acc)
        probes = make_probes(net, P)
        orc = Oracle(net, probes)
        answers = check_lookups(net, acc, probes, orc)
        nseg = check_tangency(net, acc, lambda pr: Oracle(net, pr), P)
        acc.cnt["elements"] += len(net.elements)
        acc.cnt["probes"] += len(probes) + nseg
        for cls in ("roads", "connectingRoads", "laneGroups", "lanes", "laneSections", "intersections", "sidewalks", "shoulders"):
            acc.cnt["n_" + cls] += len(getattr(net, cls))
        if rt and variant is None:
            roundtrip(rel, opts, net, probes, answers, acc)
        res.update(acc.out(), built=True, parse_s=t1 - t0, total_s=time.time() - t0)
        return res
    finally:
        if tmpdir is not None:
            shutil.rmtree(tmpdir, ignore_errors=True)


def work(item):
    kind = item[0]
    if kind == "graph":
        return graph_item_rt(item[1:])
    if kind == "cache":
        return cache_item(item[1:])
    if kind == "sweep":
        return sweep_item(item[1:])
    raise HarnessError(f"unknown work item {kind}")


REQUIRED_RELATIONS = (
    "linkage:element-uid-index",
    "linkage:group-road",
    "linkage:lane-group",
    "linkage:lane-road",
    "linkage:section-lane",
    "linkage:section-group",
    "linkage:section-road",
    "linkage:section-isForward",
    "linkage:lane-section-chain",
    "linkage:road-section-chain",
    "linkage:opposite-group",
    "linkage:laneToLeft-reciprocal",
    "linkage:laneToRight-reciprocal",
    "linkage:lane-adjacent-symmetric",
    "linkage:maneuver-startLane",
    "linkage:maneuver-end-is-connecting-successor",
    "linkage:maneuver-start-is-connecting-predecessor",
    "linkage:maneuver-start-successor",
    "linkage:incoming-successor-connecting",
    "linkage:outgoing-are-maneuver-ends",
    "linkage:intersection-road-backlink",
    "linkage:road-intersection",
    "linkage:connecting-lane-predecessor",
    "linkage:link-target-is-element",
    "geometry:laneToLeft-side",
    "geometry:laneToRight-side",
    "geometry:isForward-vs-road-direction",
    "lookup:elementAt-contains-probe",
    "lookup:roadAt-contains-probe",
    "lookup:laneAt-contains-probe",
    "lookup:intersectionAt-contains-probe",
    "lookup:elementAt-contains-probe-within-tolerance",
    "lookup:elementAt-priority-order",
    "lookup:laneSectionAt-contains-probe",
    "lookup:laneGroupAt-contains-probe",
    "lookup:findPointIn-first-of-given-order",
    "lookup:roadDirection-among-nominalDirections",
    "containment:LaneSection-inside-lane",
    "containment:Lane-inside-group",
    "containment:LaneGroup-inside-road",
    "containment:connecting-lane-inside-intersection",
    "coverage:drivable-point-found-by-lookups",
    "tangency:lane.orientation",
    "tangency:roadDirection",
    "tangency:nominalDirectionsAt-in-intersection",
    "cache:second-load-uses-cache",
    "cache:cached-equals-parsed-structure",
    "cache:cached-equals-parsed-lookups",
)


def plan(tier, maps):
    P = TIERS[tier]
    items = []
    if tier == "quick":
        sel = maps[: P["n_maps"]] + [m for m in QUICK_EXTRA if m in maps and m not in maps[: P["n_maps"]]]
        for rel in sel:
            items.append(("graph", rel, {}, None, tier, False, True))
    else:
        for k, opts in enumerate(option_combos(tier)):
            for rel in maps:
                items.append(("graph", rel, opts, None, tier, True if k == 0 else "light", k == 0 or rel in maps[:8]))
        for rel in maps[:N_VARIANT_MAPS]:
            for index, tag in variant_targets(MAPS / rel):
                items.append(("graph", rel, {}, {"index": index, "tag": tag}, tier, False, False))
    # biggest first (better packing of the pool)
    size = {rel: (MAPS / rel).stat().st_size for rel in maps}
    items.sort(key=lambda it: -size[it[1]])
    cache_items = [("cache", CACHE_MAP, [a, b], P["depth"]) for a in cm.ALPHABET for b in cm.ALPHABET]
    return items, cache_items


def run(ctx):
    maps, empty = list_maps()
    if len(maps) < 10:
        raise HarnessError(f"only {len(maps)} non-empty maps under {MAPS}")
    P = TIERS[ctx.tier]
    rundir = SCRATCH / f"run-{os.getpid()}-{uuid.uuid4().hex[:8]}"
    rundir.mkdir(parents=True)
    RUNDIR[0] = str(rundir)
    try:
        _run(ctx, maps, empty, P, rundir)
    finally:
        shutil.rmtree(rundir, ignore_errors=True)
        RUNDIR[0] = None


def _run(ctx, maps, empty, P, rundir):
    install_parse_counter()
    t0 = time.time()
    prepare_refs(CACHE_MAP, rundir)
    if SWEEP_MAP not in REFS:
        prepare_refs(SWEEP_MAP, rundir)
    t_refs = time.time() - t0
    graph_items, cache_items = plan(ctx.tier, maps)

    # size of the sweep: one valid cache of the sweep map
    from scenic.domains.driving.roads import Network

    d = rundir / "size"
    d.mkdir()
    (d / "m.xodr").write_bytes(REFS[SWEEP_MAP]["contents"][(0, 0)])
    with warnings.catch_warnings():
        warnings.simplefilter("ignore")
        Network.fromFile(str(d / "m.xodr"), **cm.OPTS["A"])
    size = (d / "m.snet").stat().st_size
    shutil.rmtree(d)
    # every header byte (judged) + payload bytes by the tier's stride (observed)
    positions = list(range(0, cm.HEADER)) + ctx.rotate(list(range(cm.HEADER, size + 64, P["sweep_stride"])))
    chunk = max(8, len(positions) // (3 * max(1, ctx.workers)))  # one fork (~1 s) per chunk
    sweep_items = [("sweep", SWEEP_MAP, positions[i : i + chunk]) for i in range(0, len(positions), chunk)]

    # workers are forked from here: freeze the heap so that their garbage collections do not
    # traverse (and thereby copy, page by page) everything inherited from this process
    gc.collect()
    gc.freeze()
    # interleave: graph items (big first), cache subtrees, sweep chunks
    items = ctx.rotate(graph_items) + ctx.rotate(cache_items) + sweep_items
    # big graph items first regardless of rotation (pool packing); rotation changes ties
    rel_total, cnt_total = collections.Counter(), collections.Counter()
    trans, tally, sweep_out = set(), collections.Counter(), collections.Counter()
    traces = 0
    per_map = {}
    unbuilt = collections.Counter()
    unbuilt_shipped = {}
    variants_built = variants_total = 0
    one_sided = {}
    worst_excess = worst_tan = 0.0
    samples = []
    nets = 0
    cache_secs = 0.0
    for r in ctx.pmap(work, items, chunksize=1):
        if r["kind"] == "graph":
            rel, opts, variant = r["item"]
            if variant is not None:
                variants_total += 1
                if not r["built"]:
                    unbuilt[f"{variant['tag']}:{r['unbuilt']}"] += 1
                else:
                    variants_built += 1
            elif not r["built"]:
                unbuilt_shipped.setdefault(rel, []).append({"options": opts, "exception": r["unbuilt"], "where": r.get("unbuilt_where")})
            if r["built"]:
                nets += 1
            rel_total.update(r["rel"])
            cnt_total.update(r["cnt"])
            for sig, desc, case in r["viol"]:
                ctx.violation(sig, desc, case)
            if variant is None:
                pm = per_map.setdefault(rel, dict(parse_s=[], total_s=[], elements=r["cnt"].get("elements", 0)))
                pm["parse_s"].append(round(r["parse_s"], 2))
                pm["total_s"].append(round(r["total_s"], 2))
                if r["stats"].get("one_sided_links"):
                    one_sided[rel] = r["stats"]["one_sided_links"][:6]
            worst_excess = max(worst_excess, float(r["stats"].get("max_child_vertex_excess", 0.0)) / max(1e-12, float(opts.get("tolerance", 0.05))))
            worst_tan = max(worst_tan, float(r["stats"].get("max_tangent_error", 0.0)))
            if len(samples) < 3 and r["built"] and variant is None:
                samples.append({"map": rel, "options": opts, "elements": r["cnt"].get("elements"), "probes": r["cnt"].get("probes"), "links_and_lookups_judged": sum(r["rel"].values())})
        elif r["kind"] == "cache":
            traces += r["traces"]
            trans |= r["trans"]
            tally.update(r["tally"])
            cache_secs += r["secs"]
            for sig, desc, case in r["viol"]:
                ctx.violation(sig, desc, case)
        else:
            sweep_out.update(r["outcomes"])
            for sig, desc, case in r["viol"]:
                ctx.violation(sig, desc, case)
    # the prefixes themselves (length 1) are validated while replaying the prefix of each item
    traces += len(cm.ALPHABET)
    states = {cm.INITIAL} | {t[0] for t in trans} | {t[2] for t in trans}
    model_states, model_trans = cm.reachable(P["depth"])

    # ---- vacuity guards ----
    # A vacuous run is a harness error (exit 2) -- unless the run found violations that are
    # not registered as known findings: then the violations are what must be reported (a
    # defect that removes a whole kind of link also empties its counter), and the vacuity
    # is recorded as a note.
    vac = []
    missing = [k for k in REQUIRED_RELATIONS if rel_total.get(k, 0) == 0]
    if missing:
        vac.append(f"no link/lookup judged for relation kinds {missing}")
    if cnt_total.get("elementAt_priority_discriminating", 0) == 0:
        vac.append("no probe within tolerance of two top-level element classes")
    used = sum(v for k, v in tally.items() if k.endswith(":cache-used"))
    ignored = sum(v for k, v in tally.items() if k.endswith(":parsed") and not k.startswith("load:bypass"))
    if used == 0 or ignored == 0:
        vac.append(f"cache exploration: cache used {used}x, ignored {ignored}x")
    for cls in ("absent", "valid", "stale-map", "stale-options", "stale-map+options", "hard-corrupt", "soft-corrupt", "bypass"):
        if not any(k.startswith(f"load:{cls}:") for k in tally):
            vac.append(f"cache exploration: no load with a {cls} cache")
    if not states <= model_states or not trans <= model_trans:
        vac.append("implementation-side exploration left the model's reachable graph")
    if ctx.tier == "thorough" and variants_built == 0:
        vac.append("no deletion variant built")
    if vac:
        from mc import runner

        known = runner.load_known()
        fresh = [v for v in ctx.violations if not runner.match_known(ID, v, known)]
        if not fresh:
            raise HarnessError("vacuous: " + "; ".join(vac))
        ctx.notes.append("VACUITY (reported as a note because unregistered violations were found): " + "; ".join(vac))
        ctx.cov["vacuity_warnings"] = vac

    evaluations = sum(rel_total.values()) + sum(v for k, v in tally.items() if k.startswith("load:")) + sum(sweep_out.values())
    ctx.cov.update(
        evaluations=evaluations,
        distinct_nontrivial=sum(1 for k, v in rel_total.items() if v > 0) + sum(1 for k in tally if k.startswith("load:")),
        rule="(A) every element and every link of every network built from the tier's (map, options[, single XML element deleted]) "
        "list is visited once per relation kind; lookups are asked at a deterministic probe lattice per element (centroids of up to k "
        "triangles of the constrained Delaunay triangulation, k interior centreline points, points tolerance/2 on both sides of up to k "
        "boundary edges of every top-level element, centroids of the drivable region's triangulation) and judged by an independent "
        "containment oracle (own STR-tree, exact distances); centreline-segment midpoints for tangency. (B) every operation sequence "
        "of length <= depth over the 17-letter alphabet of models/cache_c20.py is executed on a private copy of the map; every load is "
        "judged (network == fresh parse of the predicted (map version, options), parser-call count allowed by the model, cache file "
        "effects; a matching cache with a damaged gzip field is observed, not judged); plus a single-byte-increment sweep over the cache file (every header byte judged: must be ignored; payload bytes observed and counted only). distinct_nontrivial = relation kinds with >= 1 judged link "
        "+ distinct (cache class, outcome) pairs observed at loads",
        samples=samples + [{"cache_trace": ["loadA", "editG", "loadA"], "model": "absent -> valid((0,0),A) -> stale -> parser must run, network == fresh(g1, A)"}],
        states=len(states),
        transitions=len(trans),
        traces_validated_against_impl=traces,
        model_reachable_states=len(model_states),
        model_reachable_transitions=len(model_trans),
        networks_built=nets,
        elements_visited=cnt_total.get("elements", 0),
        probes=cnt_total.get("probes", 0),
        links_checked_per_relation=dict(sorted(rel_total.items())),
        skipped_touching=cnt_total.get("skipped_touching", 0),
        counters={k: v for k, v in sorted(cnt_total.items()) if k not in ("elements", "probes", "skipped_touching")},
        cache_load_outcomes=dict(sorted(tally.items())),
        corruption_sweep={"cache_bytes": size, "positions": len(positions), "stride": P["sweep_stride"], "outcomes": dict(sorted(sweep_out.items()))},
        variants={"total": variants_total, "built_and_judged": variants_built, "not_built_by_deleted_tag_and_exception": dict(unbuilt)},
        unbuilt={
            "not_judged": sum(len(v) for v in unbuilt_shipped.values()),
            "by_map_and_exception": {rel: dict(collections.Counter(f"{u['exception']} at {u['where']}" for u in v)) for rel, v in sorted(unbuilt_shipped.items())},
            "option_sets": {rel: [u["options"] for u in v] for rel, v in sorted(unbuilt_shipped.items())},
        },
        maps=sorted(per_map),
        empty_maps_skipped=empty,
        per_map_seconds=per_map,
        one_sided_road_to_road_links_reported_not_judged=one_sided,
        worst_child_vertex_excess_over_tolerance=round(worst_excess, 4),
        worst_tangent_error_rad=worst_tan,
        bounds={"tier": ctx.tier, **P, "option_combos": len(option_combos(ctx.tier)), "cache_map": CACHE_MAP, "sweep_map": SWEEP_MAP, "alphabet": list(cm.ALPHABET)},
        seconds={"references": round(t_refs, 1), "cache_exploration_cpu": round(cache_secs, 1)},
    )
    ctx.assumptions += [
        "Scenic's within-tolerance test uses point.buffer(tolerance), a 64-gon inscribed in the disc: probes whose distance to a candidate lies in (cos(pi/64), 1] x tolerance are skipped as touching",
        "road-to-road lane links declared on one side only in the map are reported (one_sided_road_to_road_links) but not judged: no docstring promises that the parser completes them; links Scenic derives itself (junction connections, ownership, adjacency) are judged strictly",
        "elementAt: any containing top-level element is accepted in the exact pass; the documented priority Intersection>Road>Shoulder>Sidewalk is demanded in the tolerance pass",
        "the OpenDRIVE parser is deterministic within one process (checked: two fresh parses of the cache map are identical)",
        f"empty map files skipped: {empty}",
        "a network that fails to build (shipped map with an option set, or deletion variant) is not judged; counted in coverage.unbuilt / coverage.variants",
        "damage of the payload of a cache whose header matches is outside the property: outcomes (re-parsed / used and equivalent / used and different / process hung or died) are counted in coverage.corruption_sweep, not reported",
    ]
    if one_sided:
        ctx.notes.append(f"one-sided road-to-road lane links (reported, not judged): {one_sided}")
    if unbuilt_shipped:
        ctx.notes.append("not built, not judged (map: exception x option sets): " + "; ".join(f"{rel}: {dict(collections.Counter(u['exception'] for u in v))}" for rel, v in sorted(unbuilt_shipped.items())))
    ctx.notes.append(f"cache load outcomes: {dict(sorted(tally.items()))}")
    ctx.notes.append(f"corruption sweep outcomes (header: judged; payload: observed only): {dict(sorted(sweep_out.items()))}")


def replay(ctx, case):
    rundir = SCRATCH / f"replay-{os.getpid()}-{uuid.uuid4().hex[:8]}"
    rundir.mkdir(parents=True)
    RUNDIR[0] = str(rundir)
    try:
        install_parse_counter()
        want = case.get("signature")
        if case["part"] == "graph":
            v = case.get("variant")
            r = graph_item_rt((case["map"], case["opts"], v, case["tier"], case.get("dense", False), case.get("rt", False)))
            for sig, desc, c in r["viol"]:
                if want is None or sig == want:
                    ctx.violation(sig, desc, c)
                    break
        elif case["part"] == "cache":
            prepare_refs(case["map"], rundir)
            rig = Rig(case["map"], rundir)
            try:
                trace = []
                for op in case["trace"]:
                    trace = trace + [op]
                    rig.do(op, trace)
            finally:
                rig.close()
            for sig, desc, c in rig.viol:
                if want is None or sig == want:
                    ctx.violation(sig, desc, c)
                    break
        elif case["part"] == "sweep":
            import base64

            prepare_refs(case["map"], rundir)
            d = rundir / "sweep"
            d.mkdir()
            (d / "m.xodr").write_bytes(REFS[case["map"]]["contents"][(0, 0)])
            data = base64.b64decode(case["cache_b64"])
            zone = "header" if case["pos"] < cm.HEADER else "payload"
            from scenic.domains.driving.roads import Network

            with warnings.catch_warnings():
                warnings.simplefilter("ignore")
                Network.fromFile(str(d / "m.xodr"), **cm.OPTS["A"])
            good = (d / "m.snet").read_bytes()
            ((how, res),) = isolated_each(
                judge_damaged_cache,
                [(case["map"], d / "m.xodr", d / "m.snet", data, case["pos"])],
                deadline_s=LOAD_DEADLINE_S,
                warmup=lambda: _warm(case["map"], d / "m.xodr", d / "m.snet", good),
            )
            if how == "ok":
                if res[1] is not None:
                    ctx.violation(*res[1])
            else:
                if zone == "header":
                    ctx.violation("cache:damaged-header-kills-load", f"damaged cache of {case['map']} (byte {case['pos']}): loading process {how} ({res})", case)
        else:
            raise HarnessError(f"unknown case {case}")
    finally:
        shutil.rmtree(rundir, ignore_errors=True)
        RUNDIR[0] = None
