"""C02 — every generated scene satisfies all of its requirements.

Programs whose objects draw shape / size / position / yaw / collision flags from small
discrete alphabets are generated (bounded family); for each program EVERY outcome of the
random number generator (RngSeam, exact) x EVERY ordering of requirement checks the
time-weighted checker can choose (ClockSeam: scripted durations, deviation bounded) x
checker histories (generate h scenes in a row on one Scenario) is executed, and every scene
that is ACCEPTED is re-verified independently:
  * no two objects overlap unless one allows collisions (models/solid.py on the raw meshes),
  * every object lies inside its container / the workspace,
  * every object required (in)visible from an observer is so in the clear-cut cases
    (fully in the shadow of an occluder / in the open; models/view_c17.py sight lines),
  * every hard user requirement holds; soft ones when they were selected for that sample.
Differential oracle: the set of accepted scenes is the same for every ordering.
"""

import itertools
import math

import numpy as np

from mc import explorer, seams
from mc.explorer import HarnessError, OutOfFragment
from models import solid, view_c17

ID = "C02"
LEVEL = "model_checking"

TOUCH = 1e-4

# ---------------------------------------------------------------------------------------------
# program family
# ---------------------------------------------------------------------------------------------

SHAPES = {"box": "BoxShape()", "cyl": "CylinderShape()", "sph": "SpheroidShape()"}


def collision_programs(tier):
    """2-3 objects on a position lattice; containers; collision flags."""
    progs = []
    lattice = "Uniform((0, 0, 0), (0.8, 0, 0), (1.6, 0.3, 0), (0, 2.2, 0))"
    for shape_b, yaw_b, allow in itertools.product(("box", "cyl", "sph"), ("0", "Uniform(0, 45 deg)"), ("False", "Uniform(True, False)")):
        text = (
            "ego = new Object at (0, 0, 0), with shape BoxShape(), with width 1, with length 1, with height 1\n"
            f"b = new Object at {lattice}, with shape {SHAPES[shape_b]}, with width Uniform(0.4, 1.2), with length 0.6, with height 0.8, facing {yaw_b}, with allowCollisions {allow}\n"
        )
        progs.append(("collide2:" + shape_b + ":" + yaw_b[:3] + ":" + allow[:3], text, {}))
    # three objects, one allowing collisions
    progs.append(
        (
            "collide3",
            "ego = new Object at (0, 0, 0), with width 1, with length 1, with height 1\n"
            "b = new Object at Uniform((0.9, 0, 0), (1.5, 0, 0), (3, 0, 0)), with width 1, with length 1, with height 1\n"
            "c = new Object at Uniform((1.4, 0.2, 0), (3, 0.5, 0), (5, 0, 0)), with width Uniform(0.5, 1), with length 1, with height 1, with allowCollisions Uniform(True, False)\n",
            {},
        )
    )
    # fixed overlapping poses, only the collision flags are random: whether the pair may overlap
    # must be decided afresh for every sample (history of earlier samples explored completely)
    for pos, dims in (("(0.5, 0, 0)", "1"), ("(0, 0, 0)", "0.4")):
        progs.append(
            (
                f"collide:fixed-overlap-random-flags:{dims}",
                "ego = new Object at (0, 0, 0), with width 1, with length 1, with height 1, with allowCollisions Uniform(False, True)\n"
                f"b = new Object at {pos}, with width {dims}, with length {dims}, with height {dims}, with allowCollisions Uniform(False, True)\n",
                {"explore_history": True},
            )
        )
    # a convex object wholly inside the solid material of a non-convex mesh object (no surface contact)
    progs.append(
        (
            "collide:inside-nonconvex",
            "import trimesh, shapely.geometry\n"
            "lmesh = trimesh.creation.extrude_polygon(shapely.geometry.Polygon([(-3, -3), (3, -3), (3, 0), (0, 0), (0, 3), (-3, 3)]), 2)\n"
            "ego = new Object at (0, 0, 0), with shape MeshShape(lmesh), with width 6, with length 6, with height 2, facing Uniform(0, 90 deg)\n"
            "b = new Object at Uniform((-1.5, -1.5, 0), (1.5, 1.5, 0), (-1.5, 1.5, 0), (1.6, -1.4, 0), (6, 6, 0)), with width 0.5, with length 0.5, with height 0.5, with allowCollisions Uniform(False, True)\n",
            {},
        )
    )
    # containers: workspace box, regionContainedIn, polygon with hole
    progs.append(
        (
            "contain:workspace-box",
            "workspace = Workspace(BoxRegion(dimensions=(4, 4, 2), position=(0, 0, 0)))\n"
            "ego = new Object at Uniform((0, 0, 0), (1.4, 0, 0), (1.7, 0, 0), (2.6, 0, 0)), with width Uniform(0.5, 1.2), with length 0.5, with height Uniform(1, 2.4), facing Uniform(0, 45 deg)\n",
            {"container": ("box", (4, 4, 2), (0, 0, 0))},
        )
    )
    progs.append(
        (
            "contain:regionContainedIn",
            "workspace = Workspace(BoxRegion(dimensions=(10, 10, 4), position=(0, 0, 0)))\n"
            "r = BoxRegion(dimensions=(2, 2, 2), position=(1, 0, 0))\n"
            "big = BoxRegion(dimensions=(10, 10, 4), position=(0, 0, 0))\n"
            "ego = new Object at Uniform((1, 0, 0), (1.8, 0, 0), (3.5, 0, 0), (0.2, 0.2, 0)), with width 0.6, with length 0.6, with height 0.6, with regionContainedIn Uniform(r, big)\n",
            {"container_prop": True},
        )
    )
    progs.append(
        (
            "contain:polygon-hole",
            "import shapely.geometry\n"
            "poly = shapely.geometry.Polygon([(-3, -3), (3, -3), (3, 3), (-3, 3)], holes=[[(-1, -1), (1, -1), (1, 1), (-1, 1)]])\n"
            "workspace = Workspace(PolygonalRegion(polygon=poly))\n"
            "ego = new Object at Uniform((2, 2, 0), (0, 0, 0), (1.2, 0, 0), (2, 0, 0), (2.9, 0, 0), (0, -2, 0)), with width Uniform(0.4, 1.2), with length 0.4, with height 1, facing Uniform(0, 30 deg)\n",
            {"container": ("polyhole", [(-3, -3), (3, -3), (3, 3), (-3, 3)], [(-1, -1), (1, -1), (1, 1), (-1, 1)])},
        )
    )
    return progs


def user_programs(tier):
    progs = []
    base = "x = Uniform(1, 2, 3)\ny = DiscreteRange(0, 2)\nego = new Object at (x, y, 0), with allowCollisions True\nparam px = x\nparam py = y\n"
    reqsets = [
        [("hard", "x != 2"), ("hard", "x + y < 5")],
        [("hard", "y > 0"), ("soft0.5", "x == 1")],
        [("soft0.5", "x < 3"), ("soft0.25", "y != 1"), ("hard", "x + y != 3")],
    ]
    for i, rs in enumerate(reqsets):
        text = base
        for kind, cond in rs:
            text += ("require " if kind == "hard" else f"require[{kind[4:]}] ") + cond + "\n"
        progs.append((f"user{i}", text, {"user": rs}))
    return progs


def visibility_programs(tier):
    """viewer at origin looking +Y; a wall at y=10; targets either in the open or fully behind the wall.

    Variants: default visibleDistance (50: the whole wall is in range); visibleDistance 20 (the
    wall, half-diagonal 14.1 at distance 10, sticks out of the view sphere); visibleDistance 20
    with a long wall whose centre is out of range (distance 20.6) while its near part is not.
    In every variant the part of the wall crossing the sight lines is well within range and
    all targets are within range, so the verdicts are the same."""
    progs = []
    open_pos, hidden_pos = "(10, -10, 0)", "(0, 15, 0)"
    variants = [
        ("", "", "(0, 10, 0)", 20),
        (":vd20", ", with visibleDistance 20", "(0, 10, 0)", 20),
        (":vd20-offcentre", ", with visibleDistance 20", "(18, 10, 0)", 56),
    ]
    for vname, vd, wpos, wwidth in variants:
        wall = f"wall = new Object at {wpos}, with width {wwidth}, with length 0.5, with height 20\n"
        head = f"viewer = new OrientedPoint at (0, 0, 0){vd}\nego = new Object at (0, -30, 0), with requireVisible False\n" + wall
        for kx, ky, order in itertools.product(("visible", "not visible"), ("visible", "not visible"), ("xy", "yx")):
            if vname and tier == "quick" and order == "yx" and kx != ky:
                continue
            lx = f"x = new Object at Uniform({open_pos}, (-10, -10, 0)), {kx} from viewer, with requireVisible False\n"
            ly = f"y = new Object at Uniform({hidden_pos}, (12, -12, 0)), {ky} from viewer, with requireVisible False\n"
            text = head + (lx + ly if order == "xy" else ly + lx)
            progs.append((f"vis:{kx[:3]}:{ky[:3]}:{order}{vname}", text, {"vis": {"x": kx, "y": ky}, "viewer": (0, 0, 0), "wall_width": wwidth}))
        # requireVisible from the ego
        text = (
            f"ego = new Object at (0, 0, 0), with width 0.5, with length 0.5, with height 0.5{vd}\n"
            f"wall = new Object at {wpos}, with width {wwidth}, with length 0.5, with height 20, with requireVisible False\n"
            "t = new Object at Uniform((0, 15, 0), (8, 4, 0), (0, -8, 0)), with requireVisible Uniform(True, False)\n"
        )
        progs.append((f"vis:requireVisible{vname}", text, {"vis": {"t": "requireVisible"}, "viewer": (0, 0, 0), "wall_width": wwidth}))
    return progs


def all_programs(tier):
    return collision_programs(tier) + user_programs(tier) + visibility_programs(tier)


# ---------------------------------------------------------------------------------------------
# independent re-verification of an accepted scene
# ---------------------------------------------------------------------------------------------


def solid_of(obj):
    m = obj.occupiedSpace.mesh
    return solid.Solid(np.asarray(m.vertices, float), np.asarray(m.faces, np.int64))


def container_terms(meta, scene, obj):
    c = meta.get("container")
    if meta.get("container_prop"):
        r = obj.regionContainedIn
        if max(r.mesh.extents) > 5:
            c = ("box", (10, 10, 4), (0, 0, 0))
        else:
            c = ("box", (2, 2, 2), (1, 0, 0))
    if c is None:
        return None
    if c[0] == "box":
        d, p = c[1], c[2]
        lo = [p[i] - d[i] / 2 for i in range(3)]
        hi = [p[i] + d[i] / 2 for i in range(3)]
        V, F = solid.box_mesh(lo, hi)
        return [(solid.Solid(V, F), +1)]
    if c[0] == "polyhole":
        V, F = solid.prism_mesh(c[1], -50, 50)
        Vh, Fh = solid.prism_mesh(c[2], -60, 60)
        return [(solid.Solid(V, F), +1), (solid.Solid(Vh, Fh), -1)]
    raise ValueError(c)


def verify_scene(scene, meta, active):
    """Returns (list of (signature, text), skipped_touching)."""
    bad = []
    skipped = 0
    objs = list(scene.objects)
    names = {}
    solids = [solid_of(o) for o in objs]
    # collisions
    for i, j in itertools.combinations(range(len(objs)), 2):
        a, b = objs[i], objs[j]
        if a.allowCollisions or b.allowCollisions:
            continue
        rel = solid.relate(solids[i], solids[j], tol=TOUCH, need_containment=False)
        if rel.overlap is None:
            skipped += 1
        elif rel.overlap:
            bad.append(("accepted-overlap", f"objects {i} and {j} overlap (depth {-rel.margin:.4f}) and neither allows collisions: {a.position} / {b.position}"))
    # containment
    for i, o in enumerate(objs):
        terms = container_terms(meta, scene, o)
        if terms is None:
            continue
        v, m, detail = solid.contained_in_terms(solids[i], terms, tol=TOUCH)
        if v is None:
            skipped += 1
        elif v is False:
            bad.append(("accepted-not-contained", f"object {i} at {o.position} (w={o.width}, h={o.height}, yaw={o.yaw}) sticks out of its container by {m:.4f}"))
    # visibility (clear-cut cases only)
    vis = meta.get("vis")
    if vis:
        origin = np.array(meta["viewer"], float)
        byname = {}
        wall = None
        for o in objs:
            if abs(o.width - meta.get("wall_width", 20)) < 1e-9:
                wall = o
        wv = np.asarray(wall.occupiedSpace.mesh.vertices, float)
        wf = np.asarray(wall.occupiedSpace.mesh.faces, np.int64)
        targets = [o for o in objs if o is not wall and not (abs(o.position.y + 30) < 1e-9) and tuple(o.position) != (0.0, 0.0, 0.0)]
        specs = list(vis.items())
        for o in targets:
            pts = view_c17.inflate(np.asarray(o.occupiedSpace.mesh.vertices, float), np.asarray(o.position, float), 1.3)
            hidden = view_c17.in_shadow_of(origin, pts, wv, wf)
            clear = all(view_c17.sightline(origin, p, [(wv, wf)]) == view_c17.CLEAR for p in pts)
            # which spec applies to this object: identify by position alphabet
            for name, kind in specs:
                if name == "x" and o.position.y != -10:
                    continue
                if name == "y" and o.position.y not in (15, -12):
                    continue
                if kind == "visible" and hidden:
                    bad.append(("accepted-invisible-object", f"object at {o.position} must be visible from the viewer but lies wholly in the shadow of the wall"))
                if kind == "not visible" and clear and not hidden:
                    bad.append(("accepted-visible-object", f"object at {o.position} must NOT be visible from the viewer but is in the open"))
                if kind == "requireVisible" and o.requireVisible and hidden:
                    bad.append(("accepted-invisible-object", f"object at {o.position} has requireVisible but lies wholly in the shadow of the wall"))
    # user requirements
    for k, (kind, cond) in enumerate(meta.get("user", ())):
        if kind != "hard" and not active[k]:
            continue
        x, y = scene.params["px"], scene.params["py"]
        if not eval(cond, {"x": x, "y": y}):  # reference evaluation in plain Python
            bad.append(("accepted-violating-user-requirement", f"{'hard' if kind == 'hard' else 'selected soft'} requirement `{cond}` is false for x={x}, y={y}"))
    return bad, skipped


def scene_key(scene):
    return tuple((tuple(round(c, 9) for c in o.position), round(float(o.width), 9), round(float(o.yaw), 9), bool(o.allowCollisions), bool(o.requireVisible)) for o in scene.objects)


# ---------------------------------------------------------------------------------------------


def check_program(item):
    name, text, meta, tier = item
    import scenic
    from scenic.core.distributions import RejectionException
    from scenic.core.sample_checking import WeightedAcceptanceChecker

    out = {"name": name, "execs": 0, "accepted": 0, "rejected": 0, "orders": set(), "violations": [], "skipped": 0, "states": set()}
    try:
        scenario = scenic.scenarioFromString(text)
    except Exception as e:  # noqa: BLE001
        # a program whose every scene violates a built-in requirement may be refused at compile time
        out["compile_error"] = f"{type(e).__name__}: {e}"
        return _pack(out)
    history = 2 if tier == "quick" else 3
    accepted_by_order = {}

    def once():
        import random as _random

        import numpy as _np

        scenario.setSampleChecker(WeightedAcceptanceChecker(bufferSize=100))
        clock = seams.ScriptedClock(alphabet=(1.0, 16.0))
        results = []
        with seams.clock_seam(clock):
            # history: earlier scenes put the checker's statistics in various states (their
            # check orderings are explored too); their random draws use fixed seeds
            for h in range(history - 1):
                _random.seed(h)
                _np.random.seed(h)
                try:
                    if meta.get("explore_history"):
                        with seams.rng_seam():
                            scene, its = scenario._generateInner(1, 0, None)
                    else:
                        scene, its = scenario._generateInner(4, 0, None)
                    results.append((scene, [r.active for r in scenario.userRequirements]))
                except RejectionException:
                    results.append(None)
            # the scene under test: every outcome of the random number generator
            with seams.rng_seam():
                try:
                    scene, its = scenario._generateInner(1, 0, None)
                    results.append((scene, [r.active for r in scenario.userRequirements]))
                except RejectionException:
                    results.append(None)
        return results, tuple(clock.durations)

    try:
        if True:
            for ex, (results, durs), st in explorer.explore(once, max_executions=20000 if tier == "quick" else 200000, bound=1 if tier == "quick" else 2, bound_tags={"clock"}):
                out["execs"] += 1
                out["orders"].add(durs)
                for r in results:
                    if r is None:
                        out["rejected"] += 1
                        continue
                    scene, active = r
                    out["accepted"] += 1
                    key = scene_key(scene)
                    out["states"].add(key)
                    bad, skipped = verify_scene(scene, meta, active)
                    out["skipped"] += skipped
                    for sig, why in bad:
                        out["violations"].append((sig, f"program {name}: accepted scene violates a requirement: {why}\nchoices={ex.choices}\n{text}", {"name": name, "choices": list(ex.choices), "tier": tier}))
                    if len(out["violations"]) > 4:
                        return _pack(out)
            if st.capped:
                out["capped"] = True
    except OutOfFragment as e:
        out["compile_error"] = f"OutOfFragment: {e}"
    return _pack(out)


def _pack(out):
    out["orders"] = len(out["orders"])
    out["states"] = len(out["states"])
    return out


def run(ctx):
    seams.rng_selftest()
    items = ctx.rotate([(n, t, m, ctx.tier) for n, t, m in all_programs(ctx.tier)])
    tot = {"execs": 0, "accepted": 0, "rejected": 0, "orders": 0, "skipped": 0, "states": 0}
    refused = []
    for r in ctx.pmap(check_program, items, chunksize=1):
        for k in tot:
            tot[k] += r[k]
        if r.get("capped"):
            ctx.capped = True
        if "compile_error" in r:
            refused.append((r["name"], r["compile_error"]))
        for sig, desc, case in r["violations"]:
            ctx.violation(sig, desc, case)
    if tot["accepted"] == 0 or tot["rejected"] == 0 or tot["orders"] < 10:
        raise HarnessError(f"vacuous: {tot}")
    ctx.cov.update(
        states=tot["states"],
        transitions=tot["execs"],
        traces_validated_against_impl=tot["accepted"],
        evaluations=tot["execs"],
        programs=len(items),
        distinct_nontrivial=tot["states"],
        rule="bounded program family (collision / containment / visibility / user requirements over discrete alphabets) x every RNG outcome x "
        "every scripted duration vector with <=1 (thorough 2) slow evaluations (2-value alphabet) of the time-weighted checker x 2-3 scenes generated in a row on one Scenario; every "
        "accepted scene is re-verified with models/solid.py / view_c17.py; states = distinct accepted scenes, transitions = executions",
        samples=[{"program": items[0][0], "text": items[0][1]}, {"program": items[-1][0], "text": items[-1][1]}],
        collisions={"accepted_scenes_verified": tot["accepted"], "rejected_attempts": tot["rejected"], "distinct_duration_vectors": tot["orders"]},
        skipped_touching=tot["skipped"],
        refused_at_compile_time=refused,
        bounds={"history": 2 if ctx.tier == "quick" else 3, "clock_alphabet": [1.0, 16.0]},
    )
    ctx.assumptions.append("visibility is judged only in clear-cut cases (target wholly in the shadow of the wall, or every sight line to its inflated hull clear)")


def replay(ctx, case):
    progs = {n: (t, m) for n, t, m in all_programs(case["tier"])}
    text, meta = progs[case["name"]]
    r = check_program((case["name"], text, meta, case["tier"]))
    for sig, desc, c in r["violations"]:
        ctx.violation(sig, desc, c)
