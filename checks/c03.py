"""C03 -- positions drawn in/on a region lie in it and are uniformly distributed.

Technique: bounded-exhaustive exploration of every random input of `Region.uniformPointInner`
(no sampling, no statistics).

(A) discrete regions (PointSetRegion, GridRegion, their intersections / unions / differences):
    every outcome of the RNG is explored exactly under `seams.rng_seam()`; the resulting law
    (exact Fractions) must be uniform over the member points of the composed set computed by
    the oracle, conditional on acceptance of ONE attempt (a RejectionException ends the
    attempt: the retry loop of the caller repeats i.i.d. attempts, so the law conditional on
    acceptance is the law of the sampler).

(B) continuous regions: the sampler is driven through the complete N^k midpoint lattice of its
    k continuous random inputs (`seams.rng_seam(mode="lattice")` plus the overrides below:
    `random.choices` / `randrange` / trimesh's face pick are explored exactly with their exact
    weights, `random.random()` compared with a constant is split exactly (union multiplicity
    coin), numpy draws of trimesh / VoxelRegion are answered by the same lattice), one attempt
    per execution (draw budget; retry loops are cut and counted as rejection).
    Oracle (models/measure_c03.py), all deterministic:
    (a) membership of every produced point in all three coordinates by the analytic predicate of
        the composed set (points within tolerance of a boundary are skipped and counted) and, on a
        regular sub-lattice, by the region's own containsPoint;
    (b) support: every cell of a fine grid that certainly contains a piece of the region is met
        by the image of some lattice box (`_support`);
    (c) uniformity, interval test (`_judge`): rigorous lower / upper bounds of the probability of
        every cell (and of every atom "in A only / in B only / in both" of a composition) from the
        lattice against lower / upper bounds of its share of the measure from the quadrature;
    (d) uniformity, density test (`_density`): the mass of every uncut lattice box divided by the
        volume of its image (finite-difference Jacobian), summed over the boxes of all branches
        covering the same place, is one constant equal to P(accept) / measure, within 5 %.
    History family (`history_cases`): compositions are also built from operand objects that are
    not in their initial state.  A PolygonalFootprintRegion caches the bounded prism of its last
    mesh operation; the same footprint object first serves every sequence of <= 2 (quick <= 1)
    mesh operations with the partner low / high / straddling top / straddling bottom / far
    relative to the cached prism, then mesh & footprint / mesh - footprint is built from it with
    the mesh at each of these heights (and straddling the prism the last partner would cache) and
    judged as usual; the harness counts cache reuse / replacement (both must occur).  A few other
    stateful operands (sliced / queried meshes, polygons with cached triangulation and footprint,
    voxel k-d tree) get the same treatment.
    A retry loop inside one primitive sampler (polygon triangle rejection) keeps its discrete
    branch: such branches are renormalised per branch (`analyse`), while a RejectionException
    restarts the whole sample and conditions globally.
"""

from __future__ import annotations

import contextlib
import itertools
import math
import random
import sys
import time
import warnings
from fractions import Fraction

import numpy as np

from mc import explorer, seams
from mc.explorer import HarnessError, OutOfFragment
from models import measure_c03 as M
from models import solid

ID = "C03"
LEVEL = "exploration"

DEG = math.pi / 180


# =========================================================================================
# seam: exact discrete choices + lattice for continuous draws + one-attempt budget
# =========================================================================================
class _Cut(BaseException):
    """The sampler asked for more randomness than one attempt needs.  `retry` is True when
    the request comes from the same `uniformPointInner` invocation that consumed the last
    lattice draw (a retry loop inside one primitive sampler: the discrete branch is kept and
    only the continuous inputs are drawn again), False when another sampler is being tried."""

    def __init__(self, retry):
        self.retry = retry


class _St:
    N = 8
    budget = 3
    post = 0  # discrete (non-coin) choices allowed after the last lattice draw
    draws = []  # (value, low, high) of each lattice draw of the current execution
    post_used = 0
    contains_retries = 0
    frame = None  # the uniformPointInner frame that consumed the last lattice draw


def _sampler_frame():
    f = sys._getframe(2)
    while f is not None and f.f_code.co_name != "uniformPointInner":
        f = f.f_back
    return f


def _reset():
    _St.draws, _St.post_used, _St.frame = [], 0, None


def _lat():
    f = _sampler_frame()
    if len(_St.draws) >= _St.budget:
        raise _Cut(f is not None and f is _St.frame)
    _St.frame = f
    return explorer.choose(_St.N, tag="L")


def _disc(n, weights=None, tag="sel"):
    if len(_St.draws) >= _St.budget:
        if _St.post_used >= _St.post:
            f = _sampler_frame()
            raise _Cut(f is not None and f is _St.frame)
        _St.post_used += 1
    if n == 1:
        return 0
    return explorer.choose(n, weights=weights, tag=tag)


def _u(i, d=0):
    return (2 * i + 1 + d) / (2 * _St.N)


def s_uniform(a, b):
    i = _lat()
    v = a + (b - a) * _u(i)
    lo, hi = a + (b - a) * _u(i, -1), a + (b - a) * _u(i, 1)
    _St.draws.append((v, min(lo, hi), max(lo, hi)))
    return v


def _tri(u, low, high, mode):
    # CPython's random.triangular
    try:
        c = 0.5 if mode is None else (mode - low) / (high - low)
    except ZeroDivisionError:
        return low
    if u > c:
        u = 1.0 - u
        c = 1.0 - c
        low, high = high, low
    return low + (high - low) * math.sqrt(u * c)


def s_triangular(low=0.0, high=1.0, mode=None):
    i = _lat()
    v = _tri(_u(i), low, high, mode)
    a, b = _tri(_u(i, -1), low, high, mode), _tri(_u(i, 1), low, high, mode)
    _St.draws.append((v, min(a, b), max(a, b)))
    return v


class Lazy(float):
    """An undetermined U[0,1) draw.  Compared with a constant it is split exactly (two
    alternatives with their exact probabilities); used in arithmetic it becomes one lattice
    draw.  The float payload is NaN so that an unnoticed escape poisons the result."""

    def __new__(cls):
        self = float.__new__(cls, float("nan"))
        self.lo, self.hi, self.val = Fraction(0), Fraction(1), None
        return self

    def _below(self, t):
        if self.val is not None:
            return self.val < t
        if isinstance(t, Lazy):
            raise OutOfFragment("two lazy draws compared")
        t = Fraction(t)
        if t <= self.lo:
            return False
        if t >= self.hi:
            return True
        w = (t - self.lo) / (self.hi - self.lo)
        c = explorer.choose(2, weights=(w, 1 - w), tag="coin")
        if c == 0:
            self.hi = t
            return True
        self.lo = t
        return False

    def __lt__(self, o):
        return self._below(o)

    __le__ = __lt__

    def __gt__(self, o):
        return not self._below(o)

    __ge__ = __gt__

    def __eq__(self, o):
        return False

    def __ne__(self, o):
        return True

    __hash__ = None

    def _r(self):
        if self.val is None:
            i = _lat()
            lo, hi = float(self.lo), float(self.hi)
            self.val = lo + (hi - lo) * _u(i)
            _St.draws.append((self.val, lo + (hi - lo) * _u(i, -1), lo + (hi - lo) * _u(i, 1)))
        return self.val

    def __float__(self):
        return self._r()

    def __add__(self, o):
        return self._r() + o

    def __radd__(self, o):
        return o + self._r()

    def __sub__(self, o):
        return self._r() - o

    def __rsub__(self, o):
        return o - self._r()

    def __mul__(self, o):
        return self._r() * o

    def __rmul__(self, o):
        return o * self._r()

    def __truediv__(self, o):
        return self._r() / o

    def __rtruediv__(self, o):
        return o / self._r()

    def __neg__(self):
        return -self._r()

    def __pow__(self, o):
        return self._r() ** o

    def __abs__(self):
        return abs(self._r())


def s_random():
    return Lazy()


_WCACHE = {}


def _exact_weights(cum):
    key = tuple(cum)
    w = _WCACHE.get(key)
    if w is None:
        fr = [Fraction(float(c)) for c in key]
        tot = fr[-1]
        w = tuple((fr[i] - (fr[i - 1] if i else 0)) / tot for i in range(len(fr)))
        if len(_WCACHE) > 2000:
            _WCACHE.clear()
        _WCACHE[key] = w
    return w


def s_choices(population, weights=None, *, cum_weights=None, k=1):
    if k != 1:
        raise OutOfFragment("choices with k != 1")
    n = len(population)
    if cum_weights is None:
        if weights is None:
            return [population[_disc(n)]]
        cum_weights = list(itertools.accumulate(weights))
    if len(cum_weights) != n:
        raise ValueError("The number of weights does not match the population")
    return [population[_disc(n, weights=_exact_weights(cum_weights))]]


def s_randrange(start, stop=None, step=1):
    if step != 1:
        raise OutOfFragment("randrange step")
    if stop is None:
        start, stop = 0, start
    if stop <= start:
        raise ValueError("empty range for randrange()")
    return start + _disc(stop - start)


def s_randint(a, b):
    return s_randrange(a, b + 1)


def s_choice(seq):
    if not len(seq):
        raise IndexError("Cannot choose from an empty sequence")
    return seq[_disc(len(seq))]


def _np_random(size=None, *more):
    """Stand-in for numpy.random.random / random_sample / rand."""
    fr = sys._getframe(1)
    name = fr.f_code.co_name
    if name == "contains_points":
        # trimesh retries broken containment rays in a "random" direction: fixed here
        _St.contains_retries += 1
        return np.array([0.93, 0.71, 0.84])
    if name == "sample_surface":
        loc = fr.f_locals
        if "weight_cum" in loc and "face_index" not in loc:
            # face pick of trimesh.sample.sample_surface: explored exactly
            cum = loc["weight_cum"]
            if size != 1:
                raise HarnessError("sample_surface batch")
            w = _exact_weights(cum)
            i = _disc(len(cum), weights=w, tag="face")
            lo = float(cum[i - 1]) if i else 0.0
            return np.array([(lo + float(cum[i])) / 2 / float(cum[-1])])
    if more:
        size = (size,) + tuple(more)
    if size is None:
        shape = ()
    elif isinstance(size, (int, np.integer)):
        shape = (int(size),)
    else:
        shape = tuple(int(s) for s in size)
    if name == "volume_mesh" and len(shape) == 2:
        shape = (1, shape[1])  # one candidate per attempt
    n = int(np.prod(shape)) if shape else 1
    if n > 6:
        raise HarnessError(f"unexpected numpy batch {shape} from {name}")
    vals = []
    for _ in range(n):
        i = _lat()
        v = _u(i)
        _St.draws.append((v, _u(i, -1), _u(i, 1)))
        vals.append(v)
    return np.array(vals).reshape(shape) if shape else vals[0]


@contextlib.contextmanager
def hybrid_seam(N, budget, post=0):
    import numpy.random as npr

    _St.N, _St.budget, _St.post = N, budget, post
    with seams.rng_seam(mode="lattice", lattice_n=N):
        mine = dict(
            random=s_random,
            uniform=s_uniform,
            triangular=s_triangular,
            choices=s_choices,
            randrange=s_randrange,
            randint=s_randint,
            choice=s_choice,
        )
        saved = {k: getattr(random, k) for k in mine}
        np_names = [n for n in ("random", "random_sample", "rand", "ranf", "sample") if hasattr(npr, n)]
        saved_np = {k: getattr(npr, k) for k in np_names}
        try:
            for k, f in mine.items():
                setattr(random, k, f)
            for k in np_names:
                setattr(npr, k, _np_random)
            yield
        finally:
            for k, f in saved.items():
                setattr(random, k, f)
            for k, f in saved_np.items():
                setattr(npr, k, f)


def seam_selftest():
    """The seam answers CPython / trimesh the way the real generators are used."""
    import trimesh

    def prog():
        _reset()
        a = random.choices("abc", weights=[1, 2, 1])[0]
        b = random.random() < 0.25
        c = random.uniform(2, 4)
        return a, b, c

    with hybrid_seam(4, 1):
        runs, _ = explorer.explore_all(prog)
    tot = sum(ex.weight for ex, _ in runs)
    law = {}
    for ex, r in runs:
        law[r[:2]] = law.get(r[:2], 0) + ex.weight
    if tot != 1 or len(runs) != 3 * 2 * 4 or law[("b", True)] != Fraction(1, 8):
        raise HarnessError("hybrid seam selftest failed")
    if {r[2] for _, r in runs} != {2.25, 2.75, 3.25, 3.75}:
        raise HarnessError("hybrid seam lattice values")
    # trimesh surface sampling: face pick exact, two lattice draws
    V, F = solid.box_mesh((0, 0, 0), (1, 2, 3))
    mesh = trimesh.Trimesh(V, F, process=False)

    def prog2():
        _reset()
        pts, fi = trimesh.sample.sample_surface(mesh, 1)
        return int(fi[0])

    with hybrid_seam(3, 2):
        runs, _ = explorer.explore_all(prog2)
    law = {}
    for ex, r in runs:
        law[r] = law.get(r, 0) + ex.weight
    areas = mesh.area_faces
    if len(runs) != 12 * 9 or any(abs(float(law[i]) - areas[i] / areas.sum()) > 1e-12 for i in range(12)):
        raise HarnessError("trimesh face pick is not explored exactly")
    if isinstance(random.random(), Lazy) or not (0 <= np.random.random() < 1):
        raise HarnessError("seam not restored")


# =========================================================================================
# case construction: one JSON-able spec -> (Scenic region, oracle shape)
# =========================================================================================
L_RING = [(0, 0), (2, 0), (2, 1), (1, 1), (1, 2), (0, 2)]  # non-convex L, counter-clockwise


def _rot(ypr):
    return solid.rotation_zxy(*ypr)


def _orientation(ypr):
    from scenic.core.vectors import Orientation

    return Orientation.fromEuler(*ypr)


def _placed(V, pos, dims, ypr):
    """documented placement of a mesh region: centre the bounding box at the origin, scale the
    bounding box to `dims`, rotate, translate to `pos`."""
    V = np.asarray(V, float)
    lo, hi = V.min(axis=0), V.max(axis=0)
    W = V - (lo + hi) / 2
    if dims is not None:
        W = W * (np.asarray(dims, float) / (hi - lo))
    return W @ _rot(ypr).T + np.asarray(pos, float)


def _voxel_spec(spec):
    """L-shaped block of voxels: nx*ny*nz block minus the block [cx:,cy:,:]."""
    nx, ny, nz = spec["n"]
    cx, cy = spec["cut"]
    dense = np.ones((nx, ny, nz), bool)
    dense[cx:, cy:, :] = False
    return dense


def build_prim(spec):
    """-> (region, shape, info)   info: k (lattice draws per attempt), post, branches (expected
    number of discrete branches, or None)"""
    import shapely.geometry as sg
    import trimesh
    from scenic.core import regions as R
    from scenic.core.vectors import Vector

    k = spec["k"]
    if k in ("box", "spheroid"):
        pos, dims, ypr = spec["pos"], spec["dims"], spec.get("ypr", (0, 0, 0))
        cls = R.BoxRegion if k == "box" else R.SpheroidRegion
        reg = cls(dimensions=tuple(dims), position=Vector(*pos), rotation=_orientation(ypr))
        shp = (M.BoxS if k == "box" else M.EllipsoidS)(pos, dims, _rot(ypr))
        return reg, shp, dict(k=3, post=0, branches=1)
    if k in ("lmesh", "lsurf", "boxsurf"):
        pos, dims, ypr = spec["pos"], spec.get("dims"), spec.get("ypr", (0, 0, 0))
        if k == "boxsurf":
            V, F = solid.box_mesh((0, 0, 0), (1, 1, 1))
        else:
            V, F = solid.prism_mesh(L_RING, 0.0, 1.0)
        mesh = trimesh.Trimesh(V, F, process=False)
        W = _placed(V, pos, dims, ypr)
        kw = dict(position=Vector(*pos), rotation=_orientation(ypr))
        if dims is not None:
            kw["dimensions"] = tuple(dims)
        if k == "lmesh":
            reg = R.MeshVolumeRegion(mesh, **kw)
            return reg, M.MeshS(W, F), dict(k=3, post=0, branches=1)
        reg = R.MeshSurfaceRegion(mesh, **kw)
        return reg, M.SurfaceS(spec.get("name", k), W, F), dict(k=2, post=0, branches=len(F))
    if k == "polygon":
        polys, z = spec["polys"], spec.get("z", 0.0)
        geo = [sg.Polygon(o, hs) for o, hs in polys]
        reg = R.PolygonalRegion(polygon=geo[0] if len(geo) == 1 else sg.MultiPolygon(geo), z=z)
        return reg, M.PolygonS(polys, z), dict(k=2, post=0, branches=None)
    if k == "footprint":
        polys = spec["polys"]
        geo = [sg.Polygon(o, hs) for o, hs in polys]
        geom = geo[0] if len(geo) == 1 else sg.MultiPolygon(geo)
        if spec.get("via") == "polygon":
            # the footprint object a polygonal (workspace) region hands out, cached on the region
            reg = R.PolygonalRegion(polygon=geom, z=spec.get("z", 0.0)).footprint
        else:
            reg = R.PolygonalFootprintRegion(geom)
        return reg, M.PrismS(polys), dict(k=3, post=0, branches=None)
    if k == "circle":
        res = spec.get("res", 32)
        reg = R.CircularRegion(Vector(*spec["c"]), spec["r"], resolution=res)
        return reg, M.DiscS(spec["c"], spec["r"], resolution=res), dict(k=2, post=0, branches=1)
    if k == "sector":
        res = spec.get("res", 32)
        reg = R.SectorRegion(Vector(*spec["c"]), spec["r"], spec["heading"], spec["angle"], resolution=res)
        return reg, M.SectorS(spec["c"], spec["r"], spec["heading"], spec["angle"], resolution=res), dict(k=2, post=0, branches=1)
    if k == "rect":
        reg = R.RectangularRegion(Vector(*spec["c"]), spec["heading"], spec["w"], spec["l"])
        return reg, M.RectS(spec["c"], spec["heading"], spec["w"], spec["l"]), dict(k=2, post=0, branches=1)
    if k == "polyline":
        chains = spec["chains"]
        if len(chains) == 1:
            reg = R.PolylineRegion(points=[tuple(p) for p in chains[0]])
        else:
            reg = R.PolylineRegion(polyline=sg.MultiLineString([[tuple(p) for p in c] for c in chains]))
        nseg = sum(len(c) - 1 for c in chains)
        return reg, M.CurveS(spec.get("name", "polyline"), chains), dict(k=1, post=0, branches=nseg)
    if k == "path":
        chains = spec["chains"]
        reg = R.PathRegion(polylines=[[tuple(p) for p in c] for c in chains])
        nseg = sum(len(c) - 1 for c in chains)
        return reg, M.CurveS(spec.get("name", "path"), chains), dict(k=1, post=0, branches=nseg)
    if k == "voxel":
        dense = _voxel_spec(spec)
        pitch, org = spec["pitch"], np.asarray(spec["origin"], float)
        T = np.eye(4)
        T[0, 0] = T[1, 1] = T[2, 2] = pitch
        T[:3, 3] = org
        vg = trimesh.voxel.VoxelGrid(trimesh.voxel.encoding.DenseEncoding(dense), transform=T)
        reg = R.VoxelRegion(voxelGrid=vg)
        nx, ny, nz = spec["n"]
        cx, cy = spec["cut"]
        # voxel (i,j,l) is the cube of side pitch centred at origin + pitch*(i,j,l)
        lo = org - pitch / 2
        top = lo + pitch * np.array([nx, ny, nz])
        full = M.BoxS((lo + top) / 2, top - lo)
        clo = np.array([lo[0] + pitch * cx, lo[1] + pitch * cy, lo[2] - pitch])
        chi = top + pitch
        shp = M.difference(full, M.BoxS((clo + chi) / 2, chi - clo))
        shp.kind = "voxel"
        return reg, shp, dict(k=3, post=1, branches=int(dense.sum()))
    if k == "view":
        dist, (a0, a1) = spec["dist"], spec["angles"]
        pos, ypr = spec.get("pos", (0, 0, 0)), spec.get("ypr", (0, 0, 0))
        reg = R.ViewRegion(dist, (a0, a1), position=Vector(*pos), rotation=_orientation(ypr))
        Rm = _rot(ypr)
        shp = M.EllipsoidS(pos, (2 * dist,) * 3, Rm)
        if a0 < math.pi:
            h = a0 / 2
            nl = Rm @ np.array([-math.cos(h), -math.sin(h), 0.0])
            nr = Rm @ np.array([math.cos(h), -math.sin(h), 0.0])
            shp = M.intersect(M.intersect(shp, M.HalfSpaceS(pos, nl)), M.HalfSpaceS(pos, nr))
        elif a0 < math.tau - 0.02:
            raise M.Unsupported("view wedge wider than pi")
        if a1 < math.pi - 0.02:
            cb = M.ConeBandS(pos, Rm, a1 / 2)
            cb.band = 0.003 * dist  # planar facets between the 32 rays of the section mesh
            shp = M.intersect(shp, cb)
        shp.kind = "view"
        return reg, shp, dict(k=3, post=0, branches=1)
    raise ValueError(k)


@contextlib.contextmanager
def _watch_footprint_cache(events):
    """harness-side observation of PolygonalFootprintRegion.approxBoundFootprint: was the cached
    bounded prism reused, replaced, or created?"""
    from scenic.core import regions as R

    orig = R.PolygonalFootprintRegion.approxBoundFootprint

    def watched(self, centerZ, height):
        before = self._bounded_cache
        out = orig(self, centerZ, height)
        events.append("fresh" if before is None else ("reused" if self._bounded_cache is before else "replaced"))
        return out

    R.PolygonalFootprintRegion.approxBoundFootprint = watched
    try:
        yield
    finally:
        R.PolygonalFootprintRegion.approxBoundFootprint = orig


def _prior(pre, env):
    """one prior operation / query on already built objects (its result is thrown away)."""
    from scenic.core.vectors import Vector

    ra = build(pre["a"], env)[0]
    op = pre["op"]
    if op in ("intersect", "union", "difference", "intersects"):
        return getattr(ra, op)(build(pre["b"], env)[0])
    if op in ("containsPoint", "distanceTo"):
        return getattr(ra, op)(Vector(*pre["point"]))
    if op == "attr":
        return getattr(ra, pre["name"])
    raise ValueError(op)


def build(spec, env=None):
    """-> region, shape, info (info['sig']: stable description of the library objects).
    {"k": "ref", "name": n} stands for an object of `env` (built once, shared);
    {"k": "history", "objects": {n: spec}, "pre": [...], "body": spec}: the objects are built,
    the prior operations are applied to them, then the body is built from the SAME objects."""
    if spec["k"] == "ref":
        return env[spec["name"]]
    if spec["k"] == "history":
        env = dict(env or {})
        for name, sub in spec["objects"].items():
            env[name] = build(sub, env)
        events = []
        with _watch_footprint_cache(events):
            for pre in spec["pre"]:
                _prior(pre, env)
            npre = len(events)
            reg, shp, info = build(spec["body"], env)
        info = dict(info)
        info["sig"] = "history:" + info["sig"]
        info["cache_events"] = events[npre:]
        info["cache_events_pre"] = events[:npre]
        return reg, shp, info
    if spec["k"] in ("union", "intersect", "difference"):
        ra, sa, ia = build(spec["a"], env)
        rb, sb, ib = build(spec["b"], env)
        op = spec["k"]
        reg = getattr(ra, op)(rb)
        shp = M.Comp(op, sa, sb)
        dim = shp.dim
        cands = [i for i, s in ((ia, sa), (ib, sb)) if s.dim == dim] or [ia]
        if op == "difference":
            cands = [ia]
        info = dict(
            k=max(c["k"] for c in cands),
            post=max(c["post"] for c in cands),
            branches=None,
            sig=f"{op}({ia['sig']},{ib['sig']})->{type(reg).__name__}",
        )
        return reg, shp, info
    reg, shp, info = build_prim(spec)
    info["sig"] = type(reg).__name__
    return reg, shp, info


# =========================================================================================
# (B) lattice exploration
# =========================================================================================
def explore_lattice(region, N, budget, post, max_exec):
    from scenic.core.distributions import RejectionException

    leaves = []

    def once():
        _reset()
        try:
            p = region.uniformPointInner()
        except RejectionException as e:
            # MeshVolumeRegion draws num_samples >= 8 candidates per call (sized for 99% success)
            # and raises only if all miss.  The seam gives it one candidate; its failure is
            # therefore a retry inside the same discrete branch, not a rejection of the sample
            # (otherwise mesh operands of a union would look under-weighted by their
            # bounding-box fill ratio, which the library's batch makes <= 1%).
            if "Rejection sampling MeshVolumeRegion failed" in str(e):
                return "RETRY"
            return "REJECT"
        except _Cut as c:
            return "RETRY" if c.retry else "CUT"
        finally:
            _St.frame = None
        return (float(p[0]), float(p[1]), float(p[2]))

    capped = False
    with hybrid_seam(N, budget, post):
        for ex, res, stats in explorer.explore(once, max_executions=max_exec):
            key, coords, w = [], [], 1.0
            for pt in ex.points:
                w *= float(pt.weights[pt.choice]) if pt.weights is not None else 1.0 / pt.n
                if pt.tag == "L":
                    coords.append(pt.choice)
                elif pt.tag != "coin":
                    key.append((pt.tag, pt.n, pt.choice))
            draws = list(_St.draws)
            if len(draws) != len(coords):
                raise HarnessError("lattice bookkeeping out of step")
            leaves.append((tuple(key), tuple(coords), draws, res, w))
        capped = stats.capped
    return leaves, capped


def _shift(A, axis, d, k):
    """neighbour values: out[i] = A[i + d] along `axis` (NaN / edge outside)."""
    out = np.full_like(A, np.nan)
    src = [slice(None)] * A.ndim
    dst = [slice(None)] * A.ndim
    if d > 0:
        src[axis], dst[axis] = slice(d, None), slice(None, -d)
    else:
        src[axis], dst[axis] = slice(None, d), slice(-d, None)
    out[tuple(dst)] = A[tuple(src)]
    return out


CURV_SLACK = 1.1
OWN_CONTAINS_MAX = 400  # the region's own containsPoint is asked on every m-th lattice image


def analyse(leaves, N):
    """Lattice boxes -> items for interval accounting.

    Returns dict with arrays C (image of the box centre), H (half-extent of the image of the
    box, per world axis), m_lo, m_hi (mass counted to lower / upper bounds), plus statistics.
    """
    groups = {}
    for key, coords, draws, res, w in leaves:
        g = groups.setdefault((key, len(coords)), {})
        e = g.get(coords)
        if e is None:
            e = g[coords] = dict(wc=0.0, wa=0.0, wr=0.0, p=None, draws=draws)
        e["wc"] += w
        if isinstance(res, tuple):
            e["wa"] += w
            e["p"] = res
        elif res == "RETRY":
            e["wr"] += w
    Cs, Hs, LO, HI, INTERIOR, ACC = [], [], [], [], [], []
    DE, DK, DGOOD, DW, DF, DG = [], [], [], [], [], []
    group_cap = {}
    stats = dict(groups=len(groups), entries=0, accepted=0, interior=0, boundary=0, rejected_boundary=0, no_neighbour=0)
    total_w = 0.0
    for gi, ((key, k), g) in enumerate(groups.items()):
        total_w += sum(e["wc"] for e in g.values())
        group_cap[gi] = None
        if k == 0:
            # no continuous input at all (cut before the first draw / discrete outcome)
            for e in g.values():
                if e["p"] is not None:
                    raise HarnessError("continuous region produced a point without continuous input")
            continue
        shape = (N,) * k
        Wc = np.zeros(shape)
        Wa = np.zeros(shape)
        Wr = np.zeros(shape)
        P = np.full(shape + (3,), np.nan)
        V = np.full(shape + (k,), np.nan)
        Vh = np.zeros(shape + (k,))  # larger half step (containment)
        Vw = np.zeros(shape + (k,))  # mean half step (volume)
        for coords, e in g.items():
            Wc[coords] = e["wc"]
            Wa[coords] = e["wa"]
            Wr[coords] = e["wr"]
            if e["p"] is not None:
                P[coords] = e["p"]
            for i, (v, lo, hi) in enumerate(e["draws"]):
                V[coords + (i,)] = v
                Vh[coords + (i,)] = max(hi - v, v - lo)
                Vw[coords + (i,)] = (hi - lo) / 2
        stats["entries"] += len(g)
        has = ~np.isnan(P[..., 0])
        # a box is "boundary" (cut) if its outcome probabilities differ from those of any of the
        # 3^k - 1 surrounding boxes
        boundary = np.zeros(shape, bool)
        for W in (Wa, Wr):
            ratio = np.where(Wc > 0, W / np.where(Wc > 0, Wc, 1.0), -1.0)
            pad = np.pad(ratio, 1, mode="edge")
            for off in itertools.product((-1, 0, 1), repeat=k):
                if not any(off):
                    continue
                sl = tuple(slice(1 + o, 1 + o + N) for o in off)
                boundary |= np.abs(pad[sl] - ratio) > 1e-9
        # retry loop inside the branch: outcomes are renormalised by 1 / (1 - P(retry | branch)),
        # P(retry | branch) bracketed by the uncut retry boxes / all boxes that may retry
        wg = float(Wc.sum())
        r_lo = float(Wr[~boundary].sum()) / wg
        r_hi = float(np.where(boundary, np.where((Wr > 0) | (Wa > 0), Wc, Wr), Wr).sum()) / wg
        f_lo = 1.0 / (1.0 - r_lo)
        f_hi = 1.0 / (1.0 - r_hi) if r_hi < 1 else np.inf
        if r_hi > 0:
            stats["retry_groups"] = stats.get("retry_groups", 0) + 1
        group_cap[gi] = wg if float(Wr.sum()) > 0 else None
        # density test: a straight cut through a box leaves at least half of it on the side of
        # its centre (the retry boundaries are triangle edges; 3 boxes of slack for the corners)
        cutr = float(np.where(boundary & (Wr > 0), Wc, 0.0).sum())
        cuta = float(np.where(boundary & (Wa > 0), Wc, 0.0).sum())
        m3 = 3.0 * wg / N**k
        r2_lo = max(0.0, (float(Wr[~boundary].sum()) + 0.5 * cutr - m3) / wg)
        r2_hi = (float(Wr[~boundary].sum()) + cutr + 0.5 * cuta + m3) / wg
        f2_lo = 1.0 / (1.0 - r2_lo)
        f2_hi = 1.0 / (1.0 - r2_hi) if r2_hi < 1 else np.inf
        # half-extent of the image of each box: sum over the inputs of |secant slope| * half step
        H = np.zeros(shape + (3,))
        unknown = np.zeros(shape, bool)
        E = np.full(shape + (3, 3), 0.0)  # E[..., i, :]: image of half a lattice step of input i
        central = np.ones(shape, bool)
        smooth = np.ones(shape, bool)
        for i in range(k):
            Pp, Pm = _shift(P, i, 1, k), _shift(P, i, -1, k)
            Vp, Vm = _shift(V[..., i], i, 1, k), _shift(V[..., i], i, -1, k)
            with np.errstate(invalid="ignore", divide="ignore"):
                cen = (Pp - Pm) / (Vp - Vm)[..., None]
            okc = ~np.isnan(cen[..., 0])
            central &= okc
            E[..., i, :] = np.where(okc[..., None], cen, 0.0) * Vw[..., i][..., None]
            sec = {}
            for d in (1, -1):
                Pn, Vn = _shift(P, i, d, k), _shift(V[..., i], i, d, k)
                with np.errstate(invalid="ignore", divide="ignore"):
                    sec[d] = (Pn - P) / (Vn - V[..., i])[..., None]
            sp, sm = sec[1], sec[-1]
            okp, okm = ~np.isnan(sp[..., 0]), ~np.isnan(sm[..., 0])
            mag = np.fmax(np.abs(sp), np.abs(sm))  # nan-ignoring max
            none = ~(okp | okm)
            scale = np.nanmax(np.abs(mag)) if (okp | okm).any() else np.nan
            # affine along this input?  the two secants (or two consecutive secants) coincide
            affine = np.zeros(shape, bool)
            both = okp & okm
            with np.errstate(invalid="ignore"):
                affine[both] = (np.abs(sp - sm).max(axis=-1) <= 1e-7 * scale)[both]
                for d, ok_d, s_d in ((1, okp & ~okm, sp), (-1, okm & ~okp, sm)):
                    nxt = _shift(s_d, i, d, k)  # secant of the neighbour on the same side
                    same = np.abs(nxt - s_d).max(axis=-1) <= 1e-7 * scale
                    affine[ok_d] = same[ok_d]
            slack = np.where(affine, 1.0, CURV_SLACK)
            # density test stencil: no crease between the two secants; curved inputs must be two
            # steps away from the end of their range
            with np.errstate(invalid="ignore"):
                nrm = np.fmax(np.linalg.norm(sp, axis=-1), np.linalg.norm(sm, axis=-1))
                smooth_ax = both & (np.linalg.norm(sp - sm, axis=-1) <= 0.35 * nrm)
            ix = np.arange(N).reshape([N if a == i else 1 for a in range(k)])
            deep_ax = np.broadcast_to((ix >= 2) & (ix <= N - 3), shape)
            smooth &= smooth_ax & (affine | deep_ax)
            if (okp | okm).any():
                fallback = np.nanmax(mag.reshape(-1, 3), axis=0)
            else:
                fallback = np.full(3, np.inf)
            mag = np.where(none[..., None], fallback, mag)
            slack = np.where(none, CURV_SLACK, slack)
            unknown |= none & has
            H += slack[..., None] * mag * Vh[..., i][..., None]
        H += 1e-12
        stats["no_neighbour"] += int(unknown.sum())
        interior = has & ~boundary
        bnd = has & boundary
        idx = np.nonzero(has)
        # density data: a box is "good" if it and its axis neighbours are uncut and accepted
        good = interior & central & smooth
        for i in range(k):
            for d in (1, -1):
                nb = _shift(interior.astype(float), i, d, k)
                good &= nb == 1.0
        DE.append(E[idx])
        DK.append(np.full(len(idx[0]), k))
        DGOOD.append(good[idx])
        DW.append(Wa[idx])
        DF.append(np.tile([f2_lo, f2_hi] if float(Wr.sum()) > 0 else [1.0, 1.0], (len(idx[0]), 1)))
        DG.append(np.full(len(idx[0]), gi))
        Cs.append(P[idx])
        Hs.append(H[idx])
        LO.append(np.where(interior[idx], Wa[idx], 0.0) * f_lo)
        HI.append(np.where(interior[idx], Wa[idx], Wc[idx]) * f_hi)
        INTERIOR.append(interior[idx])
        ACC.append(np.ones(len(idx[0]), bool))
        stats["accepted"] += int(has.sum())
        stats["interior"] += int(interior.sum())
        stats["boundary"] += int(bnd.sum())
        # rejected boxes next to an accepted one may hide accepted mass: counted to the upper
        # bound of the cells met by the (inflated) box of the tightest accepted neighbour
        rb = ~has & boundary & (Wc > 0)
        if rb.any():
            Hn = np.where(has, np.linalg.norm(H, axis=-1), np.inf)
            best = np.full(shape, np.inf)
            bc = np.full(shape + (3,), np.nan)
            bh = np.full(shape + (3,), np.nan)
            for off in itertools.product((-1, 0, 1), repeat=k):
                if not any(off):
                    continue
                hn, pn, hh = Hn, P, H
                for ax, o in enumerate(off):
                    if o:
                        hn = np.where(np.isnan(_shift(hn, ax, o, k)), np.inf, _shift(hn, ax, o, k))
                        pn = _shift(pn, ax, o, k)
                        hh = _shift(hh, ax, o, k)
                better = hn < best
                best = np.where(better, hn, best)
                bc = np.where(better[..., None], pn, bc)
                bh = np.where(better[..., None], hh, bh)
            sel = rb & np.isfinite(best)
            j = np.nonzero(sel)
            Cs.append(bc[j])
            Hs.append(3.3 * bh[j])
            LO.append(np.zeros(len(j[0])))
            HI.append(Wc[j] * f_hi)
            INTERIOR.append(np.zeros(len(j[0]), bool))
            ACC.append(np.zeros(len(j[0]), bool))
            DE.append(np.zeros((len(j[0]), 3, 3)))
            DK.append(np.full(len(j[0]), k))
            DGOOD.append(np.zeros(len(j[0]), bool))
            DW.append(np.zeros(len(j[0])))
            DF.append(np.ones((len(j[0]), 2)))
            DG.append(np.full(len(j[0]), gi))
            stats["rejected_boundary"] += int(sel.sum())
    if not Cs:
        return None, stats
    out = dict(
        C=np.concatenate(Cs),
        H=np.concatenate(Hs),
        m_lo=np.concatenate(LO),
        m_hi=np.concatenate(HI),
        interior=np.concatenate(INTERIOR),
        accepted=np.concatenate(ACC),
        E=np.concatenate(DE),
        k=np.concatenate(DK),
        good=np.concatenate(DGOOD),
        wacc=np.concatenate(DW),
        f=np.concatenate(DF),
        group=np.concatenate(DG),
        group_cap=group_cap,
        total_w=total_w,
        # without any rejection of the whole sample (only retries inside a branch) the sampler
        # accepts with probability exactly 1
        always_accepts=not any(res in ("REJECT", "CUT") for _, _, _, res, _ in leaves),
    )
    return out, stats


def _aligned_edges(obs, lo, hi, G, N):
    """Cell edges: if the lattice boxes are axis-aligned with common faces along a world axis
    (rejection samplers over a bounding box), cut along box faces so that no box straddles."""
    edges = []
    real = obs["accepted"]
    scale = float(np.max(hi - lo))
    pad = 1e-6 * scale
    for ax in range(3):
        if hi[ax] - lo[ax] <= 1e-9 * scale:
            edges.append(np.array([lo[ax], lo[ax]]))
            continue
        faces = np.concatenate([obs["C"][real, ax] - obs["H"][real, ax], obs["C"][real, ax] + obs["H"][real, ax]])
        faces = np.unique(np.round(faces / (1e-9 * scale)).astype(np.int64)) * (1e-9 * scale)
        e = np.linspace(lo[ax] - pad, hi[ax] + pad, G + 1)
        if 2 <= len(faces) <= N + 1:
            # snap a cut to the nearest box face, unless the lattice does not reach that far (then
            # the regular cut stays: cells beyond the observed boxes keep their resolution)
            half = (e[1] - e[0]) / 2
            inner = [faces[np.argmin(np.abs(faces - t))] if np.min(np.abs(faces - t)) <= half else t for t in e[1:-1]]
            e = np.array([min(lo[ax] - pad, faces[0])] + inner + [max(hi[ax] + pad, faces[-1])])
            e = np.unique(e)
            if len(e) < 2:
                e = np.array([lo[ax], hi[ax]])
        edges.append(e)
    return edges


def _box_radius(obs):
    acc = obs["accepted"]
    return float(np.linalg.norm(obs["H"][acc], axis=1).max()) if acc.any() else 0.0


def _accumulate_obs(grid, obs):
    """cell sums of the observed items.  Branches with a retry loop are accumulated
    separately: whatever the uncertainty of their renormalisation, the mass such a branch puts
    into any cell (and in total) cannot exceed the branch probability."""
    caps = obs["group_cap"]
    gid = obs["group"]
    capped = np.isin(gid, [g for g, c in caps.items() if c is not None])
    olo, ohi, outside = M.accumulate(grid, obs["C"][~capped], obs["H"][~capped], obs["m_lo"][~capped], obs["m_hi"][~capped])
    A_lo, A_hi = float(obs["m_lo"][~capped].sum()), float(obs["m_hi"][~capped].sum())
    for g, cap in caps.items():
        if cap is None:
            continue
        sel = gid == g
        if not sel.any():
            continue
        l, h, o = M.accumulate(grid, obs["C"][sel], obs["H"][sel], obs["m_lo"][sel], obs["m_hi"][sel])
        olo += np.minimum(l, cap)
        ohi += np.minimum(h, cap)
        outside += o
        A_lo += min(float(obs["m_lo"][sel].sum()), cap)
        A_hi += min(float(obs["m_hi"][sel].sum()), cap)
    if obs["always_accepts"]:
        A_lo = A_hi = obs["total_w"]
    return olo, ohi, outside, A_lo, A_hi


def _judge(shape, obs, G, q, N):
    """Interval test of uniformity.

    Observed side: lattice box u of a discrete branch has candidate mass w (exact branch
    probability / N^k).  Its image is contained in the world box C_u +/- H_u (H_u: sum over
    the inputs of the secant slope to the neighbouring lattice image times the half step,
    x1.1 unless the secants coincide = affine input).  P(point in cell c and accepted) is
    therefore between
        lo_obs(c) = sum of accepted mass of boxes that lie inside c and are not cut by an
                    acceptance boundary (all 3^k-1 surrounding boxes accept with the same
                    probability),
        hi_obs(c) = sum over boxes meeting c of: accepted mass (uncut boxes) or candidate mass
                    (cut boxes, and rejected boxes adjacent to accepted ones).
    Expected side: lo_exp(c) <= measure(c & region) <= hi_exp(c) from the quadrature.
    The sampler is uniform only if  lo_obs(c)/A_hi <= hi_exp(c)/mu_lo  and
    hi_obs(c)/A_lo >= lo_exp(c)/mu_hi  for every cell (A, mu: totals)."""
    lo, hi = shape.aabb()
    if not (np.all(np.isfinite(lo)) and np.all(np.isfinite(hi))):
        raise M.Unsupported("unbounded")
    grid = M.Grid(_aligned_edges(obs, lo, hi, G, N))
    quad = M.Quadrature(shape, grid, q)
    # D: largest radius of the image of a lattice box.  The lattice cannot resolve features of
    # the region thinner than D: the expected share of a cell is bracketed by the part of the
    # region deeper than D (lower) and by the D-neighbourhood of the region (upper)
    D = _box_radius(obs)
    elo, ehi = quad.cells(depth=D)
    olo, ohi, outside, A_lo, A_hi = _accumulate_obs(grid, obs)
    res = dict(cells=int(grid.size), outside=outside, A_lo=A_lo, A_hi=A_hi, mu_lo=quad.mu_lo, mu_hi=quad.mu_hi, bad=[], atoms_bad=[], D=D)
    if A_lo <= 0 or quad.mu_lo <= 0:
        res["judged"] = 0
        res["width"] = None
        return res, quad, grid
    o_lo, o_hi = olo / A_hi, ohi / A_lo
    e_lo, e_hi = elo / quad.mu_hi, ehi / quad.mu_lo
    judged = (e_hi > 0) | (o_hi > 0)
    over = judged & (o_lo > e_hi + 1e-9)
    under = judged & (o_hi < e_lo - 1e-9)
    res["judged"] = int(judged.sum())
    # informative cells: the expected share is known to better than a factor 2 both ways
    res["informative"] = int((judged & (e_lo > 0.5 * e_hi) & (o_lo > 0)).sum())
    with np.errstate(invalid="ignore", divide="ignore"):
        rel = np.where(e_hi > 0, ((o_hi - o_lo) + (e_hi - e_lo)) / np.where(e_hi > 0, e_hi, 1), np.nan)
    res["width"] = float(np.nanmedian(rel[judged])) if judged.any() else None
    for c in np.nonzero(over | under)[0]:
        res["bad"].append(
            dict(cell=int(c), kind="over" if over[c] else "under", obs=[float(o_lo[c]), float(o_hi[c])], exp=[float(e_lo[c]), float(e_hi[c])])
        )
    # atoms of a two-operand composition: which operands contain the point
    res["atoms_bad"] = []
    if len(shape.operands) == 2:
        ck = shape.carriers()
        atoms = {}
        for side, C, HH, mlo, mhi, ci in (
            ("exp", quad.C, quad.H, np.where(quad.margin < -(quad.R + D), quad.M, 0.0), np.where(quad.margin <= quad.R + D, quad.M, 0.0), quad.carrier_index),
            ("obs", obs["C"], obs["H"], obs["m_lo"], obs["m_hi"], None),
        ):
            r = np.linalg.norm(HH, axis=1) + (D if side == "exp" else 0.0)
            if ci is None:
                ci = M.assign_carrier(ck, C, HH, 1e-7 * grid.scale)
            a = np.zeros(len(C), np.int8)
            b = np.zeros(len(C), np.int8)
            for j, K in enumerate(ck):
                sel = ci == j
                if sel.any():
                    aa, bb = M.atom_of(shape, C[sel], r[sel], K.key, HH[sel])
                    a[sel], b[sel] = aa, bb
            for name, (va, vb) in (("A-only", (1, 0)), ("B-only", (0, 1)), ("both", (1, 1))):
                sure = (a == va) & (b == vb)
                maybe = ((a == va) | (a == -1)) & ((b == vb) | (b == -1))
                atoms.setdefault(name, {})[side] = (float(mlo[sure].sum()), float(mhi[maybe].sum()))
        for name, d in atoms.items():
            (xl, xh), (yl, yh) = d["exp"], d["obs"]
            xl, xh, yl, yh = xl / quad.mu_hi, xh / quad.mu_lo, yl / A_hi, yh / A_lo
            if yl > xh + 1e-9 or yh < xl - 1e-9:
                res["atoms_bad"].append(dict(atom=name, obs=[yl, yh], exp=[xl, xh]))
        res["atoms"] = {n: [d["exp"][0] / quad.mu_hi, d["exp"][1] / quad.mu_lo, d["obs"][0] / A_hi, d["obs"][1] / A_lo] for n, d in atoms.items()}
    return res, quad, grid


DENSITY_TAU = 0.05


def _density(shape, obs, res):
    """Density (Jacobian) test.

    The image of lattice box v is, to second order, the parallelotope P_v + sum_i a_i E_i,
    |a_i| <= 1, E_i = central-difference slope of input i times the half step.  Its accepted
    mass w_v spread over its k-volume gives the density rho_v = w_v / vol_k(2 E).  The density
    of the pushforward at the image x of a box centre is the sum of rho_v over all boxes (of all
    discrete branches) whose parallelotope contains x (overlapping operands of a union, the
    fold of trimesh's triangle sampling).  Uniformity means this sum is the same constant
    everywhere.  Only boxes that are accepted, uncut and whose axis neighbours are too take
    part; a point covered by any other accepted box is skipped.  Branches with an internal retry
    loop carry the interval [f_lo, f_hi] of their renormalisation 1/(1-P(retry)).
    Tolerance DENSITY_TAU covers the second-order error of the finite-difference Jacobian
    (zero for inputs that enter affinely; < 2% for r = R sqrt(u) and for polar angles with steps
    <= 2 pi / 24 once the radial input is two steps away from the end of its range)."""
    from scipy.spatial import cKDTree

    # all items take part as potential covers: accepted boxes, and rejected boxes next to
    # accepted ones (their inflated containment box; they may hide accepted mass)
    C, E, K, good, W, F = obs["C"], obs["E"], obs["k"], obs["good"] & obs["accepted"], obs["wacc"], obs["f"]
    Hbox = obs["H"]
    out = dict(judged=0, skipped=0, spread=None, bad=None)
    if not good.any():
        return out
    n = len(C)
    vol = np.zeros(n)
    pinv = np.zeros((n, 3, 3))
    for kk in (1, 2, 3):
        sel = np.nonzero((K == kk))[0]
        if len(sel) == 0:
            continue
        G = 2.0 * E[sel][:, :kk, :]  # (m, kk, 3) rows = edge vectors
        gram = np.einsum("mij,mlj->mil", G, G)
        det = np.linalg.det(gram)
        vol[sel] = np.sqrt(np.maximum(det, 0.0))
        ok = det > 0
        # coordinates a of x - P_v in the basis E: a = (E E^T)^-1 E (x - P_v)
        Eh = E[sel][:, :kk, :]
        gr = np.einsum("mij,mlj->mil", Eh, Eh)
        inv = np.zeros_like(gr)
        inv[ok] = np.linalg.inv(gr[ok])
        pinv[sel, :kk, :] = np.einsum("mil,mlj->mij", inv, Eh)
    usable = good & (vol > 0)
    rad = np.maximum(np.linalg.norm(np.abs(E).sum(axis=1), axis=1), np.linalg.norm(Hbox, axis=1))
    tree = cKDTree(C)
    rmax = float(rad.max())
    scale = float(np.max(C.max(axis=0) - C.min(axis=0))) or 1.0
    d_lo = np.full(n, np.nan)
    d_hi = np.full(n, np.nan)
    cover = np.zeros(n, np.int64)
    for u in np.nonzero(usable)[0]:
        cand = tree.query_ball_point(C[u], rmax * 1.001 + 1e-12)
        cand = np.array(cand)
        dx = C[u][None, :] - C[cand]
        a = np.einsum("mij,mj->mi", pinv[cand], dx)
        resid = np.linalg.norm(dx - np.einsum("mi,mij->mj", a, E[cand]), axis=1)
        amax = np.abs(a).max(axis=1)
        on = resid <= 1e-7 * scale
        # a box of another carrier that merely crosses this one (a surface crossing a plane) does
        # not add density: the covering box must span the directions of the box under test
        if on.any() and K[u] < 3:
            for e in E[u][: K[u]]:
                ae = np.einsum("mij,j->mi", pinv[cand], e)
                re = np.linalg.norm(e[None, :] - np.einsum("mi,mij->mj", ae, E[cand]), axis=1)
                on &= re <= 1e-6 * np.linalg.norm(e)
        inside = on & (amax < 1 - 1e-6)
        edge = on & (amax >= 1 - 1e-6) & (amax <= 1 + 1e-6)
        # boxes without a reliable parallelotope (cut, at the end of an input range, creased):
        # their containment box decides whether they may cover the point
        rough = ~usable[cand] & np.all(np.abs(dx) <= Hbox[cand] * (1 + 1e-9) + 1e-12, axis=1)
        if edge.any() or rough.any() or not usable[cand[inside]].all():
            out["skipped"] += 1
            continue
        cv = cand[inside]
        rho = W[cv] / vol[cv]
        d_lo[u] = float((rho * F[cv, 0]).sum())
        d_hi[u] = float((rho * F[cv, 1]).sum())
        cover[u] = len(cv)
    j = ~np.isnan(d_lo)
    out["judged"] = int(j.sum())
    if not j.any():
        return out
    out["cover"] = sorted(set(int(c) for c in cover[j]))
    top_lo = float(np.max(d_lo[j])) * (1 - DENSITY_TAU)
    bot_hi = float(np.min(d_hi[j])) * (1 + DENSITY_TAU)
    out["spread"] = float(np.max(d_lo[j]) / np.min(d_hi[j]))
    # the common constant must also be P(accept) / measure(region)
    ref_lo = res["A_lo"] / res["mu_hi"] if res["mu_hi"] > 0 else 0.0
    ref_hi = res["A_hi"] / res["mu_lo"] if res["mu_lo"] > 0 else np.inf
    out["ref"] = [ref_lo, ref_hi]
    out["range"] = [float(np.min(d_lo[j])), float(np.max(d_hi[j]))]
    if top_lo > bot_hi:
        iu, il = int(np.nanargmax(np.where(j, d_lo, -np.inf))), int(np.nanargmin(np.where(j, d_hi, np.inf)))
        out["bad"] = f"density {d_lo[iu]:.6g} at {tuple(round(float(x), 4) for x in C[iu])} vs {d_hi[il]:.6g} at {tuple(round(float(x), 4) for x in C[il])} (ratio {d_lo[iu] / d_hi[il]:.3f} > {(1 + DENSITY_TAU) / (1 - DENSITY_TAU):.3f})"
    elif top_lo > ref_hi or bot_hi < ref_lo:
        out["bad"] = f"density in [{np.min(d_lo[j]):.6g}, {np.max(d_hi[j]):.6g}] but P(accept)/measure in [{ref_lo:.6g}, {ref_hi:.6g}]"
    return out


def _support(shape, obs, Gs, q, N):
    """Support on a finer grid: a cell that certainly contains a piece of the region (a
    quadrature piece inside it by more than the largest box-image radius) must be met by the
    image box of at least one lattice box
    that is accepted, cut by an acceptance boundary, or rejected next to an accepted one.  (If
    the sampler reaches the whole region, some input maps into the cell; its lattice box is of
    one of these three kinds.)"""
    lo, hi = shape.aabb()
    grid = M.Grid(_aligned_edges(obs, lo, hi, Gs, N))
    quad = M.Quadrature(shape, grid, q)
    # only pieces deeper inside the region than the largest box image: the box that covers such
    # a piece has its centre image inside the region
    elo, _ = quad.cells(depth=1.05 * _box_radius(obs))
    _, ohi, _, _, _ = _accumulate_obs(grid, obs)
    need = elo > 0
    empty = np.nonzero(need & (ohi <= 0))[0]
    ex = []
    for c in empty[:3]:
        ijk = np.unravel_index(c, tuple(grid.n))
        ex.append([[float(grid.edges[a][ijk[a]]), float(grid.edges[a][min(ijk[a] + 1, len(grid.edges[a]) - 1)])] for a in range(3)])
    return dict(tested=int(need.sum()), cells=int(grid.size), uncovered=int(len(empty)), examples=ex)


def _own_contains(region, P, own_max):
    """the region's own containsPoint on produced points (distance tolerance for curves)."""
    from scenic.core import regions as R
    from scenic.core.vectors import Vector

    bad = []
    stride = max(1, len(P) // own_max)
    for p in P[::stride]:
        v = Vector(*p)
        try:
            if isinstance(region, (R.PolylineRegion, R.PathRegion)):
                ok = region.distanceTo(v) <= 1e-9
            else:
                ok = bool(region.containsPoint(v))
        except NotImplementedError:
            return None
        if not ok:
            bad.append([float(x) for x in p])
    return bad


TIER = {
    "quick": dict(N={1: 96, 2: 24, 3: 16}, N_surface=12, N_voxel=8, G={1: 4, 2: 4, 3: 4}, q={1: 8, 2: 48, 3: 12}, Gs={1: 16, 2: 8, 3: 4}, qs={1: 4, 2: 12, 3: 8}, max_exec=400_000, max_leaves_2d=30_000),
    "thorough": dict(N={1: 256, 2: 64, 3: 24}, N_surface=32, N_voxel=12, G={1: 8, 2: 8, 3: 4}, q={1: 8, 2: 32, 3: 14}, Gs={1: 32, 2: 16, 3: 8}, qs={1: 4, 2: 8, 3: 6}, max_exec=3_000_000, max_leaves_2d=120_000),
}


def run_continuous(item):
    name, spec, tier = item
    t0 = time.time()
    warnings.filterwarnings("ignore")
    par = TIER[tier]
    out = dict(name=name, kind="continuous", violations=[], excluded=None, stats={}, sig=None)

    def viol(sig, desc):
        out["violations"].append((sig, f"[{name}] {desc}", dict(mode="continuous", name=name, spec=spec, tier=tier)))

    try:
        region, shape, info = build(spec)
    except M.Unsupported as e:
        out["excluded"] = f"oracle: {e}"
        return out
    except Exception as e:
        viol(f"crash-construct:{_spec_sig(spec)}:{type(e).__name__}", f"constructing the region raised {type(e).__name__}: {str(e)[:200]}")
        return out
    out["sig"] = sig = info["sig"]
    from scenic.core import regions as R

    try:
        dim = shape.dim
        shape.carriers()
        lo, hi = shape.aabb()
    except M.Unsupported as e:
        out["excluded"] = f"oracle: {e}"
        return out
    # does the composed set have positive natural measure at all?
    try:
        coarse = M.Quadrature(shape, M.Grid.uniform(lo, hi, 4), 6 if dim == 3 else 16)
    except M.Unsupported as e:
        out["excluded"] = f"oracle: {e}"
        return out
    out["stats"]["measure_coarse"] = [coarse.mu_lo, coarse.mu_hi]
    expect_empty = coarse.mu_hi <= 0
    if not expect_empty and coarse.mu_lo <= 0:
        out["excluded"] = "oracle: measure of the composed set not resolved (thin set)"
        return out
    if isinstance(region, R.EmptyRegion):
        if expect_empty:
            out["stats"]["empty_agree"] = True
        else:
            viol(f"empty-result:{sig}", f"the library returned the empty region for a composition of measure >= {coarse.mu_lo:.4g}")
        return out
    N, G, q = par["N"][dim], par["G"][dim], par["q"][dim]
    kinds = {type(K).__name__ for K in shape.carriers()}
    if "Surface" in kinds and dim == 2:
        N = par["N_surface"]
    if dim == 3 and any(getattr(pr, "kind", "") == "voxel" for pr in _all_shapes(shape)):
        N = par["N_voxel"]
    ov = spec.get("params", {}).get(tier, {})  # cheap settings of the (numerous) history cases
    N, G, q = ov.get("N", N), ov.get("G", G), ov.get("q", q)
    if "cache_events" in info:
        out["stats"]["cache_events"] = info["cache_events"]
        out["stats"]["cache_events_pre"] = info["cache_events_pre"]
    # many-triangle polygons (and unions containing them): bound the number of executions
    ntri = _triangle_count(region)
    if ntri * N * N > par["max_leaves_2d"] and dim == 2:
        N = max(16, int(math.sqrt(par["max_leaves_2d"] / ntri)))
    while N % G:
        G -= 1
    try:
        leaves, capped = explore_lattice(region, N, info["k"], info["post"], par["max_exec"])
    except OutOfFragment as e:
        out["excluded"] = f"out of fragment: {e}"
        return out
    except (HarnessError, _Cut):
        raise
    except Exception as e:
        viol(f"crash-sample:{sig}:{type(e).__name__}", f"uniformPointInner raised {type(e).__name__}: {str(e)[:200]}")
        return out
    if capped:
        out["excluded"] = "execution cap"
        out["capped"] = True
        return out
    st = out["stats"]
    st["leaves"] = len(leaves)
    st["outcomes"] = {k: sum(1 for l in leaves if (l[3] if isinstance(l[3], str) else "POINT") == k) for k in ("POINT", "REJECT", "CUT", "RETRY")}
    pts = np.array([l[3] for l in leaves if isinstance(l[3], tuple)])
    if len(pts) == 0:
        from scenic.core.vectors import PiecewiseVectorField

        if expect_empty:
            st["empty_agree"] = True
        elif isinstance(getattr(region, "orientation", None), PiecewiseVectorField):
            # documented: a PiecewiseVectorField rejects points outside its oriented pieces (union
            # of a polygon without orientation and a polyline with its default orientation)
            out["excluded"] = "union orientation (PiecewiseVectorField) is undefined on the part of positive measure: every sample is rejected by design"
        else:
            viol(f"never-accepts:{sig}", f"no lattice point produced a sample although the composed set has measure >= {coarse.mu_lo:.4g}")
        return out
    if np.isnan(pts).any():
        raise HarnessError(f"{name}: NaN in a produced point (lazy draw escaped the seam)")
    # ---- (a) membership
    scale = float(np.max(hi - lo))
    cls = M.classify(shape, pts, eps=1e-7 * scale, off_tol=1e-7 * scale)
    st["members"] = int((cls == 1).sum())
    st["touching"] = int((cls == -1).sum())
    nonm = np.nonzero(cls == 0)[0]
    if len(nonm):
        # which coordinate is at fault?
        zs = sorted({K.z for K in shape.carriers() if isinstance(K, M.Plane)})
        detail = "outside"
        if zs:
            fixed = pts[nonm].copy()
            fixed[:, 2] = zs[0]
            cz = M.classify(shape, fixed, 1e-7 * scale, 1e-7 * scale)
            if (cz != 0).all() and (cz == 1).any():
                detail = "z"
        p = pts[nonm[0]]
        viol(f"nonmember:{sig}:{detail}", f"{len(nonm)} of {len(pts)} produced points are not in the region, e.g. {tuple(round(float(x), 6) for x in p)} (expected z in {zs})" if zs else f"{len(nonm)} of {len(pts)} produced points are not in the region, e.g. {tuple(round(float(x), 6) for x in p)}")
    # Scenic treats planar operands as footprints (infinite prisms) in containsPoint of a composed
    # region but as planar sets when sampling: the differential check is only meaningful when
    # both views coincide
    planar_in_higher = any(isinstance(pr.carrier, M.Plane) for pr in shape.prims()) and not all(isinstance(K, M.Plane) for K in shape.carriers())
    own_max = spec.get("params", {}).get(tier, {}).get("own", OWN_CONTAINS_MAX)
    own = None if planar_in_higher else _own_contains(region, pts[cls == 1], own_max)
    st["own_contains_checked"] = 0 if own is None else len(pts[cls == 1][:: max(1, int((cls == 1).sum()) // own_max)])
    if own:
        viol(f"own-containsPoint-false:{sig}", f"{len(own)} produced member points are rejected by the region's own containsPoint, e.g. {own[0]}")
    # ---- (b), (c)
    obs, ast = analyse(leaves, N)
    st.update(ast)
    if obs is None:
        raise HarnessError(f"{name}: no lattice items")
    if abs(obs["total_w"] - 1.0) > 1e-9:
        raise HarnessError(f"{name}: leaf weights sum to {obs['total_w']}")
    if info.get("branches") and ast["groups"] < info["branches"]:
        viol(f"branch-unreached:{sig}", f"only {ast['groups']} of {info['branches']} discrete branches (triangles/edges/voxels) were reached")
    st["branches"] = ast["groups"]
    if len(nonm) == 0 and not expect_empty:
        res, quad, grid = _judge(shape, obs, G, q, N)
        st["cells"] = res["cells"]
        st["judged"] = res["judged"]
        st["informative"] = res.get("informative", 0)
        st["width"] = res["width"]
        st["accept"] = [res["A_lo"], res["A_hi"]]
        st["measure"] = [res["mu_lo"], res["mu_hi"]]
        st["atoms"] = res.get("atoms")
        if res["bad"]:
            b = res["bad"][0]
            viol(f"nonuniform:{sig}", f"{len(res['bad'])} of {res['judged']} cells outside the bound, e.g. cell {b['cell']} {b['kind']}: observed share in {b['obs']}, expected in {b['exp']} (N={N}, G={G})")
        elif res["atoms_bad"]:
            b = res["atoms_bad"][0]
            viol(f"nonuniform:{sig}", f"atom '{b['atom']}' of the composition: observed share in {b['obs']}, expected in {b['exp']} (N={N})")
        den = _density(shape, obs, res)
        st["density_judged"] = den["judged"]
        st["density_skipped"] = den["skipped"]
        st["density_spread"] = den["spread"]
        st["density_cover"] = den.get("cover")
        if den["bad"] and not res["bad"] and not res["atoms_bad"]:
            viol(f"nonuniform:{sig}", f"density test: {den['bad']} (N={N})")
        sup = _support(shape, obs, ov.get("Gs", par["Gs"][dim]), ov.get("qs", par["qs"][dim]), N)
        st["support_tested"] = sup["tested"]
        st["support_cells"] = sup["cells"]
        if sup["uncovered"]:
            viol(f"unreachable:{sig}", f"{sup['uncovered']} of {sup['tested']} support cells that contain a piece of the region are met by no lattice image, e.g. cell {sup['examples'][0]}")
    st["contains_retries"] = _St.contains_retries
    st["wall"] = round(time.time() - t0, 2)
    st["N"], st["dim"] = N, dim
    return out


def _triangle_count(region):
    """number of triangles the library will choose from (sizing only)."""
    from scenic.core import regions as R

    if isinstance(region, R.PolygonalRegion) and type(region).__name__ == "PolygonalRegion":
        return len(region._samplingData[0])
    n = 0
    for sub in getattr(region, "regions", ()) or ():
        n += _triangle_count(sub)
    for nm in ("regionA",):
        if hasattr(region, nm):
            n += _triangle_count(getattr(region, nm))
    return max(n, 0)


def _all_shapes(shape):
    out = [shape]
    for o in getattr(shape, "operands", ()):
        out += _all_shapes(o)
    return out


def _spec_sig(spec):
    if spec["k"] == "history":
        return "history:" + _spec_sig(spec["body"])
    if spec["k"] == "ref":
        return spec["name"]
    if spec["k"] in ("union", "intersect", "difference"):
        return f"{spec['k']}({_spec_sig(spec['a'])},{_spec_sig(spec['b'])})"
    return spec["k"]


# =========================================================================================
# (A) discrete regions: exact law
# =========================================================================================
def _key(p):
    return tuple(round(float(c), 9) + 0.0 for c in p)


def build_discrete(spec):
    """-> (region, points or None, member(point) -> True / False / None (touching), sig)"""
    from scenic.core import regions as R

    k = spec["k"]
    if k == "pointset":
        pts = [tuple(float(c) for c in p) for p in spec["pts"]]
        reg = R.PointSetRegion(spec.get("name", "ps"), pts)
        keys = {_key(p) for p in pts}
        return reg, pts, (lambda p: _key(p) in keys), "PointSetRegion"
    if k == "grid":
        g = np.array(spec["grid"])
        Ax, Ay, Bx, By = spec["Ax"], spec["Ay"], spec["Bx"], spec["By"]
        reg = R.GridRegion("grid", spec["grid"], Ax, Ay, Bx, By)
        pts = [(Ax * x + Bx, Ay * y + By, 0.0) for y in range(g.shape[0]) for x in range(g.shape[1]) if g[y, x] == 0]

        def member(p):
            # documented: a point is in the grid region if the nearest grid point is free
            fx, fy = (p[0] - Bx) / Ax, (p[1] - By) / Ay
            if min(abs(fx - math.floor(fx) - 0.5), abs(fy - math.floor(fy) - 0.5)) < 1e-6:
                return None
            x, y = int(round(fx)), int(round(fy))
            if not (0 <= x < g.shape[1] and 0 <= y < g.shape[0]):
                return False
            if g[y, x] != 0:
                return False
            # a free cell: the region's sampler can only produce the grid point itself.  Points of
            # a free cell other than its grid point are members by the documented containment but
            # not producible: ambiguous, the case list must not depend on them
            on_grid = abs(fx - x) < 1e-9 and abs(fy - y) < 1e-9 and abs(p[2]) < 1e-9
            return True if on_grid else None

        return reg, pts, member, "GridRegion"
    if k in ("union", "intersect", "difference"):
        ra, pa, ma, sa = build_discrete(spec["a"])
        rb, pb, mb, sb = build_discrete(spec["b"])
        reg = getattr(ra, k)(rb)
        if k == "union":
            pts = (pa or []) + (pb or [])
            mem = lambda p: _tri_or(ma(p), mb(p))
        elif k == "intersect":
            pts = (pa or []) + (pb or [])
            mem = lambda p: _tri_and(ma(p), mb(p))
        else:
            pts = pa
            mem = lambda p: _tri_and(ma(p), _tri_not(mb(p)))
        return reg, pts, mem, f"{k}({sa},{sb})->{type(reg).__name__}"
    reg, shp, info = build_prim(spec)
    lo, hi = shp.aabb()
    fin = np.isfinite(lo) & np.isfinite(hi)
    scale = float(np.max((hi - lo)[fin])) if fin.any() else 1.0

    def member(p):
        c = int(M.classify(shp, np.array([p], float), eps=1e-4 * scale, off_tol=1e-6 * scale)[0])
        return None if c == -1 else bool(c)

    return reg, None, member, type(reg).__name__


def _tri_and(a, b):
    if a is False or b is False:
        return False
    return None if (a is None or b is None) else True


def _tri_or(a, b):
    if a is True or b is True:
        return True
    return None if (a is None or b is None) else False


def _tri_not(a):
    return None if a is None else (not a)


def run_discrete(item):
    name, spec, tier = item
    from scenic.core.distributions import RejectionException

    warnings.filterwarnings("ignore")
    out = dict(name=name, kind="discrete", violations=[], excluded=None, stats={}, sig=None)

    def viol(sig, desc):
        out["violations"].append((sig, f"[{name}] {desc}", dict(mode="discrete", name=name, spec=spec, tier=tier)))

    try:
        region, pts, member, sig = build_discrete(spec)
    except RecursionError as e:
        viol(f"crash-construct:{_spec_sig(spec)}:RecursionError", "constructing the region recursed without end")
        return out
    except Exception as e:
        viol(f"crash-construct:{_spec_sig(spec)}:{type(e).__name__}", f"constructing the region raised {type(e).__name__}: {str(e)[:200]}")
        return out
    out["sig"] = sig
    cand = {}
    for p in pts:
        cand.setdefault(_key(p), p)
    # candidates within tolerance of an operand's boundary are neither required nor forbidden
    expected, touching = set(), set()
    for kk, p in cand.items():
        m = member(p)
        if m is None:
            touching.add(kk)
        elif m:
            expected.add(kk)

    def once():
        try:
            p = region.uniformPointInner()
        except RejectionException:
            return "REJECT"
        return _key(p)

    law, n = {}, 0
    try:
        with seams.rng_seam():
            for ex, res, stats in explorer.explore(once, max_executions=200_000):
                law[res] = law.get(res, 0) + ex.weight
                n += 1
            if stats.capped:
                out["excluded"] = "execution cap"
                return out
    except OutOfFragment as e:
        out["excluded"] = f"out of fragment: {e}"
        return out
    except HarnessError:
        raise
    except Exception as e:
        viol(f"crash-sample:{sig}:{type(e).__name__}", f"uniformPointInner raised {type(e).__name__}: {str(e)[:200]}")
        return out
    if sum(law.values()) != 1:
        raise HarnessError(f"{name}: leaf weights sum to {sum(law.values())}")
    rej = law.pop("REJECT", Fraction(0))
    st = out["stats"]
    st.update(executions=n, members=len(expected), produced=len(law), reject=str(rej), candidates=len(cand), touching=len(touching))
    extra = sorted(set(law) - expected - touching)
    missing = sorted(expected - set(law))
    if extra:
        detail = "outside"
        ps = _plane_spec(spec)
        if ps is not None:
            # only the height is wrong: the planar operand contains the point once z is set to its z
            shp = build_prim(ps)[1]
            z0 = shp.carrier.z
            moved = np.array([(kk[0], kk[1], z0) for kk in extra], float)
            if any(abs(kk[2] - z0) > 1e-9 for kk in extra) and (M.classify(shp, moved, 1e-6, 1e-9) == 1).all():
                detail = "z"
        viol(f"nonmember:{sig}:{detail}", f"points {extra[:4]} are produced but are not in the composed set (members: {sorted(expected)[:6]})")
    if missing:
        viol(f"unreachable-member:{sig}", f"member points {missing[:4]} can never be produced ({len(law)} of {len(expected)} members reachable, P(reject)={rej})")
    ws = {w for kk, w in law.items() if kk in expected or kk in touching}
    if len(ws) > 1:
        viol(f"nonuniform:{sig}", f"accepted outcomes have different exact probabilities: { {str(kk): str(w) for kk, w in list(law.items())[:6]} }")
    st["uniform_weight"] = str(next(iter(ws))) if len(ws) == 1 else None
    return out


def _plane_spec(spec):
    """the first planar continuous operand of a discrete composition (for diagnostics)."""
    if spec["k"] in ("union", "intersect", "difference"):
        for s in (spec["a"], spec["b"]):
            z = _plane_spec(s)
            if z is not None:
                return z
        return None
    return spec if spec["k"] in ("circle", "sector", "rect", "polygon") else None


# =========================================================================================
# case lists
# =========================================================================================
def _c(op, a, b):
    return dict(k=op, a=a, b=b)


SQ_HOLE = [([(0, 0), (3, 0), (3, 3), (0, 3)], [[(1.1, 0.9), (2.2, 1.2), (1.9, 2.1), (0.8, 1.8)]])]
TWO_POLYS = [([(0, 0), (1.3, 0.1), (1.1, 1.2), (0.1, 1.0)], []), ([(2, 0.2), (3.1, 0), (3, 2.2), (2.2, 2)], [])]

PRIMS = {
    # three parameter sets per kind; set 0 is used by the quick tier
    "box": [
        dict(k="box", pos=(1, 1, 0.5), dims=(2.2, 2.6, 1.8), ypr=(0.3, 0.1, 0.0)),
        dict(k="box", pos=(0.5, 1.2, 0.4), dims=(3.0, 1.5, 2.0), ypr=(0, 0, 0)),
        dict(k="box", pos=(1.2, 0.8, 0.6), dims=(1.6, 2.4, 2.2), ypr=(1.0, -0.2, 0.15)),
    ],
    "spheroid": [
        dict(k="spheroid", pos=(1.2, 1.1, 0.45), dims=(2.6, 3.0, 2.2), ypr=(0, 0, 0)),
        dict(k="spheroid", pos=(1.0, 1.0, 0.5), dims=(2.0, 2.0, 2.0), ypr=(0, 0, 0)),
        dict(k="spheroid", pos=(0.8, 1.3, 0.6), dims=(3.2, 2.0, 2.4), ypr=(0.7, 0.2, 0.0)),
    ],
    "lmesh": [
        dict(k="lmesh", pos=(1.1, 0.9, 0.5), dims=(2.4, 2.4, 1.6), ypr=(0.25, 0, 0)),
        dict(k="lmesh", pos=(1, 1, 0.5), dims=None, ypr=(0, 0, 0)),
        dict(k="lmesh", pos=(0.9, 1.1, 0.4), dims=(3.0, 2.0, 2.0), ypr=(2.0, 0.1, 0.05)),
    ],
    "lsurf": [
        dict(k="lsurf", pos=(1.1, 0.9, 0.5), dims=(2.4, 2.4, 1.6), ypr=(0.25, 0, 0)),
        dict(k="boxsurf", pos=(1, 1, 0.5), dims=(2, 3, 1.5), ypr=(0, 0, 0)),
        dict(k="lsurf", pos=(0.9, 1.1, 0.4), dims=(3.0, 2.0, 2.0), ypr=(2.0, 0.1, 0.05)),
    ],
    "polygon": [
        dict(k="polygon", polys=SQ_HOLE, z=0.0),
        dict(k="polygon", polys=TWO_POLYS, z=0.0),
        dict(k="polygon", polys=[([(0, 0), (2.5, 0.3), (3, 2), (1.5, 1.2), (0.4, 2.6)], [])], z=0.0),
    ],
    "circle": [
        dict(k="circle", c=(1.1, 1.0, 0.0), r=1.3),
        dict(k="circle", c=(0.6, 1.4, 0.0), r=0.9),
        dict(k="circle", c=(1.5, 0.7, 0.0), r=1.7),
    ],
    "sector": [
        dict(k="sector", c=(0.4, 0.3, 0.0), r=2.4, heading=-0.6, angle=1.2),
        dict(k="sector", c=(1.0, 1.0, 0.0), r=1.6, heading=2.0, angle=2.4),
        dict(k="sector", c=(1.0, 1.0, 0.0), r=1.5, heading=0.3, angle=4.0),
    ],
    "rect": [
        dict(k="rect", c=(1.2, 1.1, 0.0), heading=0.4, w=2.2, l=1.4),
        dict(k="rect", c=(1.0, 1.0, 0.0), heading=0.0, w=1.0, l=2.6),
        dict(k="rect", c=(0.8, 1.3, 0.0), heading=-1.1, w=2.8, l=1.8),
    ],
    "polyline": [
        dict(k="polyline", chains=[[(-0.4, 0.2), (1.3, 0.9), (1.6, 2.7)], [(2.6, 0.15), (0.3, 2.45)]]),
        dict(k="polyline", chains=[[(0, 0), (2, 1), (2, 3)]]),
        dict(k="polyline", chains=[[(-1, 1.2), (0.5, 0.4), (1.7, 1.6), (3.2, 0.9)]]),
    ],
    "path": [
        dict(k="path", chains=[[(-0.5, 0.1, 0.0), (1.4, 1.0, 0.9), (1.7, 2.8, 0.3)], [(2.5, 0.2, 0.6), (0.2, 2.3, 0.1)]]),
        dict(k="path", chains=[[(0, 0, 0), (2, 1, 1), (2, 3, 0.5)]]),
        dict(k="path", chains=[[(-1, 1.2, 0.2), (0.5, 0.4, 0.8), (1.7, 1.6, 0.1), (3.2, 0.9, 0.7)]]),
    ],
    "voxel": [
        dict(k="voxel", n=(3, 3, 2), cut=(2, 1), pitch=0.8, origin=(0.14, 0.03, 0.22)),
        dict(k="voxel", n=(3, 3, 3), cut=(2, 1), pitch=0.8, origin=(0.0, 0.2, -0.3)),
        dict(k="voxel", n=(5, 3, 2), cut=(3, 2), pitch=0.6, origin=(-0.2, 0.1, 0.1)),
    ],
    "view": [
        dict(k="view", dist=2.2, angles=(2.6, 2.0), pos=(0.95, -0.27, 0.4), ypr=(0.2, 0.1, 0.0)),
        dict(k="view", dist=2.0, angles=(1.4, math.pi), pos=(1.0, 0.0, 0.5), ypr=(0.0, 0.0, 0.0)),
        dict(k="view", dist=1.8, angles=(math.tau, math.pi), pos=(1.0, 1.0, 0.5), ypr=(0.0, 0.0, 0.0)),
    ],
}


def _res(spec, res):
    """coarser polygonal approximation of a disc / sector inside compositions (fewer sliver
    triangles in the library's triangulation; the oracle's band follows)."""
    s = dict(spec)
    s["res"] = res
    return s


def _at_z(spec, z):
    s = dict(spec)
    if s["k"] == "polygon":
        s["z"] = z
    else:
        s["c"] = (s["c"][0], s["c"][1], z)
    return s


def continuous_cases(tier):
    P = {k: v[0] for k, v in PRIMS.items()}
    cases = []
    for kind, sets in PRIMS.items():
        for i, sp in enumerate(sets if tier == "thorough" else sets[:1]):
            cases.append((f"{kind}#{i}", sp))
    cases.append(("multipolygon@z0.5", dict(k="polygon", polys=TWO_POLYS, z=0.5)))
    cases.append(("polygon-hole@z-1.25", dict(k="polygon", polys=SQ_HOLE, z=-1.25)))
    cases.append(("circle@z0.7", _at_z(P["circle"], 0.7)))
    cases.append(("sector@z0.7", _at_z(P["sector"], 0.7)))
    cases.append(("rect@z0.7", _at_z(P["rect"], 0.7)))
    zin = 0.3137  # a height inside the solids (no lattice image of a surface falls exactly on it)
    if tier == "quick":
        P = dict(P)
        P["circle"], P["sector"] = _res(P["circle"], 6), _res(P["sector"], 6)
        circ1 = _res(PRIMS["circle"][1], 6)
    else:
        circ1 = PRIMS["circle"][1]
    comps = [
        ("box&spheroid", _c("intersect", P["box"], P["spheroid"])),
        ("box|lmesh", _c("union", P["box"], P["lmesh"])),
        ("box-spheroid", _c("difference", P["box"], dict(k="spheroid", pos=(2.0, 2.1, 1.3), dims=(2.4, 2.4, 2.4), ypr=(0, 0, 0)))),
        ("circle&rect", _c("intersect", P["circle"], P["rect"])),
        ("rect|sector", _c("union", P["rect"], P["sector"])),
        ("polygon-circle", _c("difference", P["polygon"], circ1)),
        ("polygon&wide-sector", _c("intersect", PRIMS["polygon"][2], _res(PRIMS["sector"][2], 6))),
        ("voxel&polyline", _c("intersect", P["voxel"], P["polyline"])),
        ("lmesh&circle@z", _c("intersect", P["lmesh"], _at_z(P["circle"], zin))),
        ("box&polyline", _c("intersect", PRIMS["box"][1], P["polyline"])),
        ("spheroid&path", _c("intersect", P["spheroid"], P["path"])),
        ("box&lsurf", _c("intersect", PRIMS["box"][1], P["lsurf"])),
        ("lsurf-box", _c("difference", P["lsurf"], PRIMS["box"][1])),
        ("voxel|box", _c("union", P["voxel"], PRIMS["box"][1])),
        ("spheroid&voxel", _c("intersect", P["spheroid"], P["voxel"])),
        ("voxel-box", _c("difference", P["voxel"], PRIMS["box"][2])),
        ("visible:box&view", _c("intersect", P["box"], P["view"])),
        ("visible:polygon&view", _c("intersect", _at_z(P["polygon"], zin), P["view"])),
        ("polygon@0|polygon@0.5", _c("union", P["polygon"], dict(k="polygon", polys=TWO_POLYS, z=0.5))),
        ("lsurf|polygon", _c("union", P["lsurf"], _at_z(P["polygon"], -0.9))),
        # planar regions at a common height z != 0
        ("circle&rect@z0.7", _c("intersect", _at_z(P["circle"], 0.7), _at_z(P["rect"], 0.7))),
        ("rect|sector@z0.7", _c("union", _at_z(P["rect"], 0.7), _at_z(P["sector"], 0.7))),
        ("polygon-circle@z0.7", _c("difference", _at_z(P["polygon"], 0.7), _at_z(circ1, 0.7))),
        ("polygon@z0.7-polyline", _c("difference", _at_z(P["polygon"], 0.7), P["polyline"])),
    ]
    cases += comps
    if tier == "thorough":
        # every ordered pair of kinds under every operation; the parameter sets rotate with the
        # pair so that all three sets of every kind take part
        kinds = list(PRIMS)
        planar = ("polygon", "circle", "sector", "rect")
        for op in ("intersect", "union", "difference"):
            for ia, a in enumerate(kinds):
                for ib, b in enumerate(kinds):
                    if a == b:
                        continue
                    i, j = (ia + ib) % 3, (ia + 2 * ib + 1) % 3
                    sa, sb = PRIMS[a][i], PRIMS[b][j]
                    if a in ("circle", "sector"):
                        sa = _res(sa, 8)
                    if b in ("circle", "sector"):
                        sb = _res(sb, 8)
                    if a in planar and b not in planar and b != "polyline":
                        sa = _at_z(sa, zin)
                    if b in planar and a not in planar and a != "polyline":
                        sb = _at_z(sb, zin)
                    cases.append((f"{op}:{a}#{i},{b}#{j}", _c(op, sa, sb)))
    return cases


# ------------------------------------------------------------------------------------------
# history: compositions whose operand objects have already served other operations
# ------------------------------------------------------------------------------------------
FP_POLY = [([(-0.6, -0.7), (1.15, -0.8), (0.85, 2.7), (-0.7, 2.5)], [])]  # covers about half of the mesh
HBOX_DIMS, HBOX_Z0 = (2.2, 2.6, 1.8), 0.5


def _hbox(z, kind="box"):
    if kind == "lmesh":
        return dict(k="lmesh", pos=(1.0, 1.0, z), dims=HBOX_DIMS, ypr=(0.3, 0, 0))
    return dict(k="box", pos=(1.0, 1.0, z), dims=HBOX_DIMS, ypr=(0.3, 0, 0))


def _slab_placements():
    """Heights for partner meshes relative to the bounded prism a footprint caches when it first
    meets the mesh at HBOX_Z0.  approxBoundFootprint is asked for the mesh's z-range plus 1 and
    caches a prism 100 * max(1, centre) times as tall around the centre (used for placement
    only; what the compositions must be is decided by the oracle)."""
    h = HBOX_DIMS[2] + 1
    half = 100 * max(1, HBOX_Z0) * h / 2
    return {
        "base": HBOX_Z0,
        "low": HBOX_Z0 - half / 2,
        "high": HBOX_Z0 + half / 2,
        "top": HBOX_Z0 + half,  # straddles the top of the cached prism
        "bottom": HBOX_Z0 - half,  # straddles the bottom
        "far": HBOX_Z0 - half - 2 * half + 20.5,  # entirely below it
    }


def history_cases(tier):
    """Model-checking style: the composition is built from a footprint object that is not in its
    initial state.  All sequences of <= 2 (quick: <= 1) prior mesh operations with the partner
    mesh low / high / straddling top / straddling bottom / far relative to the cached prism, then
    mesh & footprint or mesh - footprint with the SAME footprint object and the mesh at each of
    these heights."""
    place = _slab_placements()
    names = list(place)
    seqs = [()] + [(a,) for a in names]
    if tier == "thorough":
        seqs += [(a, b) for a in names for b in names]
    small = {"quick": dict(N=6, G=2, q=6, Gs=6, qs=2, own=40), "thorough": dict(N=12, G=4, q=6, Gs=12, qs=2, own=100)}
    cases = []
    n = 0
    h = HBOX_DIMS[2] + 1
    for si, seq in enumerate(seqs):
        finals = [(nm, place[nm]) for nm in names]
        if seq:
            # also straddling the bottom / top of the prism the LAST partner would cache
            c = place[seq[-1]]
            half = 100 * max(1, c) * h / 2
            finals += [("last-bottom", c - half), ("last-top", c + half)]
        for fi, (fin, zfin) in enumerate(finals):
            ops = ("intersect", "difference") if tier == "thorough" else (("intersect", "difference")[(si + fi) % 2],)
            for op in ops:
                via = "polygon" if n % 3 == 2 else "direct"
                kind = "lmesh" if (tier == "thorough" and n % 5 == 4) else "box"
                pre = [dict(op=("intersect", "difference")[(i + n) % 2], a=_hbox(place[pl]), b=dict(k="ref", name="fp")) for i, pl in enumerate(seq)]
                spec = dict(
                    k="history",
                    objects={"fp": dict(k="footprint", polys=FP_POLY, via=via)},
                    pre=pre,
                    body=_c(op, _hbox(zfin, kind), dict(k="ref", name="fp")),
                    params=small,
                )
                cases.append((f"history:{'>'.join(seq) or 'none'}=>{op}@{fin}", spec))
                n += 1
    # other objects with internal state: operands that have already been sliced, tested for
    # containment, converted or intersected before the sampled composition is built
    P = {k: v[0] for k, v in PRIMS.items()}
    ref = lambda nm: dict(k="ref", name=nm)
    extra = [
        (
            "history:box-sliced-and-queried=>box&lsurf",
            dict(
                k="history",
                objects={"box": PRIMS["box"][1], "surf": P["lsurf"]},
                pre=[
                    dict(op="containsPoint", a=ref("box"), point=(0.5, 1.2, 0.4)),
                    dict(op="intersect", a=ref("box"), b=_at_z(P["circle"], 0.3137)),
                    dict(op="intersects", a=ref("box"), b=P["spheroid"]),
                    dict(op="attr", a=ref("surf"), name="boundingPolygon"),
                    dict(op="distanceTo", a=ref("surf"), point=(0.1, 0.2, 0.3)),
                ],
                body=_c("intersect", ref("box"), ref("surf")),
            ),
        ),
        (
            "history:polygon-sampled-data-and-footprint=>polygon-circle",
            dict(
                k="history",
                objects={"poly": P["polygon"], "circ": _res(PRIMS["circle"][1], 6)},
                pre=[
                    dict(op="attr", a=ref("poly"), name="_samplingData"),
                    dict(op="attr", a=ref("poly"), name="footprint"),
                    dict(op="intersect", a=ref("poly"), b=P["rect"]),
                    dict(op="containsPoint", a=ref("circ"), point=(0.6, 1.4, 0.0)),
                ],
                body=_c("difference", ref("poly"), ref("circ")),
            ),
        ),
        (
            "history:voxel-kdtree-and-mesh=>spheroid&voxel",
            dict(
                k="history",
                objects={"vox": P["voxel"], "sph": P["spheroid"]},
                pre=[
                    dict(op="containsPoint", a=ref("vox"), point=(0.5, 0.5, 0.5)),
                    dict(op="attr", a=ref("vox"), name="kdTree"),
                    dict(op="attr", a=ref("sph"), name="num_samples"),
                    dict(op="difference", a=ref("sph"), b=PRIMS["box"][1]),
                ],
                body=_c("intersect", ref("sph"), ref("vox")),
            ),
        ),
    ]
    return cases + (extra if tier == "thorough" else extra[1:2])


PS_A = [
    (0.2, 0.3, 0.0),
    (1.0, 1.1, 0.0),
    (1.9, 0.8, 0.0),
    (1.1, 2.2, 0.0),
    (0.9, 1.2, 0.6),
    (1.4, 0.7, 0.3),
    (2.6, 2.7, 0.0),
    (-0.7, 0.4, 0.0),
    (5.0, 5.0, 5.0),
    (1.3, 1.6, 0.0),
    (0.35, 1.9, 0.0),
]
# for intersections / differences with the grid: grid points, obstacle cells, outside
PS_G = [(0.13, 0.07, 0.0), (0.93, 0.97, 0.0), (1.0, 0.1, 0.0), (1.75, 1.0, 0.0), (5.0, 5.0, 0.0), (-1.0, 0.3, 0.0), (2.53, 1.87, 0.0)]
PS_B = [(1.0, 1.1, 0.0), (1.9, 0.8, 0.0), (3.3, 0.2, 0.0), (0.9, 1.2, 0.6), (-2.0, 1.0, 0.0)]
GRID = dict(k="grid", grid=[[0, 1, 0, 0], [0, 0, 1, 0], [1, 0, 0, 0]], Ax=0.8, Ay=0.9, Bx=0.13, By=0.07)


def discrete_cases(tier):
    ps = dict(k="pointset", pts=PS_A)
    pb = dict(k="pointset", pts=PS_B, name="psb")
    P = {k: v[0] for k, v in PRIMS.items()}
    others = dict(P)
    others["multipolygon@z0.6"] = dict(k="polygon", polys=SQ_HOLE, z=0.6)
    cases = [("pointset", ps), ("grid", GRID)]
    sets = [0] if tier == "quick" else [0, 1, 2]
    for kind in PRIMS:
        for i in sets:
            sp = PRIMS[kind][i]
            cases.append((f"pointset&{kind}#{i}", _c("intersect", ps, sp)))
            cases.append((f"{kind}#{i}&pointset", _c("intersect", sp, ps)))
            cases.append((f"grid&{kind}#{i}", _c("intersect", GRID, sp)))
            cases.append((f"pointset-{kind}#{i}", _c("difference", ps, sp)))
            if tier == "thorough":
                cases.append((f"{kind}#{i}&grid", _c("intersect", sp, GRID)))
                cases.append((f"grid-{kind}#{i}", _c("difference", GRID, sp)))
    cases += [
        ("pointset&pointset", _c("intersect", ps, pb)),
        ("pointset&grid", _c("intersect", dict(k="pointset", pts=PS_G), GRID)),
        ("grid&pointset", _c("intersect", GRID, dict(k="pointset", pts=PS_G))),
        ("pointset|pointset", _c("union", ps, pb)),
        ("pointset|grid", _c("union", ps, GRID)),
        ("grid|pointset", _c("union", GRID, pb)),
        ("pointset-pointset", _c("difference", ps, pb)),
        ("pointset-grid", _c("difference", dict(k="pointset", pts=PS_G), GRID)),
        ("grid-pointset", _c("difference", GRID, dict(k="pointset", pts=[(0.13, 0.07, 0.0), (0.93, 0.97, 0.0), (7, 7, 0)]))),
        ("pointset&boxsurf", _c("intersect", dict(k="pointset", pts=[(0.5, 0.7, 1.25), (2.0, 1.3, 0.4), (1.0, 1.0, 0.5), (1.2, -0.5, 0.1), (1.1, 0.9, 1.0), (3.0, 1.0, 0.5)]), PRIMS["lsurf"][1])),
        ("pointset&polygon@z0.6", _c("intersect", ps, others["multipolygon@z0.6"])),
    ]
    return cases


def _run_item(item):
    mode, name, spec, tier = item
    t0, c0 = time.time(), time.process_time()
    r = run_discrete((name, spec, tier)) if mode == "discrete" else run_continuous((name, spec, tier))
    r["wall"] = round(time.time() - t0, 2)
    r["cpu"] = round(time.process_time() - c0, 2)
    r["mode"] = mode
    return r


def run(ctx):
    import scenic  # noqa: F401  (warm)
    import trimesh  # noqa: F401

    seams.rng_selftest()
    seam_selftest()
    tier = ctx.tier
    items = [("continuous", n, s, tier) for n, s in continuous_cases(tier)]
    items += [("continuous", n, s, tier) for n, s in history_cases(tier)]
    items += [("discrete", n, s, tier) for n, s in discrete_cases(tier)]
    # heavy (3-D) first so that the pool drains evenly; VERIF_SEED rotates the order
    items = ctx.rotate(items)
    tot = dict(leaves=0, discrete_exec=0, touching=0, cells=0, density=0, support=0, own=0, members=0)
    excluded, nontrivial, samples, widths, spreads = [], 0, [], [], []
    judged_cases = 0
    cache = dict(fresh=0, reused=0, replaced=0, history_cases=0)
    per_kind = {}
    slow = []
    for r in ctx.pmap(_run_item, items, chunksize=1):
        st = r["stats"]
        for sig, desc, case in r["violations"]:
            ctx.violation(sig, desc, case)
        if r.get("capped"):
            ctx.capped = True
        if r["excluded"]:
            excluded.append(f"{r['name']}: {r['excluded']}")
            continue
        slow.append((r["cpu"], r["name"]))
        tot["cpu"] = tot.get("cpu", 0.0) + r["cpu"]
        if r["mode"] == "discrete":
            tot["discrete_exec"] += st.get("executions", 0)
            tot["members"] += st.get("members", 0)
            tot["touching"] += st.get("touching", 0)
            if st.get("members", 0) >= 2 and st.get("candidates", 0) > st.get("members", 0):
                nontrivial += 1
            if st.get("executions"):
                judged_cases += 1
        else:
            if "cache_events" in st:
                cache["history_cases"] += 1
                for ev in st["cache_events"]:
                    cache[ev] += 1
            tot["leaves"] += st.get("leaves", 0)
            tot["touching"] += st.get("touching", 0)
            tot["cells"] += st.get("judged", 0) or 0
            tot["density"] += st.get("density_judged", 0) or 0
            tot["support"] += st.get("support_tested", 0) or 0
            tot["own"] += st.get("own_contains_checked", 0) or 0
            if st.get("empty_agree"):
                tot["empty_agree"] = tot.get("empty_agree", 0) + 1
            elif not r["violations"]:
                if not st.get("judged") and not st.get("density_judged"):
                    raise HarnessError(f"vacuous case {r['name']}: no cell and no density box judged")
                judged_cases += 1
                if st.get("width") is not None:
                    widths.append(st["width"])
                if st.get("density_spread") is not None:
                    spreads.append(st["density_spread"])
            oc = st.get("outcomes", {})
            if (st.get("branches", 1) or 1) >= 2 or (oc.get("REJECT", 0) + oc.get("CUT", 0) + oc.get("RETRY", 0) > 0 and oc.get("POINT", 0) > 0):
                nontrivial += 1
        if r["sig"]:
            per_kind[r["sig"]] = per_kind.get(r["sig"], 0) + 1
        if len(samples) < 6 and r["mode"] == "continuous" and st.get("leaves"):
            samples.append(dict(case=r["name"], library=r["sig"], N=st.get("N"), lattice_images=st["leaves"], outcomes=st.get("outcomes"), branches=st.get("branches"), cells_judged=st.get("judged"), bracket_width=st.get("width"), density_boxes=st.get("density_judged"), density_spread=st.get("density_spread"), support_cells=st.get("support_tested")))
        elif len(samples) < 9 and r["mode"] == "discrete" and st.get("executions"):
            samples.append(dict(case=r["name"], library=r["sig"], executions=st["executions"], members=st["members"], reject=st["reject"], weight=st.get("uniform_weight")))
    if tot["leaves"] == 0 or tot["discrete_exec"] == 0 or tot["density"] == 0 or tot["cells"] == 0:
        raise HarnessError(f"vacuous run: {tot}")
    if nontrivial < 2:
        raise HarnessError("vacuous run: no sampler with branches or rejection")
    if cache["reused"] == 0 or cache["replaced"] == 0 or cache["fresh"] == 0:
        raise HarnessError(f"vacuous history family: footprint cache events of the sampled compositions {cache}")
    par = TIER[tier]
    ctx.cov.update(
        evaluations=tot["leaves"] + tot["discrete_exec"],
        distinct_nontrivial=nontrivial,
        rule="cases = region kinds x parameter sets and their pairwise compositions (tier list); each case: every RNG outcome of "
        "uniformPointInner (discrete: exact law; continuous: complete N^k midpoint lattice x every discrete branch with exact weight, one "
        "attempt). history family: the same footprint object first serves every sequence of <=2 (quick <=1) mesh operations with the partner "
        "low / high / straddling top / straddling bottom / far relative to its cached prism, then the sampled composition is built from it. "
        "non-trivial = sampler with >=2 discrete branches or with rejection / retry, or discrete composition that removes points",
        samples=samples,
        cases=len(items),
        cases_judged=judged_cases,
        lattice_images=tot["leaves"],
        discrete_executions=tot["discrete_exec"],
        cells_judged=tot["cells"],
        density_boxes_judged=tot["density"],
        support_cells_judged=tot["support"],
        own_containsPoint_calls=tot["own"],
        skipped_touching=tot["touching"],
        empty_compositions_agreed=tot.get("empty_agree", 0),
        history_footprint_cache=cache,
        excluded=excluded[:60],
        excluded_count=len(excluded),
        library_region_kinds=per_kind,
        bracket_width_median=float(np.median(widths)) if widths else None,
        bracket_width_max=float(np.max(widths)) if widths else None,
        density_spread_max=float(np.max(spreads)) if spreads else None,
        slowest_cpu_s=sorted(slow, reverse=True)[:5],
        cpu_total_s=round(tot.get("cpu", 0.0), 1),
        bounds=dict(
            lattice_N=par["N"],
            cells_per_axis=par["G"],
            support_cells_per_axis=par["Gs"],
            quadrature_pieces_per_cell_axis=par["q"],
            interval_test="violation iff lo_obs(c)/A_hi > hi_exp(c)/mu_lo or hi_obs(c)/A_lo < lo_exp(c)/mu_hi; a lattice box counts to lo_obs only "
            "if its image box (centre image +/- sum_i |secant_i| * half step_i, x1.1 for non-affine inputs) lies inside the cell and all 3^k-1 "
            "surrounding boxes have the same outcome probabilities; cut boxes and rejected boxes next to accepted ones count fully to hi_obs",
            density_test=f"sum over covering parallelotopes of mass/volume must agree within (1+tau)/(1-tau), tau={DENSITY_TAU} (second-order "
            "finite-difference error of the Jacobian), and with P(accept)/measure; retry branches carry [1/(1-r_lo), 1/(1-r_hi)]",
            membership_eps="1e-7 x extent + polyhedral band (spheroid 0.48% of the largest semi-axis, disc r(1-cos(pi/128)), view cone 0.3% of the distance)",
            curvature_slack=CURV_SLACK,
        ),
    )
    ctx.assumptions += [
        "one attempt per execution: a RejectionException restarts the whole sample, so the law conditional on acceptance is judged; a retry "
        "loop inside one primitive sampler keeps its discrete branch and is renormalised per branch",
        "uniformity of continuous samplers is established for the pushforward of the N^k lattice up to the stated interval / density bounds, "
        "not for all real-valued draws",
        "a lattice box whose outcome differs from no surrounding box is not cut by an acceptance boundary (features thinner than one lattice "
        "step are not resolved); the case list avoids such features",
        "trimesh.sample.volume_mesh / sample_surface and VoxelRegion draw through numpy.random.random / random_sample (checked by seam_selftest); "
        "trimesh's retry direction for ambiguous containment rays is fixed",
        "MeshVolumeRegion.uniformPointInner is given one candidate per call; its internal failure is treated as a retry within the same "
        "discrete branch (the library draws >= 8 candidates sized for 99% success: the residual <= 1% under-weighting of a mesh operand in a "
        "generic union, where the failure rejects the whole sample, is not resolved)",
        "CPython's random.choices / randrange / choice reduce to the primitives intercepted (rng_selftest)",
    ]


def replay(ctx, case):
    warnings.filterwarnings("ignore")
    import scenic  # noqa: F401

    r = _run_item((case["mode"], case["name"], case["spec"], case["tier"]))
    for sig, desc, c in r["violations"]:
        ctx.violation(sig, desc, c)
