"""C15 — same program, options and seed give identical scenes and runs, every time.

The random generators run for real with FIXED seeds; what is explored is everything else
that can vary between process instances:
  * every iteration order of the identity-hashed dependency sets (SetOrderSeam: any order
    is a possible memory layout),
  * every ordering of requirement checks the time-weighted checker can choose
    (ClockSeam, deviation bounded),
  * every number 0..H of previously generated scenes (checker statistics as history),
  * plus a finite list of real fresh processes with different PYTHONHASHSEED values.
Oracle (differential): for one (program, seed) all explored executions return bit-identical
scenes (every object property and parameter, repr of floats), iteration counts and simulation
results, and leave random / numpy.random in the same state.
"""

import hashlib
import itertools
import json
import os
import random
import re
import subprocess
import sys

import numpy

from mc import dyn, explorer, seams
from mc.explorer import HarnessError

ID = "C15"
LEVEL = "exploration"

_ADDR = re.compile(r" at 0x[0-9a-f]+")

PROGRAMS = {
    "two-req-only": """
x = Range(0, 1)
y = Range(0, 1)
ego = new Object at (Range(0, 1), 0, 0), with allowCollisions True
param p = Range(0, 1)
require x < 0.6
require y > 0.3
""",
    "three-req-only": """
a = Range(0, 1)
b = Range(0, 1)
c = Range(0, 1)
ego = new Object at (0, 0, 0), with foo Range(0, 1), with allowCollisions True
param p = DiscreteRange(1, 100)
require a + 2 * b < 1.8
require c > 0.25
""",
    "four-req-only": """
a = Range(0, 1)
b = Range(0, 1)
c = Range(0, 1)
d = Range(0, 1)
ego = new Object at (0, 0, 0), with allowCollisions True
other = new Object at (5, Range(0, 1), 0), with allowCollisions True
require a < b + 0.5
require c + d > 0.4
""",
    "soft-and-hard": """
a = Range(0, 1)
b = Uniform(1, 2, 3)
ego = new Object at (Range(0, 1), Range(0, 1), 0), with allowCollisions True
param q = Normal(0, 1)
require[0.5] a < 0.5
require b != 2
""",
    "geometry": """
import trimesh
m = trimesh.util.concatenate([trimesh.creation.box((6, 2, 2)), trimesh.creation.box((2, 6, 2)).apply_translation((2, 2, 0))])
r = MeshVolumeRegion(m, dimensions=(8, 8, 2))
workspace = Workspace(r)
u = Range(0, 1)
ego = new Object in r, with width 0.5, with length 0.5, with height 0.5
ob = new Object in r, with width 0.5, with length 0.5, with height 0.5
require u < 0.7
""",
    "dynamic": """
import verif_probe as probe
k = DiscreteRange(1, 5)
w = Range(0, 1)
behavior B():
    take probe.Act(k)
    take probe.Act(Uniform("l", "r"))
    take probe.Act(w)
monitor M():
    require w < 0.9
    wait
ego = new Object at (0, 0, 0), with name "A1", with behavior B(), with allowCollisions True
require monitor M()
require k != 3
terminate after 3 steps
""",
}

PROGRAMS["behavior-only-globals"] = """
import verif_probe as probe
a = Range(0, 1)
b = Range(10, 11)
c = DiscreteRange(20, 29)
behavior B():
    take probe.Act(a)
    take probe.Act(b)
    take probe.Act(c)
ego = new Object at (0, 0, 0), with name "A1", with behavior B(), with allowCollisions True
terminate after 3 steps
"""

# specifiers and class defaults depending on several random properties of the same object
# that are resolved later: the order in which those dependencies are visited decides the
# order of the random draws
PROGRAMS["multi-dependency-defaults"] = """
class Crate:
    a: Range(1, 2)
    b: Range(1, 2)
    c: Range(1, 2)
    width: self.a + 0.1 * self.b
    length: self.b + 0.1 * self.c + 0.01 * self.a

class Pallet(Crate):
    load: 100 * self.a * self.b + 10 * self.c

ego = new Pallet at (0, 0, 0), with allowCollisions True
other = new Pallet at (Range(4, 8), Range(-3, 3), 0), with allowCollisions True
require other.load > ego.load - 150
"""

# geometry work triggered *while the scene is being sampled* (outside the window in which the
# random state is saved and restored around requirement checking): a non-convex shape whose
# bounding-box centre lies outside the mesh needs a search for an interior point the first time
# `intersects` is asked; that search must not draw from the user-visible generators, and its
# cached result must not make later scenes differ from the first one
PROGRAMS["nonconvex-shape-query"] = """
import trimesh
workspace = Workspace(BoxRegion(dimensions=(30, 30, 30)))
ringShape = MeshShape(trimesh.creation.annulus(r_min=0.6, r_max=1.0, height=0.5))
ring = new Object at (Range(-0.01, 0.01), 0, 0), with shape ringShape
peg = new Object at (0, 0, 0), with width 0.2, with length 0.2, with height 0.2
ego = new Object in workspace, with pegTouchesRing (ring intersects peg)
other = new Object in workspace
param x = Range(0, 1)
"""

SEEDS = (1, 2)


def dump_scene(scene, iterations):
    objs = []
    for o in scene.objects:
        props = {}
        for p in sorted(o.properties):
            if p.startswith("_"):
                continue
            try:
                props[p] = _ADDR.sub("", repr(getattr(o, p)))
            except Exception as e:  # noqa: BLE001
                props[p] = f"<{type(e).__name__}>"
        objs.append(props)
    return {"objects": objs, "params": {k: _ADDR.sub("", repr(v)) for k, v in sorted(scene.params.items())}, "iterations": iterations}


def rng_state_digest():
    return hashlib.sha1(repr(random.getstate()).encode() + numpy.random.get_state()[1].tobytes()).hexdigest()[:16]


def one_run(scenario, seed, history, name):
    """history scenes with other seeds, then the scene for `seed`; returns a JSON-able dump."""
    for h in range(history):
        random.seed(1000 + h)
        numpy.random.seed(1000 + h)
        scenario.generate(maxIterations=200)
    random.seed(seed)
    numpy.random.seed(seed)
    scene, its = scenario.generate(maxIterations=200)
    d = dump_scene(scene, its)
    d["rng_after"] = rng_state_digest()
    if name in ("dynamic", "behavior-only-globals"):
        res = dyn.simulate(scene, maxSteps=5, timestep=1)
        d["sim"] = (list(res["outcome"]), [repr(e) for e in dyn.normalize_log(res["log"])])
        d["rng_after_sim"] = rng_state_digest()
    return d


def digest(d):
    return hashlib.sha1(json.dumps(d, sort_keys=True).encode()).hexdigest()[:16]


def first_diff(a, b):
    for k in a:
        if a[k] != b.get(k):
            if k == "objects":
                for i, (x, y) in enumerate(zip(a[k], b[k])):
                    for p in x:
                        if x[p] != y.get(p):
                            return f"object {i} property {p}: {x[p]} vs {y.get(p)}"
            if k == "params":
                for p in a[k]:
                    if a[k][p] != b[k].get(p):
                        return f"param {p}: {a[k][p]} vs {b[k].get(p)}"
            return f"{k}: {a[k]} vs {b.get(k)}"
    return "?"


# -- set-order exploration --------------------------------------------------------------------


WIDE_MODULES = (
    "scenic.core.requirements",
    "scenic.core.dynamics.scenarios",
    "scenic.core.scenarios",
    "scenic.core.specifiers",
    "scenic.core.object_types",
    "scenic.core.lazy_eval",
)


def _order_alphabet(n):
    """Iteration orders offered for a set of n elements: all n! up to 3 elements, then
    identity / reversed / rotated (keeps the tree finite for the 40-odd property names)."""
    if n <= 3:
        return list(itertools.permutations(range(n)))
    return [tuple(range(n)), tuple(reversed(range(n))), tuple(range(1, n)) + (0,)]


def compile_with_set_order(text, chooser, wide=False, run=None):
    """Compile (and, if run is given, run(scenario)) under SetOrderSeam; chooser(n) -> index.

    wide: the names `set` and `frozenset` are also replaced in the specifier-resolution
    modules.  Sets of strings there get ONE order per distinct element set and execution
    (in a real process their order is a function of the strings' hashes, i.e. of
    PYTHONHASHSEED), sets of identity-hashed objects one order per iteration.
    """
    perms_cache = {}
    memo = {}

    def perm_source(n, items):
        if n not in perms_cache:
            perms_cache[n] = _order_alphabet(n) if wide else list(itertools.permutations(range(n)))
        if wide and all(isinstance(x, str) for x in items):
            key = tuple(sorted(items))
            if key not in memo:
                memo[key] = {x: i for i, x in enumerate(items[j] for j in perms_cache[n][chooser(len(perms_cache[n]))])}
            rank = memo[key]
            return tuple(sorted(range(n), key=lambda j: rank[items[j]]))
        return perms_cache[n][chooser(len(perms_cache[n]))]

    kw = dict(modules=WIDE_MODULES, names=("set", "frozenset")) if wide else {}
    with seams.set_order_seam(perm_source, **kw):
        import scenic

        sc = scenic.scenarioFromString(text)
        if run is None:
            return sc
        return run(sc)


def explore_set_orders(text, seed, name, cap, wide=False, bound=None):
    """All iteration orders of all injected sets (complete tree unless capped)."""
    results = {}
    n_exec = 0
    multi = 0

    def once():
        if wide:
            return compile_with_set_order(text, lambda n: explorer.choose(n, tag="setorder"), wide=True, run=lambda sc: one_run(sc, seed, 0, name))
        sc = compile_with_set_order(text, lambda n: explorer.choose(n, tag="setorder"))
        return one_run(sc, seed, 0, name)

    capped = False
    for ex, d, st in explorer.explore(once, bound=bound, max_executions=cap):
        n_exec += 1
        if len(ex.points) > 0:
            multi += 1
        results.setdefault(digest(d), (d, list(ex.choices)))
    if st.capped:
        capped = True
    return results, n_exec, multi, capped


def explore_clock_orders(scenario, seed, name, bound, history):
    results = {}
    n_exec = 0
    orders = set()

    def once():
        # a fresh checker: its timing/acceptance buffers are the history being explored
        from scenic.core.sample_checking import WeightedAcceptanceChecker

        scenario.setSampleChecker(WeightedAcceptanceChecker(bufferSize=100))
        clock = seams.ScriptedClock(alphabet=(1.0, 16.0))
        with seams.clock_seam(clock):
            d = one_run(scenario, seed, history, name)
        return d, tuple(clock.durations)

    for ex, (d, durs), st in explorer.explore(once, bound=bound, max_executions=(120 if name == "geometry" and bound <= 2 else 1500)):
        n_exec += 1
        orders.add(durs)
        results.setdefault(digest(d), (d, list(ex.choices)))
    return results, n_exec, len(orders), st.capped


def check_program(item):
    name, tier = item
    text = PROGRAMS[name]
    out = {"name": name, "runs": 0, "violations": [], "set_execs": 0, "set_multi": 0, "wide_execs": 0, "wide_multi": 0, "clock_orders": 0, "capped": False}
    import scenic

    for seed in SEEDS if tier == "thorough" else SEEDS[:1]:
        dyn.veneer_dirt(reset=True)
        base_sc = scenic.scenarioFromString(text)
        ref = one_run(base_sc, seed, 0, name)
        refd = digest(ref)
        out["runs"] += 1
        # (1) set iteration orders
        res, n, multi, capped = explore_set_orders(text, seed, name, 200 if tier == "quick" else 2000)
        out["set_execs"] += n
        out["set_multi"] += multi
        out["runs"] += n
        out["capped"] |= capped
        others = [k for k in res if k != refd]
        if others:
            d, choices = res[others[0]]
            out["violations"].append(
                ("set-order-dependence", f"program {name}, seed {seed}: {len(res)} distinct results over {n} iteration orders of the requirement-dependency sets; e.g. {first_diff(ref, d)}", {"name": name, "seed": seed, "kind": "set", "choices": choices})
            )
        # (1b) iteration orders of the sets of property names used while resolving specifiers
        res, n, multi, capped = explore_set_orders(text, seed, name, 600 if tier == "quick" else 6000, wide=True, bound=2 if tier == "quick" else None)
        out["wide_execs"] += n
        out["wide_multi"] += multi
        out["runs"] += n
        out["capped"] |= capped
        others = [k for k in res if k != refd]
        if others:
            d, choices = res[others[0]]
            out["violations"].append(
                ("set-order-dependence:property-name-sets", f"program {name}, seed {seed}: {len(res)} distinct results over {n} assignments of iteration orders to the sets of property names used in specifier resolution (the order of a set of strings depends on PYTHONHASHSEED); e.g. {first_diff(ref, d)}", {"name": name, "seed": seed, "kind": "wideset", "choices": choices})
            )
        # (1c) the same scenario object asked twice with the same seeds (and the default clock):
        # state carried from one generate() call to the next must not change the result
        sc2 = scenic.scenarioFromString(text)
        again = [one_run(sc2, seed, 0, name) for _ in range(3)]
        out["runs"] += 3
        for j, d in enumerate(again):
            if digest(d) != refd:
                out["violations"].append(
                    ("history-dependence:same-scenario-rerun", f"program {name}, seed {seed}: call #{j + 1} of generate() on one scenario object (same seeds each time) differs from the first call on a fresh scenario: {first_diff(ref, d)}", {"name": name, "seed": seed, "kind": "rerun"})
                )
                break
        if any(v[0].startswith("history-dependence:same-scenario-rerun") for v in out["violations"]):
            # the explorations below replay prefixes on one scenario object and would only
            # report the same defect as a replay divergence
            continue
        # (2) requirement-check orderings x history
        for history in range(0, 4 if tier == "thorough" else 3):
            sc = scenic.scenarioFromString(text)
            res, n, norders, capped = explore_clock_orders(sc, seed, name, 2 if tier == "quick" else 3, history)
            out["runs"] += n
            out["clock_orders"] += norders
            out["capped"] |= capped
            others = [k for k in res if k != refd]
            if others:
                d, choices = res[others[0]]
                kind = "history-dependence" if history and len(res) == 1 else "check-order-dependence"
                out["violations"].append(
                    (kind, f"program {name}, seed {seed}, {history} scenes generated before: result differs from the first scene of a fresh scenario: {first_diff(ref, d)}", {"name": name, "seed": seed, "kind": "clock", "history": history, "choices": choices})
                )
    return out


# -- real fresh processes ---------------------------------------------------------------------------

WITNESS = "\n".join(f"v{i} = Range(0, 1)" for i in range(16)) + """
ego = new Object at (Range(0, 1), 0, 0), with allowCollisions True
param p = Range(0, 1)
""" + "\n".join(f"require v{i} < 0.97" for i in range(16)) + "\n"

CHILD = r"""
import sys, json, random, numpy
sys.path.insert(0, %r)
from checks import c15
import scenic
text = c15.WITNESS if sys.argv[1] == "witness" else c15.PROGRAMS[sys.argv[1]]
sc = scenic.scenarioFromString(text)
print("DUMP" + json.dumps(c15.one_run(sc, int(sys.argv[2]), 0, sys.argv[1])))
"""


def fresh_process(args):
    name, seed, hashseed = args
    env = dict(os.environ, PYTHONHASHSEED=str(hashseed))
    r = subprocess.run([sys.executable, "-c", CHILD % str(dyn.pathlib.Path(__file__).resolve().parent.parent), name, str(seed)], capture_output=True, text=True, env=env, timeout=600)
    for line in r.stdout.splitlines():
        if line.startswith("DUMP"):
            return name, seed, hashseed, json.loads(line[4:])
    return name, seed, hashseed, {"error": r.stderr[-400:]}


def run(ctx):
    names = list(PROGRAMS)
    items = ctx.rotate([(n, ctx.tier) for n in names])
    tot = {"runs": 0, "set_execs": 0, "set_multi": 0, "wide_execs": 0, "wide_multi": 0, "clock_orders": 0}
    for r in ctx.pmap(check_program, items, chunksize=1):
        for k in tot:
            tot[k] += r[k]
        if r["capped"]:
            ctx.capped = True
        for sig, desc, case in r["violations"]:
            ctx.violation(sig, desc + "\n" + PROGRAMS[r["name"]], case)
    ctx.notes.append(f"in-process exploration finished after {ctx.elapsed():.0f}s")
    # real processes (finite list, run completely): PYTHONHASHSEED x program
    hs = (0, 1, 2, 3) if ctx.tier == "quick" else tuple(range(8))
    jobs = [(n, 1, h) for n in (["witness", "multi-dependency-defaults"] if ctx.tier == "quick" else ["witness"] + names) for h in hs]
    groups = {}
    for name, seed, h, d in ctx.pmap(fresh_process, jobs, chunksize=1):
        tot["runs"] += 1
        if "error" in d:
            raise HarnessError(f"fresh process failed: {d['error']}")
        groups.setdefault((name, seed), {}).setdefault(digest(d), []).append((h, d))
    for (name, seed), g in groups.items():
        if len(g) > 1:
            ks = list(g)
            ctx.violation(
                "process-dependence",
                f"program {name}, seed {seed}: fresh processes with PYTHONHASHSEED {[h for h, _ in g[ks[0]]]} and {[h for h, _ in g[ks[1]]]} give different scenes: {first_diff(g[ks[0]][0][1], g[ks[1]][0][1])}",
                {"name": name, "seed": seed, "kind": "process", "hashseeds": [g[ks[0]][0][0], g[ks[1]][0][0]]},
            )
    ctx.notes.append(f"fresh processes finished after {ctx.elapsed():.0f}s")
    if tot["clock_orders"] < 10 or tot["wide_multi"] < 20:
        raise HarnessError(f"vacuous: {tot}")
    ctx.cov.update(
        evaluations=tot["runs"],
        distinct_nontrivial=tot["clock_orders"],
        rule="per program and seed: every iteration order of every identity-hashed set built while compiling (SetOrderSeam; 0 if the tree no "
        "longer uses such sets), every assignment of iteration orders (quick: <= 2 non-default ones) to the distinct sets of property names iterated by the specifier-resolution modules (`set`/`frozenset` replaced in specifiers, object_types, lazy_eval), every requirement-check ordering reachable with <= 2 (thorough 3) non-default scripted durations x 0..2 (3) "
        "previously generated scenes, and fresh processes for PYTHONHASHSEED in a fixed list; all must give one result; non-trivial = "
        "distinct scripted duration vectors (check orderings) explored",
        samples=[{"program": names[0], "text": PROGRAMS[names[0]]}, {"witness_program_lines": len(WITNESS.splitlines())}],
        collisions={"executions_with_a_set_order_choice": tot["set_multi"], "set_order_executions": tot["set_execs"], "property_name_set_order_executions": tot["wide_execs"], "distinct_check_duration_vectors": tot["clock_orders"], "fresh_processes": len(jobs)},
        bounds={"programs": names, "seeds": list(SEEDS if ctx.tier == "thorough" else SEEDS[:1]), "hashseeds": list(hs)},
    )
    if ctx.capped:
        ctx.cov["cap"] = "check-order exploration of the mesh-sampling program 'geometry' is capped at 120 executions per history in the quick tier (1500 otherwise); every other exploration completed"
    ctx.assumptions.append("address-space layout affects the code only through the iteration order of identity-hashed sets (enumerated) — layouts themselves cannot be enumerated")


def replay(ctx, case):
    import scenic

    name, seed = case["name"], case["seed"]
    if case["kind"] == "process":
        a = fresh_process((name, seed, case["hashseeds"][0]))[3]
        b = fresh_process((name, seed, case["hashseeds"][1]))[3]
        if digest(a) != digest(b):
            ctx.violation("process-dependence", first_diff(a, b), case)
        return
    text = PROGRAMS[name]
    ref = one_run(scenic.scenarioFromString(text), seed, 0, name)
    ex = explorer.Execution(case.get("choices", []))
    with explorer.running(ex):
        if case["kind"] == "rerun":
            sc2 = scenic.scenarioFromString(text)
            d = ref
            for _ in range(3):
                d2 = one_run(sc2, seed, 0, name)
                if digest(d2) != digest(ref):
                    d = d2
                    break
            sig = "history-dependence:same-scenario-rerun"
        elif case["kind"] == "wideset":
            d = compile_with_set_order(text, lambda n: explorer.choose(n, tag="setorder"), wide=True, run=lambda sc: one_run(sc, seed, 0, name))
            sig = "set-order-dependence:property-name-sets"
        elif case["kind"] == "set":
            sc = compile_with_set_order(text, lambda n: explorer.choose(n, tag="setorder"))
            d = one_run(sc, seed, 0, name)
            sig = "set-order-dependence"
        else:
            clock = seams.ScriptedClock(alphabet=(1.0, 16.0))
            with seams.clock_seam(clock):
                d = one_run(scenic.scenarioFromString(text), seed, case["history"], name)
            sig = "check-order-dependence"
    if digest(d) != digest(ref):
        ctx.violation(sig, first_diff(ref, d), case)
