"""C04 -- object overlap / containment tests agree with exact solid geometry.

Engine: bounded-exhaustive lattice of shape pairs x orientations x sizes x relative placements
(object/object) and objects x containers x placements (object/region), every case evaluated
once per *internal route* of Scenic's multi-pass decision procedures (harness-side patches make
each early-exit pass inconclusive in turn), judged by the independent oracle models/solid.py
run on the very vertex/face arrays Scenic uses (obj.occupiedSpace.mesh).

Nothing is sampled.  Scenic itself draws numpy random numbers in two containment passes
(trimesh.sample.volume_mesh); the global numpy seed is fixed before every evaluation (the
answer must not depend on the draw; the fixed seed only makes replays deterministic).
"""

from __future__ import annotations

import contextlib
import inspect
import math
import re
import sys
import types
from collections import Counter

import numpy as np

from mc.explorer import HarnessError
from models import solid as S

ID = "C04"
LEVEL = "exploration"

DEG = math.pi / 180.0
TOL = S.TOL  # |margin| < TOL: touching, skipped
DIST_TOL = 1e-6  # minimumDistanceTo vs true gap
FOOT_TOL = 2e-3  # footprint containment: Scenic pads projections by rpad=1e-4 * scale

ORI = [
    (0.0, 0.0, 0.0),
    (45 * DEG, 0.0, 0.0),
    (0.0, 30 * DEG, 0.0),
    (0.0, 0.0, 30 * DEG),
    (30 * DEG, 20 * DEG, 10 * DEG),
    (90 * DEG, 0.0, 0.0),
    (180 * DEG, 0.0, 0.0),
    (150 * DEG, -25 * DEG, 40 * DEG),
]
ORI_NAMES = ["identity", "yaw45", "pitch30", "roll30", "ypr30-20-10", "yaw90", "yaw180", "ypr150--25-40"]
KINDS = ["box", "cyl", "cone", "sph", "two", "L"]
# shapes whose bounding-box centre is NOT in the solid (their precomputed interior point is far
# from the local origin): U and ring are added to the two-body and L meshes
KINDS_X = ["U", "ring"]
ALL_KINDS = KINDS + KINDS_X
NONCONVEX = ["two", "L", "U", "ring"]
SIZES = {
    "S1": ((1.6, 1.2, 1.0), (1.0, 0.8, 0.6)),
    "S2": ((2.4, 2.0, 1.6), (0.4, 0.3, 0.25)),
    "S3": ((2.4, 2.0, 1.6), (0.3, 0.25, 0.2)),
    "S4": ((2.4, 2.0, 1.6), (0.8, 0.6, 0.4)),
}
POS_A = (3.0, -2.0, 1.5)
_s3 = 1 / math.sqrt(3)
DIRS = {
    "x": (1.0, 0.0, 0.0),
    "y": (0.0, 1.0, 0.0),
    "z": (0.0, 0.0, 1.0),
    "d": (_s3, _s3, _s3),
    "q": tuple(np.array((-0.6, 0.3, 0.74)) / np.linalg.norm((-0.6, 0.3, 0.74))),
    "-x": (-1.0, 0.0, 0.0),
    "-y": (0.0, -1.0, 0.0),
}

# unit-frame geometry of the two custom (non-primitive) shapes
TWO_BOXES = [((-0.5, -0.5, -0.5), (-0.2, 0.5, 0.5)), ((0.2, -0.5, -0.5), (0.5, 0.5, 0.5))]
L_RING = [(-0.5, -0.5), (0.5, -0.5), (0.5, 0.0), (0.0, 0.0), (0.0, 0.5), (-0.5, 0.5)]
L_BOXES = [((-0.5, -0.5, -0.5), (0.5, 0.0, 0.5)), ((-0.5, -0.5, -0.5), (0.0, 0.5, 0.5))]

# thin walls (0.15 of the extent): most of the bounding box is empty, so a mis-transformed
# interior point almost always leaves the solid
U_RING = [(-0.5, -0.5), (0.5, -0.5), (0.5, 0.5), (0.35, 0.5), (0.35, -0.35), (-0.35, -0.35), (-0.35, 0.5), (-0.5, 0.5)]
U_BOXES = [((-0.5, -0.5, -0.5), (0.5, -0.35, 0.5)), ((-0.5, -0.5, -0.5), (-0.35, 0.5, 0.5)), ((0.35, -0.5, -0.5), (0.5, 0.5, 0.5))]
RING_OUTER = (-0.5, -0.5, 0.5, 0.5)
RING_INNER = (-0.35, -0.35, 0.35, 0.35)
RING_BOXES = [
    ((-0.5, -0.5, -0.5), (-0.35, 0.5, 0.5)),
    ((0.35, -0.5, -0.5), (0.5, 0.5, 0.5)),
    ((-0.5, -0.5, -0.5), (0.5, -0.35, 0.5)),
    ((-0.5, 0.35, -0.5), (0.5, 0.5, 0.5)),
]

# anchor points (unit frame of A) where B's centre is put: inside a body / inside a cavity
ANCHORS = {
    "box": [(0.0, 0.0, 0.0), (0.22, -0.18, 0.1)],
    "cyl": [(0.0, 0.0, 0.0), (0.15, 0.1, -0.2)],
    "cone": [(0.0, 0.0, -0.2), (0.0, 0.0, 0.15)],
    "sph": [(0.0, 0.0, 0.0), (0.15, -0.15, 0.1)],
    "two": [(-0.35, 0.0, 0.0), (0.35, 0.1, -0.1), (0.0, 0.0, 0.0)],
    "L": [(0.25, -0.25, 0.0), (-0.25, 0.25, 0.0), (0.25, 0.25, 0.0)],
    "U": [(0.0, -0.425, 0.0), (-0.425, 0.1, 0.1), (0.425, 0.1, -0.1), (0.0, 0.1, 0.0)],
    "ring": [(-0.425, 0.0, 0.0), (0.425, 0.1, 0.1), (0.0, -0.425, 0.0), (0.0, 0.0, 0.0)],
}

NPSEED = 20240531


# ------------------------------------------------------------------------------------------
# shapes, objects, poses
# ------------------------------------------------------------------------------------------
def unit_mesh(kind):
    if kind == "two":
        return S.concat_meshes([S.box_mesh(lo, hi) for lo, hi in TWO_BOXES])
    if kind == "L":
        return S.prism_mesh(L_RING, -0.5, 0.5)
    if kind == "U":
        return S.prism_mesh(U_RING, -0.5, 0.5)
    if kind == "ring":
        return S.frame_mesh(RING_OUTER, RING_INNER, -0.5, 0.5)
    raise KeyError(kind)


def make_shape(kind):
    import trimesh
    from scenic.core import shapes

    if kind == "box":
        return shapes.BoxShape()
    if kind == "cyl":
        return shapes.CylinderShape()
    if kind == "cone":
        return shapes.ConeShape()
    if kind == "sph":
        return shapes.SpheroidShape()
    V, F = unit_mesh(kind)
    return shapes.MeshShape(trimesh.Trimesh(vertices=V, faces=F, process=False))


def analytic_inside(kind, L, k=1.0):
    if kind == "box":
        return S.in_unit_box(L, k)
    if kind == "cyl":
        return S.in_unit_cylinder(L, k)
    if kind == "cone":
        return S.in_unit_cone(L, k)
    if kind == "sph":
        return S.in_unit_ellipsoid(L, k)
    if kind == "two":
        return S.in_box_union(L, TWO_BOXES, k)
    if kind == "L":
        return S.in_box_union(L, L_BOXES, k)
    if kind == "U":
        return S.in_box_union(L, U_BOXES, k)
    if kind == "ring":
        return S.in_box_union(L, RING_BOXES, k)
    raise KeyError(kind)


# faceting of the inscribed triangulations: mesh >= analytic solid scaled by SHRINK about the
# centre of each convex piece (measured in selftest)
SHRINK = {"box": 1 - 1e-9, "two": 1 - 1e-9, "L": 1 - 1e-9, "U": 1 - 1e-9, "ring": 1 - 1e-9, "cyl": 0.98, "cone": 0.96, "sph": 0.985}


def mk_obj(spec):
    """spec = (kind, pos, dims, (yaw, pitch, roll)) -> fresh Scenic Object (fresh Shape too)."""
    from scenic.core.object_types import Object
    from scenic.core.vectors import Vector

    kind, pos, dims, ypr = spec
    return Object._with(
        position=Vector(*[float(x) for x in pos]),
        shape=make_shape(kind),
        width=float(dims[0]),
        length=float(dims[1]),
        height=float(dims[2]),
        yaw=float(ypr[0]),
        pitch=float(ypr[1]),
        roll=float(ypr[2]),
    )


def solid_of_region(reg):
    m = reg.mesh
    return S.Solid(np.array(m.vertices, dtype=float), np.array(m.faces))


def solid_of(obj):
    return solid_of_region(obj.occupiedSpace)


def pose_error(spec, solid):
    """Independent model of where the object is: unit mesh scaled by dims, rotated by the
    documented yaw/pitch/roll convention, translated to pos."""
    kind, pos, dims, ypr = spec
    sh = make_shape(kind)
    V0 = np.array(sh.mesh.vertices)
    R = S.rotation_zxy(*ypr)
    W = (V0 * np.asarray(dims, float)) @ R.T + np.asarray(pos, float)
    if W.shape != solid.V.shape:
        return math.inf
    return float(np.abs(W - solid.V).max())


def _convexity(specA, specB):
    conv = {"box", "cyl", "cone", "sph"}
    return "convex-pair" if specA[0] in conv and specB[0] in conv else "nonconvex-pair"


def is_planar_box(spec):
    return spec[0] == "box" and spec[3][1] == 0 and spec[3][2] == 0


# ------------------------------------------------------------------------------------------
# which return statement decided?  (sys.monitoring LINE events on the decision procedures)
# ------------------------------------------------------------------------------------------
class Tracer:
    TOOL = 4

    def __init__(self):
        self.labels = {}  # code -> {lineno: label}
        self.names = {}
        self.events = []
        self.active = False

    def add(self, name, func):
        f = inspect.unwrap(func)
        code = f.__code__
        lines, first = inspect.getsourcelines(f)
        labels, counts = {}, {}
        cur, branch = None, ""
        for i, text in enumerate(lines):
            m = re.match(r"\s*# PASS (\w+)", text)
            if m:
                cur = m.group(1)
            m2 = re.match(r"\s{8}if isinstance\(other, (\w+)\):", text)
            if m2:
                branch, cur = m2.group(1), None
            if re.match(r"\s*return\b", text):
                key = (branch, cur)
                counts[key] = counts.get(key, 0) + 1
                tag = (cur if cur else "r") + "abcdefghij"[counts[key] - 1]
                labels[first + i] = (branch + ":" if branch else "") + tag
        self.labels[code] = labels
        self.names[code] = name
        return code

    def install(self):
        mon = sys.monitoring
        if mon.get_tool(self.TOOL) is None:
            mon.use_tool_id(self.TOOL, "verif-c04")
        mon.register_callback(self.TOOL, mon.events.LINE, self._on_line)
        for code in self.labels:
            mon.set_local_events(self.TOOL, code, mon.events.LINE)

    def _on_line(self, code, line):
        if self.active:
            lab = self.labels.get(code)
            if lab is not None and line in lab:
                self.events.append((self.names[code], lab[line]))

    @contextlib.contextmanager
    def trace(self):
        self.events = []
        self.active = True
        try:
            yield self
        finally:
            self.active = False

    def decider(self, prefer):
        """Label of the last executed `return` of the most specific procedure reached."""
        for name in prefer:
            for n, lab in reversed(self.events):
                if n == name:
                    return f"{name}/{lab}"
        return "?"


_TR = None
_BOUNDS_CODES = set()


def tracer():
    global _TR
    if _TR is None:
        from scenic.core.object_types import Object
        from scenic.core.regions import MeshVolumeRegion, PolygonalFootprintRegion

        t = Tracer()
        t.add("Object.intersects", Object.intersects)
        t.add("Object.minimumDistanceTo", Object.minimumDistanceTo)
        c1 = t.add("Mesh.intersects", MeshVolumeRegion.intersects)
        c2 = t.add("Mesh.containsObject", MeshVolumeRegion.containsObject)
        t.add("Footprint.containsObject", PolygonalFootprintRegion.containsObject)
        _BOUNDS_CODES.update((c1, c2))
        t.install()
        _TR = t
    return _TR


# deciders that must each have decided at least one judged case (vacuity guard)
EXPECTED_DECIDERS = [
    "Object.intersects/ra",  # planar boxes, apart in z
    "Object.intersects/rb",  # planar boxes, polygons
    "Mesh.intersects/MeshVolumeRegion:1a",
    "Mesh.intersects/MeshVolumeRegion:2Aa",
    "Mesh.intersects/MeshVolumeRegion:2Ab",
    "Mesh.intersects/MeshVolumeRegion:2Ba",
    "Mesh.intersects/MeshVolumeRegion:3a",
    "Mesh.intersects/MeshVolumeRegion:3b",
    "Mesh.intersects/MeshVolumeRegion:4a",
    "Mesh.intersects/MeshVolumeRegion:5a",
    "Object.minimumDistanceTo/ra",
    "Object.minimumDistanceTo/rb",
    "Mesh.containsObject/1a",
    "Mesh.containsObject/2a",
    "Mesh.containsObject/2b",
    "Mesh.containsObject/3a",
    "Mesh.containsObject/3b",
    "Mesh.containsObject/4a",
    "Mesh.containsObject/5a",
    "Footprint.containsObject/ra",
    "Footprint.containsObject/rb",
    "Footprint.containsObject/rc",
]
# deciders that must have produced both answers
BOTH_ANSWERS = [
    "Object.intersects/rb",
    "Mesh.intersects/MeshVolumeRegion:4a",
    "Mesh.intersects/MeshVolumeRegion:5a",
    "Mesh.containsObject/2b",
    "Mesh.containsObject/5a",
    "Footprint.containsObject/ra",
    "Footprint.containsObject/rc",
]


# ------------------------------------------------------------------------------------------
# route forcing: harness-side patches
# ------------------------------------------------------------------------------------------
class Patches:
    """Collects global (module/class level) patches and undoes them; instance-level patches
    on the fresh per-evaluation objects need no undo."""

    def __init__(self):
        self.undo = []

    def set(self, target, name, value):
        had = name in vars(target)
        old = vars(target).get(name)
        setattr(target, name, value)

        def restore():
            if had:
                setattr(target, name, old)
            else:
                delattr(target, name)

        self.undo.append(restore)

    def close(self):
        while self.undo:
            self.undo.pop()()


_INF_BOUNDS = np.array([[-math.inf] * 3, [math.inf] * 3])
_NoBounds = None


def _nobounds_class():
    """Trimesh subclass whose `bounds`, *when read directly by the bounding-box pre-checks of
    MeshVolumeRegion.intersects / containsObject*, is infinite (the pre-check cannot conclude);
    every other reader gets the real bounds."""
    global _NoBounds
    if _NoBounds is None:
        import trimesh

        real = trimesh.Trimesh.bounds.fget

        class NoBounds(trimesh.Trimesh):
            @property
            def bounds(self):
                f = sys._getframe(1)
                while f is not None and f.f_code.co_name in ("<listcomp>", "<genexpr>"):
                    f = f.f_back
                if f is not None and f.f_code in _BOUNDS_CODES:
                    return _INF_BOUNDS
                return real(self)

        _NoBounds = NoBounds
    return _NoBounds


def p_nobounds(reg):
    m = reg.mesh
    m.__class__ = _nobounds_class()


def p_no1(reg):
    reg._cached__circumradius = math.inf


def p_no2A(reg):
    reg._cached__interiorPointRadii = (0.0, math.inf)


def p_no2Ain(reg):
    reg._cached__interiorPointRadii = (0.0, reg._interiorPointRadii[1])


def p_noconvex(reg):
    reg._cached_isConvex = False


def p_no4(reg):
    reg._cached__bodyCount = 2


class _FclShim:
    """scenic.core.regions.fcl with `collide` answering 'no surface collision'."""

    def __init__(self, real):
        self._real = real

    def __getattr__(self, name):
        return getattr(self._real, name)

    @staticmethod
    def collide(a, b, *args, **kw):
        return 0


def g_no3(p):
    import scenic.core.regions as R

    p.set(R, "fcl", _FclShim(R.fcl))


def g_unscaled(p):
    from scenic.core.object_types import Object

    p.set(Object, "_scaledShape", property(lambda self: None))


# object/object routes: name -> (global patches applied before the objects are built,
#                                per-region patches applied to both occupied spaces)
OO_ROUTES = {
    "default": ((), ()),
    "no1": ((), (p_no1,)),
    "no2Ain": ((), (p_no2Ain,)),
    "no1-no2A": ((), (p_no1, p_no2A)),
    "noconvex": ((), (p_no1, p_no2A, p_noconvex)),
    "noconvex-no4": ((), (p_no1, p_no2A, p_noconvex, p_no4)),
    "only5": ((g_no3,), (p_no1, p_no2A, p_noconvex, p_no4)),
    "unscaled": ((g_unscaled,), ()),
    "unscaled-no1": ((g_unscaled,), (p_no1,)),
    "unscaled-no1-no2B": ((g_unscaled,), (p_no1, p_nobounds)),
    "unscaled-noconvex": ((g_unscaled,), (p_no1, p_nobounds, p_noconvex)),
    "unscaled-only5": ((g_unscaled, g_no3), (p_no1, p_nobounds, p_noconvex, p_no4)),
}
OO_QUICK = ["default", "no1", "no2Ain", "no1-no2A", "noconvex", "noconvex-no4", "only5", "unscaled", "unscaled-no1", "unscaled-no1-no2B", "unscaled-noconvex"]
# routes whose verdict can come from the interior-point shortcuts (PASS 2A / PASS 4); used for
# the placements that target those shortcuts in the quick tier
IP_ROUTES = ["default", "no1", "no1-no2A", "noconvex", "unscaled", "unscaled-noconvex"]
DIST_ROUTES = ["default", "unscaled"]


def eval_intersects(route, specA, specB, via="method", reverse=False):
    """Scenic's answer for `A intersects B` through the given route -> (bool, decider)."""
    tr = tracer()
    pre, post = OO_ROUTES[route]
    p = Patches()
    try:
        for g in pre:
            g(p)
        a, b = mk_obj(specA), mk_obj(specB)
        planar = is_planar_box(specA) and is_planar_box(specB)
        if route != "default" and planar:
            a._cached__isPlanarBox = False
            b._cached__isPlanarBox = False
        for f in post:
            f(a.occupiedSpace)
            f(b.occupiedSpace)
        if reverse:
            a, b = b, a
        np.random.seed(NPSEED)
        with tr.trace():
            if via == "operator":
                from scenic.syntax.veneer import Intersects

                res = Intersects(a, b)
            elif via == "requirement":
                from scenic.core.requirements import IntersectionRequirement

                res = IntersectionRequirement(a, b).falsifiedByInner({a: a, b: b})
            else:
                res = a.intersects(b)
        return bool(res), tr.decider(("Mesh.intersects", "Object.intersects"))
    finally:
        p.close()


def eval_distance(route, specA, specB, noplanar=False):
    tr = tracer()
    p = Patches()
    try:
        if route == "unscaled":
            g_unscaled(p)
        a, b = mk_obj(specA), mk_obj(specB)
        if noplanar:
            a._cached__isPlanarBox = False
            b._cached__isPlanarBox = False
        with tr.trace():
            if route == "operator":
                raise AssertionError
            d = a.minimumDistanceTo(b)
        return float(d), tr.decider(("Object.minimumDistanceTo",))
    finally:
        p.close()


# ------------------------------------------------------------------------------------------
# object/object cases
# ------------------------------------------------------------------------------------------
def new_stats():
    return {
        "evaluations": 0,
        "cases": 0,
        "judged": 0,
        "skipped_touching": 0,
        "deciders": Counter(),  # "<decider>=<answer>" -> n
        "routes": Counter(),
        "answers": {},  # pair -> set of oracle answers
        "violations": [],
        "min_margin": math.inf,
        "margins_ge_005": 0,
        "samples": [],
        "dist_checked": 0,
        "seam_checks": 0,
        "dist_maxerr": 0.0,
        "notes": set(),
    }


def merge_stats(dst, src):
    for k in ("evaluations", "cases", "judged", "skipped_touching", "margins_ge_005", "dist_checked", "seam_checks"):
        dst[k] += src[k]
    dst["deciders"].update(src["deciders"])
    dst["routes"].update(src["routes"])
    for k, v in src["answers"].items():
        dst["answers"].setdefault(k, set()).update(v)
    dst["violations"].extend(src["violations"])
    dst["min_margin"] = min(dst["min_margin"], src["min_margin"])
    dst["dist_maxerr"] = max(dst["dist_maxerr"], src["dist_maxerr"])
    for k, v in src.get("cpu", {}).items():
        dst.setdefault("cpu", {})[k] = dst.setdefault("cpu", {}).get(k, 0.0) + v
    for k, v in src.get("hist_states", {}).items():
        dst.setdefault("hist_states", {})[k] = dst.setdefault("hist_states", {}).get(k, 0) + v
    dst["hist_sequences"] = dst.get("hist_sequences", 0) + (src["cases"] if "hist_states" in src else 0)
    if len(dst["samples"]) < 6:
        dst["samples"].extend(src["samples"][:1])
    dst["notes"] |= src["notes"]


def analytic_crosscheck(specA, SA, specB, SB, rel):
    """Implications between the mesh oracle and closed-form membership (harness consistency)."""
    out = []
    for (sx, X), (sy, Y), y_in_x in (((specA, SA), (specB, SB), rel.b_in_a), ((specB, SB), (specA, SA), rel.a_in_b)):
        kind, pos, dims, ypr = sx
        R = S.rotation_zxy(*ypr)
        L = S.to_local(Y.V, pos, R, dims)
        if rel.overlap is False:
            # a vertex of Y well inside the (shrunk) analytic X would be an overlap
            if analytic_inside(kind, L, SHRINK[kind]).any():
                out.append(f"oracle says disjoint but a vertex of {sy[0]} is inside analytic {kind}")
        if y_in_x is True:
            if not analytic_inside(kind, L, 1 + 1e-7).all():
                out.append(f"oracle says {sy[0]} inside {kind} but a vertex is outside analytic {kind}")
    return out


def run_oo_case(st, tier, specA, SA, specB, label, routes, dist_routes):
    pair = f"{specA[0]}-vs-{specB[0]}"
    b = mk_obj(specB)
    SB = solid_of(b)
    rel = S.relate(SA, SB, TOL)
    st["cases"] += 1
    if rel.overlap is None:
        st["skipped_touching"] += 1
        return
    bad = analytic_crosscheck(specA, SA, specB, SB, rel)
    if bad:
        raise HarnessError(f"oracle inconsistent with analytic membership: {bad} for {specA} {specB}")
    st["judged"] += 1
    st["answers"].setdefault("oo:" + pair, set()).add(rel.overlap)
    st["min_margin"] = min(st["min_margin"], abs(rel.margin))
    if abs(rel.margin) >= 0.05 - 1e-9:
        st["margins_ge_005"] += 1
    case_base = {"kind": "oo", "specA": specA, "specB": specB, "placement": label}
    if len(st["samples"]) < 2:
        st["samples"].append({**case_base, "oracle": {"overlap": rel.overlap, "margin": rel.margin}})
    plan = []
    for route in routes:
        plan.append((route, "method", False))
        if route in ("default", "noconvex", "only5", "unscaled"):
            plan.append((route, "method", True))
    plan.append(("default", "operator", False))
    plan.append(("default", "requirement", True))
    for route, via, rev in plan:
        try:
            got, dec = eval_intersects(route, specA, specB, via, rev)
        except Exception as e:  # an exception on a well-formed query is a failure of the property
            st["violations"].append(
                (
                    f"intersects-exception:{route}:{type(e).__name__}:{pair}",
                    f"{type(e).__name__}: {e} while evaluating intersects via {via} route {route} for {specA} / {specB}",
                    {**case_base, "route": route, "via": via, "reverse": rev, "what": "intersects"},
                )
            )
            continue
        st["evaluations"] += 1
        st["routes"][f"oo:{route}"] += 1
        st["deciders"][f"{dec}={'T' if got else 'F'}"] += 1
        if got != rel.overlap:
            st["violations"].append(
                (
                    f"intersects:{route}/{dec.split('/')[-1]}:{pair}",
                    f"{'B.intersects(A)' if rev else 'A.intersects(B)'} via {via}, route {route} (decided by {dec}) = {got}, "
                    f"exact solid geometry says overlap={rel.overlap} (margin {rel.margin:+.6f}; >0 gap, <0 depth)\n"
                    f"A={specA}\nB={specB} placement={label}",
                    {**case_base, "route": route, "via": via, "reverse": rev, "what": "intersects"},
                )
            )
    # minimum distance
    planar = is_planar_box(specA) and is_planar_box(specB)
    dplan = [(r, False) for r in dist_routes]
    if planar:
        dplan.append(("default", True))
    for route, noplanar in dplan:
        try:
            d, dec = eval_distance(route, specA, specB, noplanar)
        except Exception as e:
            st["violations"].append(
                (
                    f"minimumDistanceTo-exception:{route}:{type(e).__name__}:{pair}",
                    f"{type(e).__name__}: {e} in minimumDistanceTo route {route} for {specA} / {specB}",
                    {**case_base, "route": route, "noplanar": noplanar, "what": "distance"},
                )
            )
            continue
        st["evaluations"] += 1
        st["dist_checked"] += 1
        st["routes"][f"dist:{route}{'+noplanar' if noplanar else ''}"] += 1
        st["deciders"][f"{dec}={'pos' if d > 0 else 'nonpos'}"] += 1
        if rel.overlap:
            ok = d <= 1e-9
            kindsig = "positive-when-overlapping"
            if not ok and not rel.crossing:
                kindsig = "positive-when-nested"
        else:
            ok = abs(d - rel.margin) <= DIST_TOL
            kindsig = "wrong-gap-" + _convexity(specA, specB)
            st["dist_maxerr"] = max(st["dist_maxerr"], abs(d - rel.margin))
        if not ok:
            st["violations"].append(
                (
                    f"minimumDistanceTo:{kindsig}:{route}{'+noplanar' if noplanar else ''}/{dec.split('/')[-1]}:{pair}",
                    f"A.minimumDistanceTo(B) route {route} noplanar={noplanar} (decided by {dec}) = {d!r}; exact: overlap={rel.overlap}, "
                    f"margin {rel.margin:+.9f} (>0 true gap, <0 overlap depth)\nA={specA}\nB={specB} placement={label}",
                    {**case_base, "route": route, "noplanar": noplanar, "what": "distance"},
                )
            )


def seam_problems(reg, sol, scaled, check_bodies=True):
    """Every precomputed datum the passes rely on, against the same quantity computed by the
    oracle from the posed mesh.  Only *soundness* is demanded (the interior point is strictly
    inside, the in-ball stays inside, the circum-balls contain every vertex, ...)."""
    out = []
    ip = np.asarray(reg._interiorPoint, float).reshape(3)
    state = int(S.points_in_mesh(ip[None, :], sol)[0])
    if state < 0:
        state = 1 if abs(S.winding_number(ip[None, :], sol)[0]) > 0.5 else 0
    d = float(S.point_surface_dist(ip[None, :], sol)[0])
    if state != 1 or d <= 1e-9:
        out.append(("interiorPoint-not-inside", f"_interiorPoint {ip.tolist()} is {'outside' if state == 0 else 'on the surface of'} the posed mesh (distance to surface {d:.6f})"))
    inr, circ = (float(x) for x in reg._interiorPointRadii)
    if state == 1 and inr > d + 1e-7:
        out.append(("inradius-ball-leaves-solid", f"inradius {inr} about _interiorPoint but the surface is at {d}"))
    far = float(np.linalg.norm(sol.V - ip, axis=1).max())
    if circ < far - 1e-7:
        out.append(("circumradius-ball-misses-vertices", f"circumradius {circ} about _interiorPoint {ip.tolist()} but a vertex is at {far}"))
    pos = np.asarray(reg.position, float).reshape(3)
    far_c = float(np.linalg.norm(sol.V - pos, axis=1).max())
    if float(reg._circumradius) < far_c - 1e-7:
        out.append(("circumradius-about-position", f"_circumradius {float(reg._circumradius)} but a vertex is {far_c} from position"))
    if check_bodies and int(reg._bodyCount) != len(sol.reps):
        out.append(("bodyCount", f"_bodyCount {reg._bodyCount} but the posed mesh has {len(sol.reps)} bodies"))
    conv = S.is_convex(sol)
    if bool(reg.isConvex) and not conv:
        out.append(("isConvex", "isConvex is True but the posed mesh is not convex"))
    geom, trans = reg._fclData
    Rf = np.asarray(trans.getRotation(), float).reshape(3, 3)
    tf = np.asarray(trans.getTranslation(), float).reshape(3)
    base = np.asarray(reg._scaledShape.mesh.vertices, float) if scaled else np.asarray(reg.mesh.vertices, float)
    if (reg._scaledShape is not None) != scaled:
        out.append(("scaledShape-presence", f"_scaledShape is {'missing' if scaled else 'present'} in the {'default' if scaled else 'unscaled'} route"))
    elif base.shape != sol.V.shape or float(np.abs(base @ Rf.T + tf - sol.V).max()) > 1e-9:
        out.append(("fclTransform", "FCL transform applied to the FCL geometry's vertices does not give the posed mesh"))
    return out


def seam_check(st, spec):
    """Run `seam_problems` for an object in both precomputation modes."""
    import time as _time

    _t0 = _time.process_time()
    try:
        _seam_check(st, spec)
    finally:
        st["cpu_seam"] = st.get("cpu_seam", 0.0) + _time.process_time() - _t0


def _seam_check(st, spec):
    pair = spec[0]
    for mode in ("scaled", "unscaled"):
        p = Patches()
        try:
            if mode == "unscaled":
                g_unscaled(p)
            obj = mk_obj(spec)
            reg = obj.occupiedSpace
            probs = seam_problems(reg, solid_of_region(reg), mode == "scaled")
        finally:
            p.close()
        st["seam_checks"] = st.get("seam_checks", 0) + 1
        for tag, msg in probs:
            st["violations"].append(
                (
                    f"precomputed:{tag}:{mode}:{pair}",
                    f"precomputed geometry of occupiedSpace ({mode} route) disagrees with the posed mesh: {msg}\nobject={spec}",
                    {"kind": "seam", "spec": spec, "mode": mode, "tag": tag},
                )
            )


def ghost_points(specA):
    """Where a wrongly transformed precomputed interior point of A would be (and where the
    right one is): partner objects are centred there."""
    ka, posA, dimsA, oriA = specA
    a = mk_obj(specA)
    reg = a.occupiedSpace
    posA = np.asarray(posA, float)
    dims = np.asarray(dimsA, float)
    R = S.rotation_zxy(*oriA)
    raws = []
    if reg._scaledShape is not None:
        raws.append(("scaled", np.asarray(reg._scaledShape._interiorPoint, float)))
    raws.append(("unit", np.asarray(a.shape._interiorPoint, float) * dims))
    cands = []
    for nm, raw in raws:
        cands += [
            (f"ghost:{nm}:correct", posA + R @ raw),
            (f"ghost:{nm}:norotation", posA + raw),
            (f"ghost:{nm}:inverse-rotation", posA + R.T @ raw),
            (f"ghost:{nm}:unscaled", posA + R @ (raw / dims)),
            (f"ghost:{nm}:mirrored", posA - R @ raw),
            (f"ghost:{nm}:scale-after-rotation", posA + dims * (R @ (raw / dims))),
        ]
    out = []
    for lab, pt in cands:
        if all(np.linalg.norm(pt - q) > 1e-6 for _, q in out):
            out.append((lab, pt))
    # ... and the vertex of A farthest from each such point: a partner centred on it overlaps A,
    # but lies outside a circum-ball drawn about a misplaced interior point
    V = np.asarray(reg.mesh.vertices, float)
    for lab, pt in list(out):
        v = V[int(np.argmax(np.linalg.norm(V - pt, axis=1)))]
        if all(np.linalg.norm(v - q) > 1e-6 for _, q in out):
            out.append((lab.replace("ghost:", "farthest-from:"), v))
    return out


def oo_placements(specA, SA, kb, dimsB, oriB, dirs, ghosts=False, hug=False):
    """Placement lattice for B relative to A (world positions for B's centre)."""
    ka, posA, dimsA, oriA = specA
    posA = np.asarray(posA, float)
    b0 = mk_obj((kb, (0.0, 0.0, 0.0), dimsB, oriB))
    SB0 = solid_of(b0)
    RA = float(np.linalg.norm(SA.V - posA, axis=1).max())
    RB = float(np.linalg.norm(SB0.V, axis=1).max())
    out = []
    for dn in dirs:
        d = np.asarray(DIRS[dn], float)
        L0 = RA + RB + 1.0
        s = S.advance_to_gap(SA, SB0, posA + L0 * d, -d, 0.05, max_travel=2 * L0)
        if s is None:
            # B slips through a cavity of A along this line without ever coming within 0.05
            out.append((f"{dn}:apart", posA + L0 * d))
            out.append((f"{dn}:through", posA + 0.4 * RA * d))
            continue
        tg = L0 - s
        out.append((f"{dn}:apart", posA + (tg + 1.0) * d))
        out.append((f"{dn}:gap0.05", posA + tg * d))
        out.append((f"{dn}:overlap", posA + (tg - 0.12) * d))
        out.append((f"{dn}:deep", posA + 0.35 * tg * d))
        if len(SB0.reps) > 1:
            # multi-body B: look for a position where A has swallowed one body of B whole while
            # another body is still outside and the surfaces do not touch (A's skin passes
            # through B's cavity) -- the case an interior-point test of multi-body meshes gets wrong
            t = tg
            while t > tg - 2.2 * RB:
                t -= 0.01
                rel = S.relate(SA, SB0.translated(posA + t * d), TOL)
                if rel.b_comps_in is not None and rel.surface_gap > 0.02 and any(rel.b_comps_in) and not all(rel.b_comps_in):
                    out.append((f"{dn}:half-swallowed", posA + t * d))
                    break
    RAm = S.rotation_zxy(*oriA)
    for i, anc in enumerate(ANCHORS[ka]):
        out.append((f"anchor{i}", posA + RAm @ (np.asarray(dimsA, float) * np.asarray(anc, float))))
    if hug:
        # B nested in a body of A without surface contact, pushed to within 0.05 of A's skin in
        # four directions (a mis-transformed interior point of B then leaves A on some side)
        terms = [(SA, +1)]
        for lab, a0 in list(out):
            if not lab.startswith("anchor"):
                continue
            v0, m0, _ = S.contained_in_terms(SB0.translated(a0), terms, TOL)
            if v0 is True and m0 > 0.06:
                for dn in ("x", "-x", "y", "-y"):
                    d = np.asarray(DIRS[dn], float)
                    s = advance_terms(terms, SB0, a0, d, 0.05)
                    if s is not None:
                        out.append((f"{lab}+{dn}:nested-clear0.05", a0 + s * d))
    if ghosts:
        out += ghost_points(specA)
    return out, SB0


def oo_group(item):
    ka, kb, oa, ob, size, dirs, tier = item[:7]
    ghosts = len(item) > 7 and item[7] == "ghosts"
    hug = len(item) > 7 and item[7] == "hug"
    st = new_stats()
    dimsA, dimsB = SIZES[size]
    specA = (ka, POS_A, dimsA, ORI[oa])
    a0 = mk_obj(specA)
    if a0.occupiedSpace._scaledShape is None:
        raise HarnessError("the default route does not use precomputed per-shape geometry (_scaledShape is None for a fixed-size object)")
    SA = solid_of(a0)
    placements, SB0 = oo_placements(specA, SA, kb, dimsB, ORI[ob], dirs, ghosts, hug)
    seam_check(st, specA)
    seam_check(st, (kb, tuple(float(x) for x in placements[0][1]), dimsB, ORI[ob]))
    for spec, sol in ((specA, SA), ((kb, (0.0, 0.0, 0.0), dimsB, ORI[ob]), SB0)):
        err = pose_error(spec, sol)
        if err > 1e-9:
            st["violations"].append(
                (
                    f"occupiedSpace-pose:{spec[0]}",
                    f"occupiedSpace.mesh of {spec} differs from unit mesh scaled, rotated (yaw Z, pitch X, roll Y intrinsic) and translated by {err}",
                    {"kind": "pose", "spec": spec},
                )
            )
    routes = OO_QUICK if tier == "quick" else list(OO_ROUTES)
    if tier == "quick" and (ghosts or hug):
        routes = IP_ROUTES
    for label, pos in placements:
        specB = (kb, tuple(float(x) for x in pos), dimsB, ORI[ob])
        run_oo_case(st, tier, specA, SA, specB, label, routes, DIST_ROUTES)
    return _pack(st)


def _pack(st):
    st = dict(st)
    st["deciders"] = dict(st["deciders"])
    st["routes"] = dict(st["routes"])
    st["answers"] = {k: sorted(v) for k, v in st["answers"].items()}
    st["notes"] = sorted(st["notes"])
    return st


def _unpack(st):
    st["deciders"] = Counter(st["deciders"])
    st["routes"] = Counter(st["routes"])
    st["answers"] = {k: set(v) for k, v in st["answers"].items()}
    st["notes"] = set(st["notes"])
    return st


# ------------------------------------------------------------------------------------------
# containers
# ------------------------------------------------------------------------------------------
FOOT_OUTER = [(-3.0, -2.5), (3.0, -2.5), (3.0, 2.5), (-3.0, 2.5)]
FOOT_HOLE = [(0.4, -0.6), (1.6, -0.6), (1.6, 0.6), (0.4, 0.6)]
ZBIG = 40.0


def _orient(ypr):
    from scenic.core.vectors import Orientation

    return Orientation.fromEuler(*ypr)


def _foot_region(z=0.0):
    import shapely.geometry
    from scenic.core.regions import PolygonalRegion

    poly = shapely.geometry.Polygon(FOOT_OUTER, [FOOT_HOLE])
    return PolygonalRegion(polygon=poly, z=z)


def _foot_terms():
    Vo, Fo = S.prism_mesh(FOOT_OUTER, -ZBIG, ZBIG)
    Vh, Fh = S.prism_mesh(FOOT_HOLE, -ZBIG, ZBIG)
    return [(S.Solid(Vo, Fo), +1), (S.Solid(Vh, Fh), -1)]


def build_container(name):
    """-> dict(region, terms [(Solid, +1|-1)], anchors {name: point}, dirs [unit vectors],
    kind: 'mesh' | 'footprint' | 'composite', convex: bool)"""
    import trimesh
    from scenic.core.regions import BoxRegion, DifferenceRegion, IntersectionRegion, MeshVolumeRegion
    from scenic.core.vectors import Vector

    if name == "box":
        reg = BoxRegion(dimensions=(4.0, 3.0, 2.4), position=Vector(1.0, -1.0, 0.5), rotation=_orient((20 * DEG, 10 * DEG, 5 * DEG)))
        c = np.array((1.0, -1.0, 0.5))
        return dict(region=reg, terms=[(solid_of_region(reg), +1)], anchors={"centre": c}, kind="mesh", dirs=["x", "d", "z"])
    if name == "boxaligned":
        reg = BoxRegion(dimensions=(4.0, 3.0, 2.4), position=Vector(1.0, -1.0, 0.5))
        c = np.array((1.0, -1.0, 0.5))
        return dict(region=reg, terms=[(solid_of_region(reg), +1)], anchors={"centre": c}, kind="mesh", dirs=["x", "d", "z"])
    if name == "convexmesh":
        m = trimesh.creation.icosphere(subdivisions=1, radius=1.0)
        reg = MeshVolumeRegion(m, dimensions=(4.0, 3.6, 3.0), position=Vector(-1.0, 2.0, 0.0), rotation=_orient((0.0, 15 * DEG, 0.0)))
        c = np.array((-1.0, 2.0, 0.0))
        return dict(region=reg, terms=[(solid_of_region(reg), +1)], anchors={"centre": c}, kind="mesh", dirs=["x", "d", "z"])
    if name == "Lmesh":
        V, F = unit_mesh("L")
        m = trimesh.Trimesh(vertices=V, faces=F, process=False)
        reg = MeshVolumeRegion(m, dimensions=(6.0, 6.0, 2.4), position=Vector(0.0, 0.0, 1.0), rotation=_orient((10 * DEG, 0.0, 0.0)))
        R = S.rotation_zxy(10 * DEG, 0, 0)
        dims = np.array((6.0, 6.0, 2.4))
        pos = np.array((0.0, 0.0, 1.0))
        anchors = {
            "arm1": pos + R @ (dims * np.array((0.25, -0.25, 0.0))),
            "arm2": pos + R @ (dims * np.array((-0.25, 0.25, 0.0))),
            "corner": pos + R @ (dims * np.array((-0.25, -0.25, 0.0))),
            "notch": pos + R @ (dims * np.array((0.25, 0.25, 0.0))),
        }
        return dict(region=reg, terms=[(solid_of_region(reg), +1)], anchors=anchors, kind="mesh", dirs=["x", "y"], advance_from=["arm1", "arm2"])
    if name == "cavity":
        big = BoxRegion(dimensions=(4.0, 4.0, 3.0), position=Vector(0.5, 0.5, 0.0))
        small = BoxRegion(dimensions=(1.6, 1.4, 1.2), position=Vector(0.5, 0.5, 0.0))
        reg = big.difference(small)
        if not isinstance(reg, MeshVolumeRegion):
            raise HarnessError("box minus box did not give a mesh region")
        anchors = {"void": np.array((0.5, 0.5, 0.0)), "wall": np.array((1.9, 0.5, 0.0)), "wall2": np.array((0.5, -0.9, 0.9))}
        return dict(
            region=reg,
            terms=[(solid_of_region(reg), +1)],
            alt_terms=[(solid_of_region(big), +1), (solid_of_region(small), -1)],
            anchors=anchors,
            kind="mesh",
            dirs=["x", "d"],
            advance_from=["wall"],
        )
    if name == "footprint":
        reg = _foot_region()
        anchors = {"left": np.array((-1.5, 0.0, 0.7)), "hole": np.array((1.0, 0.0, 0.3)), "belowhole": np.array((1.0, -1.6, 5.0))}
        return dict(region=reg, terms=_foot_terms(), anchors=anchors, kind="footprint", dirs=["x", "y"], advance_from=["left", "belowhole"])
    if name == "intersection":
        box = BoxRegion(dimensions=(5.0, 4.0, 3.0), position=Vector(-0.5, 0.0, 1.0))
        reg = IntersectionRegion(box, _foot_region())
        anchors = {"left": np.array((-1.5, 0.0, 1.0)), "hole": np.array((1.0, 0.0, 1.0)), "high": np.array((-1.5, 0.0, 2.2))}
        return dict(region=reg, terms=[(solid_of_region(box), +1)] + _foot_terms(), anchors=anchors, kind="composite", dirs=["x", "z"], advance_from=["left"])
    if name == "difference":
        big = BoxRegion(dimensions=(5.0, 4.0, 3.0), position=Vector(0.0, 0.0, 0.5))
        small = BoxRegion(dimensions=(1.2, 1.2, 1.2), position=Vector(1.2, 0.0, 0.5), rotation=_orient((30 * DEG, 0.0, 0.0)))
        reg = DifferenceRegion(big, small)
        anchors = {"left": np.array((-1.2, 0.0, 0.5)), "inhole": np.array((1.2, 0.0, 0.5)), "top": np.array((1.2, 0.0, 1.6))}
        return dict(region=reg, terms=[(solid_of_region(big), +1), (solid_of_region(small), -1)], anchors=anchors, kind="composite", dirs=["x", "z"], advance_from=["left"])
    if name == "meshintersection":
        from scenic.core.regions import SpheroidRegion

        box = BoxRegion(dimensions=(4.0, 4.0, 2.0), position=Vector(0.0, 0.0, 0.0))
        sph = SpheroidRegion(dimensions=(4.6, 4.6, 4.6), position=Vector(0.0, 0.0, 0.0))
        reg = box.intersect(sph)
        if not isinstance(reg, MeshVolumeRegion):
            raise HarnessError("box & spheroid did not give a mesh region")
        anchors = {"centre": np.array((0.0, 0.0, 0.0))}
        return dict(region=reg, terms=[(solid_of_region(reg), +1)], alt_terms=[(solid_of_region(box), +1), (solid_of_region(sph), +1)], anchors=anchors, kind="mesh", dirs=["x", "d"])
    raise KeyError(name)


CONTAINERS = ["box", "boxaligned", "convexmesh", "Lmesh", "cavity", "footprint", "intersection", "difference", "meshintersection"]
OBJ_SIZES = {"small": (0.5, 0.4, 0.3), "medium": (1.3, 1.0, 0.7)}


def _mesh_regions(cont):
    """MeshVolumeRegions consulted by containsObject of this container (as Scenic sees them)."""
    from scenic.core.regions import DifferenceRegion, IntersectionRegion, MeshVolumeRegion

    reg = cont["region"]
    if isinstance(reg, MeshVolumeRegion):
        return [reg], []
    if isinstance(reg, IntersectionRegion):
        subs = reg.footprint.regions
        return [r for r in subs if isinstance(r, MeshVolumeRegion)], []
    if isinstance(reg, DifferenceRegion):
        fp = reg.footprint
        return ([fp.regionA] if isinstance(fp.regionA, MeshVolumeRegion) else []), ([fp.regionB] if isinstance(fp.regionB, MeshVolumeRegion) else [])
    return [], []


def _point_eq(p, q):
    try:
        return all(abs(float(a) - float(b)) < 1e-12 for a, b in zip(p, q))
    except Exception:
        return False


def c_no3(p, cont, obj):
    """containsObject PASS 3 needs a candidate interior point of the object: make it unavailable."""
    import trimesh

    obj.containsPoint = lambda pt: False
    omesh = obj.occupiedSpace.mesh
    real = trimesh.sample.volume_mesh

    def volume_mesh(mesh, count, *a, **k):
        if mesh is omesh:
            return np.zeros((0, 3))
        return real(mesh, count, *a, **k)

    p.set(trimesh.sample, "volume_mesh", volume_mesh)


def c_no4(p, cont, obj):
    """containsObject PASS 4 needs a candidate interior point of the region: make it unavailable."""
    import trimesh

    regs, _ = _mesh_regions(cont)
    real = trimesh.sample.volume_mesh
    meshes = []
    for reg in regs:
        centre = tuple(reg.mesh.bounding_box.center_mass)
        orig = reg.containsPoint

        def containsPoint(pt, _c=centre, _o=orig):
            # PASS 4 asks about a freshly built Vector at the bounding-box centre; PASS 3 asks
            # about obj.position itself (which may coincide with that centre) or a sampled point
            if pt is not obj.position and _point_eq(pt, _c):
                return False
            return _o(pt)

        reg.containsPoint = containsPoint
        meshes.append(reg.mesh)

    def volume_mesh(mesh, count, *a, **k):
        if any(mesh is m for m in meshes):
            return np.zeros((0, 3))
        return real(mesh, count, *a, **k)

    p.set(trimesh.sample, "volume_mesh", volume_mesh)

    def cleanup():
        for reg in regs:
            reg.__dict__.pop("containsPoint", None)

    p.undo.append(cleanup)


def _set_region_attrs(p, regs, **attrs):
    """Containers are shared between evaluations: instance patches on them must be undone."""
    for reg in regs:
        for k, v in attrs.items():
            had = k in reg.__dict__
            old = reg.__dict__.get(k)
            reg.__dict__[k] = v

            def restore(reg=reg, k=k, had=had, old=old):
                if had:
                    reg.__dict__[k] = old
                else:
                    reg.__dict__.pop(k, None)

            p.undo.append(restore)


def c_noconvex(p, cont, obj):
    regs, _ = _mesh_regions(cont)
    _set_region_attrs(p, regs, _cached_isConvex=False)


def c_no1(p, cont, obj):
    regs, _ = _mesh_regions(cont)
    for reg in regs:
        m = reg.mesh
        old = m.__class__
        m.__class__ = _nobounds_class()
        p.undo.append(lambda m=m, old=old: setattr(m, "__class__", old))


def c_no2a(p, cont, obj):
    far = np.full((8, 3), 1e6)
    obj._cached_boundingBox = types.SimpleNamespace(mesh=types.SimpleNamespace(vertices=far))


def c_objnonconvex(p, cont, obj):
    obj.shape._cached_isConvex = False


def c_nohull(p, cont, obj):
    import shapely.geometry

    obj.occupiedSpace._cached__boundingPolygonHull = shapely.geometry.box(-1e6, -1e6, 1e6, 1e6)


def c_noplanar(p, cont, obj):
    obj._cached__isPlanarBox = False


def c_negB_only5(p, cont, obj):
    """DifferenceRegion: the `regionB.intersects(obj.occupiedSpace)` half, forced to PASS 5."""
    _, negs = _mesh_regions(cont)
    g_no3(p)
    _set_region_attrs(p, negs, _cached__circumradius=math.inf, _cached_isConvex=False, _cached__bodyCount=2)
    for f in (p_no1, p_noconvex, p_no4):
        f(obj.occupiedSpace)


def c_negB_noconvex(p, cont, obj):
    _, negs = _mesh_regions(cont)
    _set_region_attrs(p, negs, _cached__circumradius=math.inf, _cached_isConvex=False)
    for f in (p_no1, p_noconvex):
        f(obj.occupiedSpace)


# container routes: name -> list of patch functions (p, cont, obj); order matters:
# c_objnonconvex must come before anything that touches obj.occupiedSpace
CO_ROUTES = {
    "mesh": {
        "default": [],
        "no1": [c_no1],
        "no2a": [c_no2a],
        "noconvex": [c_noconvex],
        "noconvex-no3": [c_noconvex, c_no3],
        "noconvex-no4": [c_noconvex, c_no4],
        "only5": [c_noconvex, c_no3, c_no4],
        "no1-only5": [c_no1, c_noconvex, c_no3, c_no4],
    },
    "footprint": {
        "default": [],
        "noplanar": [c_noplanar],
        "objnonconvex": [c_objnonconvex, c_noplanar],
        "objnonconvex-nohull": [c_objnonconvex, c_noplanar, c_nohull],
    },
    "composite": {
        "default": [],
        "noconvex": [c_noconvex, c_negB_noconvex],
        "general": [c_objnonconvex, c_noplanar, c_nohull, c_noconvex, c_no3, c_no4, c_negB_only5],
        "no1-general": [c_objnonconvex, c_noplanar, c_nohull, c_no1, c_noconvex, c_no3, c_no4, c_negB_only5],
    },
}

_CONT_CACHE = {}


def get_container(name):
    if name not in _CONT_CACHE:
        _CONT_CACHE[name] = build_container(name)
    return _CONT_CACHE[name]


def eval_contains(cname, route, spec, via="method"):
    tr = tracer()
    cont = get_container(cname)
    reg = cont["region"]
    p = Patches()
    try:
        obj = mk_obj(spec)
        for f in CO_ROUTES[cont["kind"]][route]:
            f(p, cont, obj)
        np.random.seed(NPSEED)
        with tr.trace():
            if via == "in":
                res = obj in reg
            elif via == "requirement":
                from scenic.core.requirements import ContainmentRequirement

                res = not ContainmentRequirement(obj, reg).falsifiedByInner({obj: obj, reg: reg})
            else:
                res = reg.containsObject(obj)
        pref = {"mesh": ("Mesh.containsObject",), "footprint": ("Footprint.containsObject",), "composite": ("Mesh.intersects", "Mesh.containsObject", "Footprint.containsObject")}[cont["kind"]]
        dec = tr.decider(pref)
        if cont["kind"] == "composite":
            dec = "(composite)" + dec  # the recorded answer is the composite's, not the pass's
        return bool(res), dec
    finally:
        p.close()


def terms_distance(terms, B):
    return min(S.surface_distance(T, B) for T, _ in terms)


def advance_terms(terms, B0, start, d, target, max_iter=60):
    """Conservative advancement against several surfaces at once."""
    start = np.asarray(start, float)
    s = 0.0
    g = terms_distance(terms, B0.translated(start))
    if g < target:
        return None
    for _ in range(max_iter):
        step = g - target
        if step <= 1e-9:
            break
        s += step
        g = terms_distance(terms, B0.translated(start + s * d))
        if s > 200:
            return None
    return s


def co_placements(cont, SB0):
    """World positions for the object's centre relative to the container."""
    out = []
    for an, pt in cont["anchors"].items():
        out.append((f"at:{an}", np.asarray(pt, float)))
    starts = cont.get("advance_from") or [next(iter(cont["anchors"]))]
    RB = float(np.linalg.norm(SB0.V, axis=1).max())
    for an in starts:
        a0 = np.asarray(cont["anchors"][an], float)
        # the object must start strictly inside (surfaces not touching) for inside-out motion
        v0, m0, _ = S.contained_in_terms(SB0.translated(a0), cont["terms"], TOL)
        for dn in cont["dirs"]:
            d = np.asarray(DIRS[dn], float)
            if v0 is True and m0 > 0.06:
                s = advance_terms(cont["terms"], SB0, a0, d, 0.05)
                if s is not None:
                    out.append((f"{an}+{dn}:inside-clear0.05", a0 + s * d))
                    out.append((f"{an}+{dn}:crossing", a0 + (s + 0.11) * d))
                    out.append((f"{an}+{dn}:mostly-out", a0 + (s + 0.05 + 1.2 * RB) * d))
            # outside-in along -d from far away (only meaningful if the motion can leave the solid)
            if not (cont["kind"] == "footprint" and dn == "z"):
                far = a0 + 14.0 * d
                s2 = advance_terms(cont["terms"], SB0, far, -d, 0.05)
                if s2 is not None:
                    out.append((f"{an}+{dn}:outside-gap0.05", far - s2 * d))
                    out.append((f"{an}+{dn}:far", far - (s2 - 1.5) * d))
    return out


def co_group(item):
    cname, kind, oi, sizename, tier = item
    st = new_stats()
    cont = get_container(cname)
    dims = OBJ_SIZES[sizename]
    spec0 = (kind, (0.0, 0.0, 0.0), dims, ORI[oi])
    SB0 = solid_of(mk_obj(spec0))
    routes = list(CO_ROUTES[cont["kind"]])
    tol = FOOT_TOL if cont["kind"] != "mesh" else TOL
    for label, pos in co_placements(cont, SB0):
        spec = (kind, tuple(float(x) for x in pos), dims, ORI[oi])
        run_co_case(st, cname, cont, spec, label, routes, tol)
    return _pack(st)


def run_co_case(st, cname, cont, spec, label, routes, tol):
    obj = mk_obj(spec)
    SB = solid_of(obj)
    verdict, margin, detail = S.contained_in_terms(SB, cont["terms"], tol)
    st["cases"] += 1
    if "alt_terms" in cont:
        v2, m2, _ = S.contained_in_terms(SB, cont["alt_terms"], tol)
        if verdict is not None and v2 is not None and v2 != verdict and min(margin, m2) > 10 * tol:
            raise HarnessError(f"oracle disagrees with itself on two models of container {cname}: {verdict} vs {v2} for {spec}")
    if verdict is None:
        st["skipped_touching"] += 1
        return
    if cont["kind"] == "footprint" and verdict is True:
        if not S.in_prism(SB.V, FOOT_OUTER, [FOOT_HOLE], -ZBIG, ZBIG).all():
            raise HarnessError("oracle inconsistent with analytic prism membership")
    st["judged"] += 1
    key = f"co:{spec[0]}-in-{cname}"
    st["answers"].setdefault(key, set()).add(verdict)
    st["min_margin"] = min(st["min_margin"], margin)
    if margin >= 0.05 - 1e-9:
        st["margins_ge_005"] += 1
    case_base = {"kind": "co", "container": cname, "spec": spec, "placement": label}
    if len(st["samples"]) < 2:
        st["samples"].append({**case_base, "oracle": {"contained": verdict, "margin": margin}})
    plan = [(r, "method") for r in routes] + [("default", "in"), ("default", "requirement")]
    for route, via in plan:
        try:
            got, dec = eval_contains(cname, route, spec, via)
        except Exception as e:
            st["violations"].append(
                (
                    f"containsObject-exception:{cname}:{route}:{type(e).__name__}:{spec[0]}",
                    f"{type(e).__name__}: {e} in containsObject via {via} route {route}, container {cname}, object {spec}",
                    {**case_base, "route": route, "via": via},
                )
            )
            continue
        st["evaluations"] += 1
        st["routes"][f"co:{cont['kind']}:{route}"] += 1
        st["deciders"][f"{dec}={'T' if got else 'F'}"] += 1
        if got != verdict:
            st["violations"].append(
                (
                    f"containsObject:{cname}:{route}/{dec.split('/')[-1]}:{spec[0]}",
                    f"{cname}.containsObject(obj) via {via}, route {route} (decided by {dec}) = {got}; exact solid geometry says contained={verdict} "
                    f"(margin {margin:.6f}; per term (sign, verdict, margin): {detail})\nobj={spec} placement={label}",
                    {**case_base, "route": route, "via": via},
                )
            )



# ------------------------------------------------------------------------------------------
# history items: ONE shared region / object asked a sequence of questions; cached bounding
# data (bounded footprints, occupied spaces, cached methods) must not change any answer
# ------------------------------------------------------------------------------------------
HIST_LEN = {"quick": 3, "thorough": 4}  # number of queries per sequence (priors + probe)

# alphabet for the footprint-based families: objects at clearly different altitudes; the
# polygon is FOOT_OUTER with the hole FOOT_HOLE
HIST_FOOT = [
    ("box", (-1.5, 0.0, 0.0), (0.5, 0.4, 0.3), ORI[0]),  # over the material, ground level
    ("box", (1.0, 0.0, 10.0), (0.5, 0.4, 0.3), ORI[4]),  # hovering entirely over the hole, high up
    ("cone", (-1.0, 1.0, -7.0), (0.5, 0.5, 0.8), ORI[2]),  # over the material, far below
    ("cyl", (2.9, 0.5, 0.9), (0.4, 0.4, 0.7), ORI[0]),  # straddles the outer edge and the top of the first slab
    ("box", (-1.5, 0.5, 300.0), (0.5, 0.4, 0.3), ORI[1]),  # beyond any padded cache of a ground-level query
    ("L", (6.0, 6.0, 4.0), (0.5, 0.5, 0.3), ORI[3]),  # outside in xy
    ("U", (1.6, 0.0, -40.0), (0.6, 0.5, 0.3), ORI[7]),  # straddles the edge of the hole, deep below
]
# alphabet for the mesh container (the L mesh of build_container) and for the shared object
HIST_MESH = [
    ("box", "arm1", (0.0, 0.0, 0.0), (0.5, 0.4, 0.3), ORI[0]),
    ("cone", "notch", (0.0, 0.0, 0.2), (0.5, 0.5, 0.8), ORI[2]),
    ("cyl", "arm2", (0.0, 0.0, 1.1), (0.4, 0.4, 0.7), ORI[0]),  # pokes out of the top
    ("box", "corner", (0.1, 0.1, -0.3), (0.5, 0.4, 0.3), ORI[4]),
    ("L", "arm1", (0.0, 0.0, 9.0), (0.5, 0.5, 0.3), ORI[3]),  # far above
    ("U", "arm2", (0.2, -0.1, 0.0), (0.6, 0.5, 0.3), ORI[7]),
    ("box", "arm1", (30.0, 0.0, 0.0), (0.5, 0.4, 0.3), ORI[1]),
]
HIST_FAMILIES = ["footprint-intersects", "polyregion-footprint-intersects", "difference-footprints", "difference-box-footprint", "intersection-box-footprint", "mesh-container", "shared-object"]
HIST_TALL_BOX = dict(dimensions=(5.6, 4.6, 800.0), position=(0.0, 0.0, 0.0))


def _hist_alphabet(family, tier):
    n = 6 if tier == "quick" else 7
    if family in ("mesh-container", "shared-object"):
        cont = get_container("Lmesh")
        return [(k, tuple(float(x) for x in (np.asarray(cont["anchors"][an], float) + np.asarray(off, float))), dims, ori) for k, an, off, dims, ori in HIST_MESH[:n]]
    return HIST_FOOT[:n]


def _hist_build(family):
    """-> (fresh shared thing, query(thing, obj) -> bool, oracle(Solid) -> (verdict, margin))"""
    import shapely.geometry
    from scenic.core.regions import BoxRegion, DifferenceRegion, IntersectionRegion, MeshVolumeRegion, PolygonalFootprintRegion, PolygonalRegion
    from scenic.core.vectors import Vector

    ring = S.Solid(*S.frame_mesh((FOOT_OUTER[0][0], FOOT_OUTER[0][1], FOOT_OUTER[2][0], FOOT_OUTER[2][1]), (FOOT_HOLE[0][0], FOOT_HOLE[0][1], FOOT_HOLE[2][0], FOOT_HOLE[2][1]), -2000.0, 2000.0))

    def overlap_ring(SB):
        rel = S.relate(ring, SB, FOOT_TOL)
        return rel.overlap, (abs(rel.margin) if rel.margin is not None else 0.0)

    def prism(ringpts):
        return S.Solid(*S.prism_mesh(ringpts, -2000.0, 2000.0))

    if family == "footprint-intersects":
        reg = PolygonalFootprintRegion(shapely.geometry.Polygon(FOOT_OUTER, [FOOT_HOLE]))
        return reg, (lambda r, o: o.intersects(r)), overlap_ring
    if family == "polyregion-footprint-intersects":
        pr = PolygonalRegion(polygon=shapely.geometry.Polygon(FOOT_OUTER, [FOOT_HOLE]), z=1.5)
        return pr, (lambda r, o: o.intersects(r.footprint)), overlap_ring
    if family == "difference-footprints":
        reg = DifferenceRegion(PolygonalRegion(points=FOOT_OUTER), PolygonalRegion(points=FOOT_HOLE))
        terms = [(prism(FOOT_OUTER), +1), (prism(FOOT_HOLE), -1)]
        return reg, (lambda r, o: r.containsObject(o)), (lambda SB: S.contained_in_terms(SB, terms, FOOT_TOL)[:2])
    if family in ("difference-box-footprint", "intersection-box-footprint"):
        box = BoxRegion(dimensions=HIST_TALL_BOX["dimensions"], position=Vector(*HIST_TALL_BOX["position"]))
        bs = solid_of_region(box)
        if family == "difference-box-footprint":
            reg = DifferenceRegion(box, PolygonalRegion(points=FOOT_HOLE))
            terms = [(bs, +1), (prism(FOOT_HOLE), -1)]
        else:
            reg = IntersectionRegion(box, PolygonalRegion(polygon=shapely.geometry.Polygon(FOOT_OUTER, [FOOT_HOLE])))
            terms = [(bs, +1), (prism(FOOT_OUTER), +1), (prism(FOOT_HOLE), -1)]
        return reg, (lambda r, o: r.containsObject(o)), (lambda SB: S.contained_in_terms(SB, terms, FOOT_TOL)[:2])
    if family == "mesh-container":
        cont = build_container("Lmesh")  # fresh, not the per-worker cached one
        terms = cont["terms"]
        return cont["region"], (lambda r, o: r.containsObject(o)), (lambda SB: S.contained_in_terms(SB, terms, TOL)[:2])
    if family == "shared-object":
        spec = ("L", (0.0, 0.0, 1.0), (6.0, 6.0, 2.4), (10 * DEG, 0.0, 0.0))
        a = mk_obj(spec)
        SA = solid_of(a)

        def orc(SB):
            rel = S.relate(SA, SB, TOL)
            return rel.overlap, (abs(rel.margin) if rel.margin is not None else 0.0)

        def q(a_, o):
            r1 = bool(a_.intersects(o))
            r2 = bool(o.intersects(a_))
            if r1 != r2:
                raise _Asymmetric(r1, r2)
            return r1

        return a, q, orc
    raise KeyError(family)


class _Asymmetric(Exception):
    pass


class _CacheSpy:
    """Harness-side observer of PolygonalFootprintRegion.approxBoundFootprint: was the bounded
    volume built for the first time, reused from the cache, or rebuilt (cache replaced)?"""

    def __init__(self, p):
        from scenic.core.regions import PolygonalFootprintRegion

        self.events = []
        real = PolygonalFootprintRegion.approxBoundFootprint
        spy = self

        def approxBoundFootprint(self_, centerZ, height):
            before = self_._bounded_cache
            out = real(self_, centerZ, height)
            if before is None:
                spy.events.append("cache-fresh")
            elif out is before[2]:
                spy.events.append("cache-reused")
            else:
                spy.events.append("cache-replaced")
            return out

        p.set(PolygonalFootprintRegion, "approxBoundFootprint", approxBoundFootprint)

    def take(self):
        ev, self.events = self.events, []
        return ev[-1] if ev else "no-bounded-footprint"


def _hist_query(query, thing, obj, spy):
    np.random.seed(NPSEED)
    spy.take()
    try:
        got = bool(query(thing, obj))
    except _Asymmetric as e:
        got = ("asymmetric", e.args)
    return got, spy.take()


def hist_run_sequence(family, alphabet, seq, spy):
    """Fresh shared thing, fresh objects (one per alphabet element, re-used when an element
    repeats in the sequence so that per-object caches are exercised too)."""
    thing, query, _ = _hist_build(family)
    objs = {}
    out = []
    for i in seq:
        if i not in objs:
            objs[i] = mk_obj(alphabet[i])
        out.append(_hist_query(query, thing, objs[i], spy))
    return out


def hist_group(item):
    family, first, tier = item
    st = new_stats()
    st["hist_states"] = Counter()
    alphabet = _hist_alphabet(family, tier)
    n, L = len(alphabet), HIST_LEN[tier]
    _, _, oracle = _hist_build(family)
    truth = []
    for spec in alphabet:
        v, m = oracle(solid_of(mk_obj(spec)))
        truth.append((v, m))
    p = Patches()
    try:
        spy = _CacheSpy(p)
        fresh = [hist_run_sequence(family, alphabet, (i,), spy)[0][0] for i in range(n)]
        import itertools

        for rest in itertools.product(range(n), repeat=L - 1):
            seq = (first,) + rest
            res = hist_run_sequence(family, alphabet, seq, spy)
            st["cases"] += 1
            for k, (got, state) in enumerate(res):
                i = seq[k]
                v, m = truth[i]
                st["evaluations"] += 1
                st["hist_states"][f"{family}:{state}"] += 1
                kindname = alphabet[i][0]
                case = {"kind": "hist", "family": family, "tier": tier, "seq": list(seq[: k + 1])}
                hist = " -> ".join(f"#{j}:{alphabet[j][0]}@z={alphabet[j][1][2]:g}" for j in seq[: k + 1])
                if isinstance(got, tuple):
                    st["violations"].append((f"history:{family}:asymmetric:{kindname}", f"A.intersects(B) = {got[1][0]} but B.intersects(A) = {got[1][1]} after the query sequence {hist}", case))
                    continue
                if got != fresh[i]:
                    st["violations"].append(
                        (
                            f"history-dependence:{family}:{state}:{kindname}",
                            f"the answer depends on what the shared {family} was asked before: query sequence {hist} ends with {got}, the same question on a freshly built one gives {fresh[i]} "
                            f"(exact solid geometry: {v}, margin {m:.4f})\nobject={alphabet[i]}",
                            case,
                        )
                    )
                if v is None:
                    st["skipped_touching"] += 1
                    continue
                st["judged"] += 1
                st["answers"].setdefault(f"hist:{family}", set()).add(v)
                if got != v:
                    st["violations"].append(
                        (
                            f"history:{family}:{state}:{kindname}",
                            f"shared {family}, query sequence {hist}: the last answer is {got}, exact solid geometry says {v} (margin {m:.4f}; bounded-footprint cache state for this query: {state})\nobject={alphabet[i]}",
                            case,
                        )
                    )
    finally:
        p.close()
    if len(st["samples"]) < 1:
        st["samples"].append({"kind": "hist", "family": family, "alphabet": alphabet[:2], "sequence_length": L})
    r = _pack(st)
    r["hist_states"] = dict(st["hist_states"])
    return r


# ------------------------------------------------------------------------------------------
# oracle self-test (harness consistency, runs before anything is judged)
# ------------------------------------------------------------------------------------------
def selftest():
    # primitives on hand-computed configurations
    z = np.zeros((1, 3))
    e = np.eye(3)
    if abs(S.point_triangle_dist(np.array([[0.2, 0.2, 2.0]]), z, e[0:1], e[1:2])[0] - 2.0) > 1e-12:
        raise HarnessError("point_triangle_dist broken")
    if abs(S.point_triangle_dist(np.array([[2.0, 0.0, 0.0]]), z, e[0:1], e[1:2])[0] - 1.0) > 1e-12:
        raise HarnessError("point_triangle_dist (vertex region) broken")
    d = S.segment_segment_dist(np.array([[0.0, 0, 0]]), np.array([[1.0, 0, 0]]), np.array([[0.5, -1, 0.3]]), np.array([[0.5, 1, 0.3]]))[0]
    if abs(d - 0.3) > 1e-12:
        raise HarnessError("segment_segment_dist broken")
    d = S.segment_segment_dist(np.array([[0.0, 0, 0]]), np.array([[1.0, 0, 0]]), np.array([[2.0, 0, 0]]), np.array([[3.0, 0, 0]]))[0]
    if abs(d - 1.0) > 1e-12:
        raise HarnessError("segment_segment_dist (collinear) broken")
    ok, m = S.segment_triangle_pierce(np.array([[0.2, 0.2, -1.0]]), np.array([[0.2, 0.2, 1.0]]), z, e[0:1], e[1:2])
    if not ok[0] or abs(m[0] - 0.2) > 1e-12:
        raise HarnessError("segment_triangle_pierce broken")
    # unit shapes: parity vs winding number vs closed form, on a lattice
    ax = np.linspace(-0.62, 0.62, 9)
    P = np.stack(np.meshgrid(ax, ax, ax, indexing="ij"), -1).reshape(-1, 3) + np.array((0.0113, -0.0071, 0.0057))
    for kind in ALL_KINDS:
        sh = make_shape(kind)
        sol = S.Solid(np.array(sh.mesh.vertices), np.array(sh.mesh.faces))
        if S.is_convex(sol) != (kind in ("box", "cyl", "cone", "sph")):
            raise HarnessError(f"{kind}: oracle convexity test wrong")
        if not analytic_inside(kind, sol.V, 1 + 1e-9).all():
            raise HarnessError(f"vertices of the {kind} mesh are not in the analytic {kind}")
        vol_an = {"box": 1.0, "cyl": math.pi / 4, "cone": math.pi / 12, "sph": math.pi / 6, "two": 0.6, "L": 0.75, "U": 0.405, "ring": 0.51}[kind]
        if not (0.955 <= sol.volume() / vol_an <= 1 + 1e-9):
            raise HarnessError(f"{kind}: mesh volume {sol.volume()} vs analytic {vol_an}")
        par = S.points_in_mesh(P, sol)
        wn = S.winding_number(P, sol)
        dist = S.point_surface_dist(P, sol)
        clear = dist > 1e-3
        if (par[clear] < 0).any():
            raise HarnessError(f"{kind}: parity test undecided away from the surface")
        if ((par == 1) != (np.abs(wn) > 0.5))[clear].any():
            raise HarnessError(f"{kind}: ray parity and winding number disagree")
        inn = analytic_inside(kind, P, SHRINK[kind])
        out = ~analytic_inside(kind, P, 1.0)
        if (par[inn & clear] != 1).any() or (par[out & clear] != 0).any():
            raise HarnessError(f"{kind}: mesh membership contradicts analytic membership")
        if kind in ("two",) and len(sol.reps) != 2:
            raise HarnessError("two-body mesh does not have two surface components")
    # relations on known configurations
    big = S.Solid(*S.box_mesh((-2, -2, -2), (2, 2, 2)))
    small = S.Solid(*S.box_mesh((-0.5, -0.5, -0.5), (0.5, 0.5, 0.5)))
    r = S.relate(big, small)
    if not (r.overlap is True and r.b_in_a is True and r.a_in_b is False and abs(r.surface_gap - 1.5) < 1e-12):
        raise HarnessError("relate: nested boxes")
    r = S.relate(big, small.translated((3.0, 0, 0)))
    if not (r.overlap is False and abs(r.margin - 0.5) < 1e-12 and r.b_in_a is False):
        raise HarnessError("relate: disjoint boxes")
    r = S.relate(big, small.translated((2.0, 0.1, 0.2)))
    if not (r.overlap is True and r.b_in_a is False and r.crossing):
        raise HarnessError("relate: crossing boxes")
    # shell with a void: an object in the void is outside; one enclosing the void is not contained
    Vv, Fv = S.box_mesh((-1, -1, -1), (1, 1, 1))
    shell = S.Solid(*S.concat_meshes([S.box_mesh((-2, -2, -2), (2, 2, 2)), (Vv, Fv[:, ::-1])]))
    r = S.relate(shell, small)
    if not (r.overlap is False and r.b_in_a is False):
        raise HarnessError("relate: object in a void")
    mid = S.Solid(*S.box_mesh((-1.5, -1.5, -1.5), (1.5, 1.5, 1.5)))
    r = S.relate(shell, mid)
    if not (r.overlap is True and r.b_in_a is False):
        raise HarnessError("relate: object enclosing a void")
    # needle through a big face: surfaces cross although all vertex/edge distances are large
    needle = S.Solid(*S.box_mesh((-0.05, -0.05, -5), (0.05, 0.05, 5)))
    slab = S.Solid(*S.box_mesh((-3, -3, -0.2), (3, 3, 0.2)))
    r = S.relate(slab, needle)
    if not (r.overlap is True and r.crossing):
        raise HarnessError("relate: needle through slab")


# ------------------------------------------------------------------------------------------
# plan / run / replay
# ------------------------------------------------------------------------------------------
def plan(tier):
    oo, co = [], []
    if tier == "quick":
        configs = [(0, 1, "S1", ("x",)), (4, 2, "S2", ("d",)), (5, 0, "S2", ("z",))]
        for ka in KINDS:
            for kb in KINDS:
                for oa, ob, size, dirs in configs:
                    oo.append((ka, kb, oa, ob, size, dirs, tier))
                if kb == "two":  # small two-body B half swallowed by A, from both sides
                    oo.append((ka, kb, 0, 0, "S2", ("x", "-x"), tier))
        # interior-point shortcuts: a small partner centred where the (rightly / wrongly
        # transformed) precomputed interior point of a rotated non-convex A is
        for ka in NONCONVEX:
            for oa in (6, 7) if ka in KINDS_X else (7,):
                oo.append((ka, "cyl", oa, 0, "S3", (), tier, "ghosts"))
        # a small rotated non-convex B nested in / beside a rotated non-convex A (no surface contact)
        for kb in ("L", "U", "ring"):
            for ob in (6, 5) if kb in KINDS_X else (6,):
                oo.append(("L", kb, 6, ob, "S4", (), tier, "hug"))
        for cname in ["box", "convexmesh", "Lmesh", "cavity", "footprint", "intersection", "difference"]:
            for kind in KINDS:
                for oi, sz in ((0, "small"), (4, "small")):
                    co.append((cname, kind, oi, sz, tier))
        co += [("Lmesh", "U", 7, "small", tier), ("difference", "ring", 6, "small", tier), ("footprint", "U", 6, "small", tier)]
    else:
        for ka in KINDS:
            for kb in KINDS:
                for oa in range(6):
                    for ob in sorted({oa, (oa + 1) % 6, (oa + 4) % 6}):
                        for size in ("S1", "S2"):
                            dirs = ("x", "y", "z", "d") if size == "S1" else ("x", "q", "-x")
                            oo.append((ka, kb, oa, ob, size, dirs, tier))
        xcombos = [(0, 6), (6, 7), (7, 4), (4, 1), (2, 7), (5, 6)]
        for ka in ALL_KINDS:
            for kb in ALL_KINDS:
                if ka in KINDS_X or kb in KINDS_X:
                    for oa, ob in xcombos:
                        oo.append((ka, kb, oa, ob, "S1", ("x", "d"), tier))
                        oo.append((ka, kb, oa, ob, "S2", ("x", "-x"), tier))
        for ka in NONCONVEX:
            for oa in range(len(ORI)):
                for kb in ("cyl", "box"):
                    oo.append((ka, kb, oa, (oa + 3) % len(ORI), "S3", (), tier, "ghosts"))
        for ka in ("L", "box", "cyl"):
            for kb in ("L", "U", "ring"):
                for oa in (0, 6, 1):
                    for ob in (6, 5, 1, 7):
                        oo.append((ka, kb, oa, ob, "S4", (), tier, "hug"))
        for cname in CONTAINERS:
            for kind in KINDS:
                for oi in range(6):
                    for sz in ("small", "medium"):
                        co.append((cname, kind, oi, sz, tier))
            for kind in KINDS_X:
                for oi in (4, 6, 7):
                    for sz in ("small", "medium"):
                        co.append((cname, kind, oi, sz, tier))
    return oo, co


def _is_interior_point_group(tag, payload):
    if tag == "oo":
        return len(payload) > 7 or payload[0] in KINDS_X or payload[1] in KINDS_X
    return payload[1] in KINDS_X


def work(item):
    import time as _time

    tag, payload = item
    t0 = _time.process_time()
    if tag == "hist":
        r = hist_group(payload)
        r["cpu"] = {"history_items": _time.process_time() - t0}
        return r
    r = oo_group(payload) if tag == "oo" else co_group(payload)
    part = "interior_point_groups" if _is_interior_point_group(tag, payload) else "base_lattice"
    r["cpu"] = {part: _time.process_time() - t0, "seam_checks": r.pop("cpu_seam", 0.0)}
    return r


def run(ctx):
    import time as _time

    _t0 = _time.time()
    selftest()
    ctx.cov["selftest_s"] = round(_time.time() - _t0, 2)
    tracer()
    _nobounds_class()
    oo, co = plan(ctx.tier)
    hist = []
    for fam in HIST_FAMILIES:
        for first in range(len(_hist_alphabet(fam, ctx.tier))):
            hist.append((fam, first, ctx.tier))
    items = ctx.rotate([("oo", x) for x in oo] + [("co", x) for x in co] + [("hist", x) for x in hist])
    # interleave so that expensive groups are spread over workers
    tot = new_stats()
    for r in ctx.pmap(work, items, chunksize=1):
        merge_stats(tot, _unpack(r))
    for sig, desc, case in tot["violations"]:
        ctx.violation(sig, desc, case)
    dec = tot["deciders"]
    by_dec = Counter()
    for k, v in dec.items():
        by_dec[k.rsplit("=", 1)[0]] += v
    missing = [d for d in EXPECTED_DECIDERS if by_dec.get(d, 0) == 0]
    one_sided = [d for d in BOTH_ANSWERS if not (dec.get(d + "=T", 0) and dec.get(d + "=F", 0))]
    single_answer = sorted(k for k, v in tot["answers"].items() if len(v) < 2)
    ctx.cov.update(
        evaluations=tot["evaluations"],
        distinct_nontrivial=tot["judged"],
        geometric_cases=tot["cases"],
        judged_cases=tot["judged"],
        skipped_touching=tot["skipped_touching"],
        collisions={k: dec[k] for k in sorted(dec)},
        evaluations_per_route={k: tot["routes"][k] for k in sorted(tot["routes"])},
        pairs_with_both_answers=sum(1 for v in tot["answers"].values() if len(v) == 2),
        pairs_total=len(tot["answers"]),
        min_abs_margin=tot["min_margin"],
        judged_with_margin_ge_0_05=tot["margins_ge_005"],
        distance_checks=tot["dist_checked"],
        precomputed_geometry_seam_checks=tot["seam_checks"],
        worker_cpu_s={k: round(v, 1) for k, v in tot.get("cpu", {}).items()},
        distance_max_abs_error_when_disjoint=tot["dist_maxerr"],
        groups={"object_object": len(oo), "object_region": len(co), "history": len(hist)},
        history_sequences=tot.get("hist_sequences", 0),
        history_cache_states={k: tot.get("hist_states", {})[k] for k in sorted(tot.get("hist_states", {}))},
        rule="object/object: all ordered pairs of {box,cyl,cone,spheroid,two-body mesh,L mesh} x orientation pairs x size sets x "
        "placements {apart, gap 0.05, overlap, deep} along the tier's directions + anchor points inside bodies/cavities of A; "
        "object/region: the six shapes x orientations x sizes x placements {anchors, inside with clearance 0.05, crossing, mostly out, "
        "outside gap 0.05, far} for each container; every case is evaluated once per forced internal route and compared with "
        "models/solid.py on Scenic's own mesh arrays; non-trivial = judged case (|margin| >= 1e-4; both answers occur for every pair)",
        samples=tot["samples"][:6],
        bounds={"tier": ctx.tier, "orientations": ORI_NAMES, "sizes": SIZES, "object_sizes": OBJ_SIZES, "touching_tolerance": TOL, "footprint_tolerance": FOOT_TOL},
    )
    ctx.assumptions += [
        "obj.occupiedSpace.mesh / region.mesh are the solids Scenic reasons about (the oracle runs on these arrays; their pose is checked against an independent pose model)",
        "numpy's global RNG is seeded before each evaluation (Scenic's containment passes 3/4 draw a candidate point with trimesh.sample.volume_mesh when the centre is not inside); the verdict must not depend on the draw",
        "footprint containment is judged only when the clearance/protrusion exceeds 2e-3 (Scenic pads projected meshes by rpad=1e-4 x scale)",
    ]
    ctx.notes += [
        "routes forced: intersects {default,no1,no2Ain,no1-no2A,noconvex,noconvex-no4,only5,unscaled,unscaled-no1,unscaled-no1-no2B,unscaled-noconvex[,unscaled-only5]}; "
        "containsObject mesh {default,no1,no2a,noconvex,noconvex-no3,noconvex-no4,only5,no1-only5}; footprint {default,noplanar,objnonconvex,objnonconvex-nohull}; composite {default,noconvex,general,no1-general}",
        "the planar-box fast path of Object.intersects cannot be forced ON for other shapes (it would be unsound); it is forced OFF (noplanar) in every non-default route",
        "every pass could be made inconclusive from outside (no /repo edit): PASS 1 via _circumradius=inf; PASS 2A via _interiorPointRadii=(0,inf); PASS 2B and containsObject PASS 1 via a Trimesh subclass "
        "whose .bounds is infinite only when read from those two functions' own frames; PASS 3 via an fcl shim whose collide() says no and isConvex=False; PASS 4 via _bodyCount=2; containsObject PASS 2 via "
        "isConvex=False / an unreachable boundingBox; PASS 3/4 via making the candidate interior point unavailable.  When intersects PASS 3 is disabled PASS 4 must be skipped too (it presupposes that "
        "PASS 3 found no surface collision), so that route is decided by PASS 5 alone",
        "precomputed per-shape geometry: every object of the lattice is built with fixed dimensions (Object._with), so obj.occupiedSpace._scaledShape is present in the default route (asserted) "
        "and absent in the unscaled routes; for each A and B of every group the interior point, in-/circum-balls, _circumradius, body count, convexity flag and FCL transform are compared with the posed mesh (seam check)",
        "history items: one shared PolygonalFootprintRegion / PolygonalRegion.footprint / DifferenceRegion / IntersectionRegion / MeshVolumeRegion / Object is asked every sequence of HIST_LEN questions over an alphabet of "
        "objects at altitudes {0, 10, -7, straddling the first slab, 300[, 4, -40]}; every answer of every sequence is compared with the exact oracle and with the same question on a freshly built region; "
        "a harness-side wrapper of approxBoundFootprint records whether the bounded footprint was fresh / reused / replaced",
        "not judged here: Object.intersects(Region) for mesh regions (only object/object and Region.containsObject are in the lattice); MeshSurfaceRegion / PolygonalFootprintRegion branches of MeshVolumeRegion.intersects",
    ]
    ctx.notes += sorted(tot["notes"])
    # vacuity guards, per family: a guard is waived only if the same family already has
    # violations (a broken pass may legitimately become unreachable); harness errors never
    # hide violations
    fam_of = lambda name: "distance" if "minimumDistanceTo" in name else ("contains" if "containsObject" in name else "intersects")
    bad_fams = set()
    for v in ctx.violations:
        sg = v["signature"]
        bad_fams.add("distance" if sg.startswith("minimumDistanceTo") else ("contains" if sg.startswith("containsObject") else "intersects"))
    problems = []
    for d in missing:
        if fam_of(d) not in bad_fams:
            problems.append(f"pass {d} never decided a judged case")
    for d in one_sided:
        if fam_of(d) not in bad_fams:
            problems.append(f"pass {d} never produced both answers")
    hs = tot.get("hist_states", {})
    if "history" not in {("history" if v["signature"].startswith("history") else "") for v in ctx.violations}:
        for fam in ("footprint-intersects", "polyregion-footprint-intersects", "difference-footprints", "difference-box-footprint"):
            for state in ("cache-fresh", "cache-reused", "cache-replaced"):
                if not hs.get(f"{fam}:{state}", 0):
                    problems.append(f"history family {fam}: no query was answered with the bounded-footprint cache in state {state}")
        for fam in HIST_FAMILIES:
            if not any(k.startswith(fam + ":") for k in hs):
                problems.append(f"history family {fam} did not run")
    if single_answer:
        problems.append(f"only one oracle answer occurred for {single_answer[:8]} ({len(single_answer)} pairs)")
    if tot["judged"] < 0.6 * tot["cases"]:
        problems.append(f"too many touching cases skipped: judged {tot['judged']} of {tot['cases']}")
    ctx.cov["vacuity_problems"] = problems
    if missing or one_sided:
        ctx.notes.append(f"passes that never decided: {missing}; one-sided: {one_sided}")
    if problems:
        if ctx.violations:  # do not hide them behind the harness error
            sigs = Counter(v["signature"] for v in ctx.violations)
            print(f"(before harness error) {len(ctx.violations)} violating cases by signature: {dict(sigs)}")
        raise HarnessError("vacuous: " + "; ".join(problems))


def _tup(x):
    if isinstance(x, list):
        return tuple(_tup(y) for y in x)
    return x


def replay(ctx, case):
    tracer()
    _nobounds_class()
    st = new_stats()
    if case["kind"] == "pose":
        spec = _tup(case["spec"])
        err = pose_error(spec, solid_of(mk_obj(spec)))
        if err > 1e-9:
            ctx.violation(f"occupiedSpace-pose:{spec[0]}", f"pose error {err} for {spec}", case)
        return
    if case["kind"] == "hist":
        family, tier, seq = case["family"], case["tier"], tuple(case["seq"])
        alphabet = _hist_alphabet(family, tier)
        _, _, oracle = _hist_build(family)
        i = seq[-1]
        v, m = oracle(solid_of(mk_obj(alphabet[i])))
        p = Patches()
        try:
            spy = _CacheSpy(p)
            fresh = hist_run_sequence(family, alphabet, (i,), spy)[0][0]
            got, state = hist_run_sequence(family, alphabet, seq, spy)[-1]
        finally:
            p.close()
        kindname = alphabet[i][0]
        if isinstance(got, tuple):
            ctx.violation(f"history:{family}:asymmetric:{kindname}", f"asymmetric answers {got[1]} after {seq}", case)
        else:
            if got != fresh:
                ctx.violation(f"history-dependence:{family}:{state}:{kindname}", f"sequence {seq}: {got}; fresh region: {fresh}; exact: {v}", case)
            if v is not None and got != v:
                ctx.violation(f"history:{family}:{state}:{kindname}", f"sequence {seq}: {got}; exact solid geometry: {v} (margin {m:.4f}), cache state {state}", case)
        return
    if case["kind"] == "seam":
        spec = _tup(case["spec"])
        seam_check(st, spec)
        for sig, desc, c in st["violations"]:
            if c["mode"] == case["mode"] and c["tag"] == case["tag"]:
                ctx.violation(sig, desc, case)
        return
    if case["kind"] == "oo":
        specA, specB = _tup(case["specA"]), _tup(case["specB"])
        SA = solid_of(mk_obj(specA))
        SB = solid_of(mk_obj(specB))
        rel = S.relate(SA, SB, TOL)
        if rel.overlap is None:
            return
        pair = f"{specA[0]}-vs-{specB[0]}"
        if case["what"] == "intersects":
            try:
                got, dec = eval_intersects(case["route"], specA, specB, case["via"], case["reverse"])
            except Exception as e:
                ctx.violation(f"intersects-exception:{case['route']}:{type(e).__name__}:{pair}", repr(e), case)
                return
            if got != rel.overlap:
                ctx.violation(
                    f"intersects:{case['route']}/{dec.split('/')[-1]}:{pair}",
                    f"intersects route {case['route']} via {case['via']} reverse={case['reverse']} (decided by {dec}) = {got}; exact overlap={rel.overlap} margin {rel.margin:+.6f}\nA={specA}\nB={specB}",
                    case,
                )
        else:
            route, noplanar = case["route"], case["noplanar"]
            try:
                d, dec = eval_distance(route, specA, specB, noplanar)
            except Exception as e:
                ctx.violation(f"minimumDistanceTo-exception:{route}:{type(e).__name__}:{pair}", repr(e), case)
                return
            if rel.overlap:
                ok = d <= 1e-9
                kindsig = "positive-when-overlapping" if rel.crossing else "positive-when-nested"
            else:
                ok = abs(d - rel.margin) <= DIST_TOL
                kindsig = "wrong-gap-" + _convexity(specA, specB)
            if not ok:
                ctx.violation(
                    f"minimumDistanceTo:{kindsig}:{route}{'+noplanar' if noplanar else ''}/{dec.split('/')[-1]}:{pair}",
                    f"minimumDistanceTo = {d!r} (decided by {dec}); exact overlap={rel.overlap} margin {rel.margin:+.9f}\nA={specA}\nB={specB}",
                    case,
                )
        return
    if case["kind"] == "co":
        cname, spec = case["container"], _tup(case["spec"])
        cont = get_container(cname)
        tol = FOOT_TOL if cont["kind"] != "mesh" else TOL
        verdict, margin, detail = S.contained_in_terms(solid_of(mk_obj(spec)), cont["terms"], tol)
        if verdict is None:
            return
        try:
            got, dec = eval_contains(cname, case["route"], spec, case["via"])
        except Exception as e:
            ctx.violation(f"containsObject-exception:{cname}:{case['route']}:{type(e).__name__}:{spec[0]}", repr(e), case)
            return
        if got != verdict:
            ctx.violation(
                f"containsObject:{cname}:{case['route']}/{dec.split('/')[-1]}:{spec[0]}",
                f"{cname}.containsObject via {case['via']} route {case['route']} (decided by {dec}) = {got}; exact contained={verdict} margin {margin:.6f} {detail}\nobj={spec}",
                case,
            )
