"""C16 — region operations obey set semantics in full 3-D.

Bounded-exhaustive (no sampling): every ordered pair of 13 region kinds (box, spheroid,
non-convex mesh volume, mesh surface, polygon with hole, circle, sector, rectangle,
polyline, 3-D path, point set, grid, polygonal footprint; 1 shape each in the quick tier,
2 in the thorough tier; planar ones at non-zero height) x {intersect, union, difference}
x configurations x a probe lattice, judged by the independent analytic predicates of
models/solid_c16.py.  Work items:

 op     R = A.op(B) through the public methods (eager, and with lazily constructed
        operands that are then sampled):  R.containsPoint(p) <=> op(p in A, p in B) with
        the *oracle's* operand membership; where R answers distanceTo, distance 0 on
        members and >= margin/2 on clear non-members; every member probe inside R.AABB;
        distanceTo(A u B) = min of the operand distances.
        Configurations: std; partner brought down to z = 0 for the kinds the library
        locks at z = 0 (polyline); second planar operand raised by 0.75; a few deliberately
        degenerate but valid inputs (touching in one point, sector wider than 120 deg).
 prim   per shape: containsPoint, distanceTo (exact value), AABB, size, dimensionality.
 rel    per ordered pair: A.intersects(B) with overlap / apart in x / apart in z only;
        A.containsRegion(B) with an outside witness (must be false) and with a shrunk copy
        of B inside a ball contained in A (must be true).
 sizes  |A u B| + |A n B| = |A| + |B| and |A - B| + |A n B| = |A| for concrete results.
 proj   projectVector(p, onDirection=d) = nearest hit along +-d, 6 axis directions, on
        box / spheroid / non-convex mesh volume / mesh surface.
 hist   regions are semantically immutable: for the kinds that carry caches or lazily
        computed state (PolygonalFootprintRegion's cached vertical slab, also reached
        through PolygonalRegion.footprint; mesh volumes; point sets; paths; composed
        regions) ALL sequences of <= 2 (quick) / <= 3 (thorough) prior (operation,
        partner) pairs are run on ONE subject object - partners inside / across the top /
        across the bottom / above / below the cached slab, small and large, translated -
        followed by a probe query, in both operand positions.  The probe's answer
        (membership on a probe set, AABB, intersects, distances) must equal the answer of
        a fresh object and the analytic expectation.  The slab cache lookups are observed
        harness-side; reuse, replacement and straddling requests must all occur.

Probes closer than the margin (1e-3 of the joint bounding-box diagonal, plus the band of
the polyhedral approximation of curved kinds) to an operand's boundary are skipped and
counted.  Documented refusals (NotImplementedError, "does not support ...") are counted
as refused.  Signatures are <op>[:lazyX]:<TypeA>-x-<TypeB>:<tag>.  Per item at most one
violation for each independent class of discrepancy: z-dropped (result rebuilt at another
height); flattened-to-plane (members of a 3-D operand collapsed into the plane of a planar
result); the first of member-missing / nonmember-included / dist-positive-on-member /
dist-zero-on-nonmember / aabb-excludes-member / dist-wrong-value; z-ignored-distance
(distance as if a planar operand's height were ignored); and, only when nothing else is
wrong, z-ignored (containsPoint answers for the infinite footprint column of a planar
operand) - so a known height defect of a pair never hides another kind of error.
VERIF_SEED only rotates the work list.
"""

from __future__ import annotations

import math
import warnings

import numpy as np

from mc.explorer import HarnessError
from models import solid_c16 as S

ID = "C16"
LEVEL = "exploration"

OPS = ("intersect", "union", "difference")
REFUSALS = ("NotImplementedError", "UndefinedSamplingException")
U_CELLS = [(0, 0, 0), (1, 0, 0), (2, 0, 0), (0, 1, 0), (0, 2, 0), (2, 1, 0), (2, 2, 0)]
L_CELLS = [(0, 0, 0), (1, 0, 0), (2, 0, 0), (0, 1, 0), (0, 2, 0), (0, 0, 1)]
Z0 = 1.5  # height of the planar shapes of set 1


# ---------------------------------------------------------------------------------
# shapes (all coordinates dyadic so that points on segments are exactly representable)
# ---------------------------------------------------------------------------------
def shapes(tier):
    s1 = {
        "box": {"kind": "box", "pos": [0.5, 0.25, 1.5], "dims": [3.0, 2.0, 2.0], "ypr": [0.4, 0.0, 0.0]},
        "spheroid": {"kind": "spheroid", "pos": [0.25, -0.25, 1.75], "dims": [3.0, 2.5, 2.0], "ypr": [0.0, 0.0, 0.0]},
        "meshvol": {"kind": "mesh", "cells": U_CELLS, "pos": [0.25, 0.0, 1.5], "dims": [3.0, 3.0, 1.5], "ypr": [0.0, 0.0, 0.0]},
        "meshsurf": {"kind": "mesh", "surface": True, "cells": U_CELLS, "pos": [0.0, 0.25, 1.25], "dims": [2.5, 2.5, 1.5], "ypr": [0.0, 0.0, 0.0]},
        "polygon": {
            "kind": "polygon",
            "exterior": [[-2.0, -2.0], [2.5, -2.0], [2.5, 2.0], [0.75, 2.0], [0.75, 1.0], [-2.0, 1.0]],
            "holes": [[[-0.5, -0.5], [0.5, -0.5], [0.5, 0.5], [-0.5, 0.5]]],
            "z": Z0,
        },
        "circle": {"kind": "circle", "center": [0.5, 0.25, Z0], "r": 1.75},
        "sector": {"kind": "sector", "center": [0.25, -0.625, Z0], "r": 2.5, "heading": -0.6, "angle": 1.9},
        "rect": {"kind": "rect", "pos": [0.5, 0.0, Z0], "heading": 0.5, "width": 2.25, "length": 3.0},
        "polyline": {"kind": "polyline", "points": [[-2.25, -1.0], [0.0, 0.25], [1.75, -0.75], [2.5, 2.0]]},
        "path": {"kind": "path", "points": [[-2.25, -1.0, 0.5], [0.0, 0.25, Z0], [1.75, -0.75, Z0], [2.5, 2.0, 3.0]]},
        "pset": {
            "kind": "pset",
            "points": [[x * 0.5 - 1.0, y * 0.5 - 1.0, Z0] for x in range(6) for y in range(6)] + [[0.25, 0.25, 0.0], [0.5, 0.0, 2.25], [1.0, 0.5, 0.0], [0.875, -0.25, Z0], [-1.125, -0.375, Z0]],
            "anchor_z": Z0,  # the last two points lie on path1 / above polyline1
        },
        "grid": {"kind": "grid", "grid": [[0, 1, 0, 0], [0, 0, 1, 0], [1, 0, 0, 0]], "Ax": 1.0, "Ay": 1.0, "Bx": -1.5, "By": -1.0},
        "footprint": {"kind": "footprint", "exterior": [[-0.75, -1.0], [2.0, -1.0], [2.0, 1.25], [-0.75, 1.25]], "holes": []},
    }
    out = [(k + "1", v) for k, v in s1.items()]
    if tier == "thorough":
        z2 = -0.75
        s2 = {
            "box": {"kind": "box", "pos": [-0.25, 0.5, 1.0], "dims": [2.0, 3.0, 2.5], "ypr": [-0.7, 0.3, 0.5]},
            "spheroid": {"kind": "spheroid", "pos": [0.5, 0.5, 1.0], "dims": [2.5, 2.5, 2.5], "ypr": [0.3, 0.2, -0.4]},
            "meshvol": {"kind": "mesh", "cells": L_CELLS, "pos": [0.0, 0.25, 1.0], "dims": [3.0, 2.5, 3.0], "ypr": [0.5, -0.3, 0.2]},
            "meshsurf": {"kind": "mesh", "surface": True, "base": "icosphere", "pos": [0.25, 0.0, 1.25], "dims": [2.5, 3.0, 2.0], "ypr": [0.0, 0.0, 0.0]},
            "polygon": {"kind": "polygon", "exterior": [[-1.5, -1.75], [2.0, -1.0], [1.0, 0.25], [2.25, 1.75], [-1.0, 1.5]], "holes": [], "z": z2},
            "circle": {"kind": "circle", "center": [-0.25, 0.5, z2], "r": 1.5},
            "sector": {"kind": "sector", "center": [0.75, 0.5, z2], "r": 2.25, "heading": -2.0, "angle": 3.9},
            "rect": {"kind": "rect", "pos": [0.0, 0.25, z2], "heading": -1.1, "width": 3.0, "length": 1.75},
            "polyline": {"kind": "polyline", "points": [[-1.5, 1.5], [-1.5, -1.0], [1.0, -1.0], [1.0, 1.25], [2.25, 1.25]]},
            "path": {"kind": "path", "polylines": [[[-1.5, -1.5, z2], [1.5, 1.0, z2], [1.5, 1.0, 2.0]], [[-1.0, 0.5, 0.0], [2.0, 0.5, 0.0]]]},
            "pset": {"kind": "pset", "points": [[x * 0.75 - 1.5, y * 0.75 - 1.5, z * 0.75 - 0.75] for x in range(5) for y in range(5) for z in range(4)]},
            "grid": {"kind": "grid", "grid": [[1, 0, 0], [0, 0, 1], [0, 1, 0], [0, 0, 0]], "Ax": 0.75, "Ay": 1.25, "Bx": -1.0, "By": -2.0},
            "footprint": {
                "kind": "footprint",
                "exterior": [[-1.75, -1.25], [1.5, -1.75], [2.0, 1.0], [-0.5, 1.75]],
                "holes": [[[0.0, -0.5], [0.75, -0.5], [0.75, 0.5], [0.0, 0.5]]],
            },
        }
        out += [(k + "2", v) for k, v in s2.items()]
    return out


# ---------------------------------------------------------------------------------
# building the library's regions from specs
# ---------------------------------------------------------------------------------
LAZY_KINDS = ("box", "spheroid", "mesh", "polygon", "circle", "sector", "rect")


def build(spec, lazy=False):
    """The library's region for a spec.  lazy=True makes one scalar parameter a random
    value with a single possible outcome (Range(v, v)), so that the region is built
    lazily and operations on it go through the generic Intersection/Union/Difference
    regions and their sampleGiven re-dispatch."""
    import shapely.geometry as sg
    import trimesh

    from scenic.core import regions as R
    from scenic.core.distributions import Range
    from scenic.core.vectors import Orientation, Vector

    def rnd(v):
        return Range(v, v) if lazy else v

    def rvec(p):
        return Vector(p[0], p[1], rnd(p[2]))

    k = spec["kind"]
    if lazy and k not in LAZY_KINDS:
        raise ValueError(f"no lazy construction for {k}")
    if k in ("box", "spheroid"):
        cls = R.BoxRegion if k == "box" else R.SpheroidRegion
        return cls(position=rvec(spec["pos"]), dimensions=tuple(spec["dims"]), rotation=Orientation.fromEuler(*spec.get("ypr", (0, 0, 0))))
    if k == "mesh":
        V, F = S.raw_mesh(spec)
        tm = trimesh.Trimesh(vertices=V, faces=F)
        cls = R.MeshSurfaceRegion if spec.get("surface") else R.MeshVolumeRegion
        return cls(tm, position=rvec(spec["pos"]), dimensions=None if spec.get("dims") is None else tuple(spec["dims"]), rotation=Orientation.fromEuler(*spec.get("ypr", (0, 0, 0))))
    if k == "polygon":
        return R.PolygonalRegion(polygon=sg.Polygon(spec["exterior"], spec.get("holes", [])), z=rnd(spec["z"]))
    if k == "footprint":
        return R.PolygonalFootprintRegion(sg.Polygon(spec["exterior"], spec.get("holes", [])))
    if k == "circle":
        return R.CircularRegion(Vector(*spec["center"]), rnd(spec["r"]))
    if k == "sector":
        return R.SectorRegion(Vector(*spec["center"]), rnd(spec["r"]), spec["heading"], spec["angle"])
    if k == "rect":
        return R.RectangularRegion(Vector(*spec["pos"]), spec["heading"], rnd(spec["width"]), spec["length"])
    if k == "polyline":
        return R.PolylineRegion(points=[tuple(p) for p in spec["points"]])
    if k == "path":
        if spec.get("polylines"):
            return R.PathRegion(polylines=[[tuple(p) for p in ch] for ch in spec["polylines"]])
        return R.PathRegion(points=[tuple(p) for p in spec["points"]])
    if k == "pset":
        return R.PointSetRegion("ps", [tuple(p) for p in spec["points"]])
    if k == "grid":
        return R.GridRegion("g", spec["grid"], spec["Ax"], spec["Ay"], spec["Bx"], spec["By"])
    raise ValueError(k)


def vec(p):
    from scenic.core.vectors import Vector

    return Vector(float(p[0]), float(p[1]), float(p[2]))


def tname(x):
    return type(x).__name__


def is_refusal(e):
    n = type(e).__name__
    if n in REFUSALS:
        return True
    if n == "TypeError":
        m = str(e)
        return any(w in m for w in ("does not support", "cannot ", "does not have a well defined", "unhandled type"))
    return False


# ---------------------------------------------------------------------------------
# probes
# ---------------------------------------------------------------------------------
def finite_box(oras):
    lo = np.full(3, np.inf)
    hi = np.full(3, -np.inf)
    for o in oras:
        a, b = o.aabb()
        for i in range(3):
            if np.isfinite(a[i]):
                lo[i] = min(lo[i], a[i])
            if np.isfinite(b[i]):
                hi[i] = max(hi[i], b[i])
    for i in range(3):
        if not np.isfinite(lo[i]):
            lo[i], hi[i] = 0.0, 3.0
    ext = hi - lo
    pad = 0.15 * ext + 0.1
    return lo - pad, hi + pad


def lattice(lo, hi, n):
    ax = [lo[i] + (np.arange(n) + 0.5) / n * (hi[i] - lo[i]) for i in range(3)]
    g = np.stack(np.meshgrid(*ax, indexing="ij"), axis=-1).reshape(-1, 3)
    return g


def plane_lattice(lo, hi, z, n):
    ax = [lo[i] + (np.arange(n) + 0.5) / n * (hi[i] - lo[i]) for i in range(2)]
    g = np.stack(np.meshgrid(*ax, indexing="ij"), axis=-1).reshape(-1, 2)
    return np.concatenate([g, np.full((len(g), 1), float(z))], axis=1)


def probes_for(oras, n3, n2, extra_planes=()):
    lo, hi = finite_box(oras)
    parts = [lattice(lo, hi, n3)]
    planes = sorted({float(o.plane_z) for o in oras if o.plane_z is not None} | set(extra_planes))
    for z in planes:
        parts.append(plane_lattice(lo, hi, z, n2))
    for o in oras:
        on = o.on_probes()
        if len(on):
            parts.append(on)
            parts.append(on + np.array([0.0, 0.0, 0.25]))
    P = np.concatenate(parts)
    return P, float(np.linalg.norm(hi - lo))


def apply_op(op, a, b):
    if op == "intersect":
        return a & b
    if op == "union":
        return a | b
    return a & ~b


def col_clear(o, P):
    return o.col_clear(P) if hasattr(o, "col_clear") else o.clear(P)


# ---------------------------------------------------------------------------------
# observers of a library region
# ---------------------------------------------------------------------------------
class Obs:
    """containsPoint / distanceTo / AABB of a region on a probe array, with refusals."""

    def __init__(self, reg, P):
        self.reg = reg
        self.cp = None
        self.cp_err = None
        self.dist = None
        self.aabb = None
        self.crash = None
        vs = [vec(p) for p in P]
        try:
            self.cp = np.array([bool(reg.containsPoint(v)) for v in vs])
        except Exception as e:  # noqa
            self.cp_err = e
        try:
            self.dist = np.array([float(reg.distanceTo(v)) for v in vs])
        except Exception as e:  # noqa
            if not is_refusal(e) and not isinstance(e, AssertionError):
                self.crash = ("distanceTo", e)
        try:
            bb = reg.AABB
            self.aabb = (np.array([float(x) for x in bb[0]]), np.array([float(x) for x in bb[1]]))
        except Exception as e:  # noqa
            if not is_refusal(e) and not isinstance(e, TypeError):
                self.crash = ("AABB", e)


def fmtp(p):
    return "(" + ", ".join(f"{x:.6g}" for x in p) + ")"


def examples(P, idx, *cols, k=3):
    out = []
    for i in list(idx[:k]):
        out.append(fmtp(P[i]) + "".join(f" {name}={val[i]}" for name, val in cols))
    return "; ".join(out)


# ---------------------------------------------------------------------------------
# item: one (A, B, op, config)
# ---------------------------------------------------------------------------------
def do_op(item):
    warnings.filterwarnings("ignore")
    from scenic.core import regions as R

    sa, sb, op = item["a"], item["b"], item["op"]
    res = new_res(item)
    oa, ob = S.oracle(sa), S.oracle(sb)
    n3, n2 = item.get("n3", 7), item.get("n2", 9)
    P, diag = probes_for([oa, ob], n3, n2)
    margin = 1e-3 * diag
    lz = item.get("lazy", "")
    A, B = build(sa, lazy="A" in lz), build(sb, lazy="B" in lz)
    TA, TB = tname(A), tname(B)
    pre = f"{op}:{TA}-x-{TB}" if not lz else f"{op}:lazy{lz}:{TA}-x-{TB}"
    res["pair"] = f"{TA}-x-{TB}"
    try:
        Rg = getattr(A, op)(B)
        if lz:
            from scenic.core.distributions import needsSampling

            res["counts"]["lazy_results"] = int(needsSampling(Rg))
            if needsSampling(Rg):
                Rg = Rg.sample()  # every random parameter has a single possible value
    except Exception as e:  # noqa
        if is_refusal(e):
            res["refused"] += 1
            res["refusals"].append(f"{pre}:{type(e).__name__}")
        else:
            viol(res, f"{pre}:crash-{type(e).__name__}", f"{op} of {sa} and {sb} raised {e!r:.300}", item)
        return res
    res["result_type"] = tname(Rg)
    mA, mB = oa.member(P), ob.member(P)
    cl = np.minimum(oa.clear(P), ob.clear(P))
    exp = apply_op(op, mA, mB)
    colok = np.minimum(col_clear(oa, P), col_clear(ob, P)) >= margin
    ok = (cl >= margin) & colok
    if op == "difference" and ob.dim < oa.dim:
        # members of a lower-dimensional B are boundary points of A - B (its closure contains them)
        ok &= ~mB
    res["skipped_touching"] += int((~ok).sum())
    o = Obs(Rg, P)
    if o.cp is None:
        e = o.cp_err
        if is_refusal(e):
            res["refused"] += 1
            res["refusals"].append(f"{pre}:containsPoint-{type(e).__name__}")
        else:
            viol(res, f"{pre}:crash-containsPoint-{type(e).__name__}", f"containsPoint of {tname(Rg)} = {op}({sa}, {sb}) raised {e!r:.300}", item)
        return res
    if o.crash:
        viol(res, f"{pre}:crash-{o.crash[0]}-{type(o.crash[1]).__name__}", f"{o.crash[0]} of {tname(Rg)} = {op}({sa}, {sb}) raised {o.crash[1]!r:.300}", item)
    res["judged"] += int(ok.sum())
    res["members"] = int((ok & exp).sum())
    res["nonmembers"] = int((ok & ~exp).sum())
    res["informative"] = int(res["members"] > 0 and res["nonmembers"] > 0)
    planes = sorted({o_.plane_z for o_ in (oa, ob) if o_.plane_z is not None})
    desc0 = f"R = A.{op}(B) is a {tname(Rg)}" + (f" with z={getattr(Rg, 'z', None)}" if hasattr(Rg, "z") else "") + f"; A={sa}; B={sb}; margin={margin:.3g}"

    # lenient readings used only to *classify* a disagreement as height-related: every
    # planar operand read as its infinite column, or the probe projected into a plane
    mems = {"A": [mA], "B": [mB]}
    if oa.has_column():
        mems["A"].append(oa.column(P))
    if ob.has_column():
        mems["B"].append(ob.column(P))
    any_true = np.zeros(len(P), bool)
    any_false = np.zeros(len(P), bool)
    for ca in mems["A"]:
        for cb in mems["B"]:
            e = apply_op(op, ca, cb)
            any_true |= e
            any_false |= ~e
    for z0 in planes:
        Pz = P.copy()
        Pz[:, 2] = z0
        e = apply_op(op, oa.member(Pz), ob.member(Pz))
        valid = np.minimum(oa.clear(Pz), ob.clear(Pz)) >= margin
        any_true |= e | ~valid
        any_false |= ~e | ~valid
    found = {}  # tag -> (indices, text)

    def note(tag, sel, text, *cols):
        idx = np.nonzero(sel)[0]
        if len(idx):
            found[tag] = f"[{tag}] {len(idx)} probes: {text}: " + examples(P, idx, *cols)

    # tolerant membership for the zero-tolerance line regions: distance <= 1e-9 counts
    cp = o.cp.copy()
    if isinstance(Rg, R.PolylineRegion) and o.dist is not None:
        cp = cp | (o.dist <= 1e-9)
    # (a) membership of the result
    bad = ok & (cp != exp)
    expl = np.where(cp, any_true, any_false)
    note("member-missing", bad & exp & ~expl, "expected members not contained", ("expected", exp), ("observed", cp))
    note("nonmember-included", bad & ~exp & ~expl, "clear non-members contained", ("expected", exp), ("observed", cp))
    note("z-ignored", bad & expl, "containsPoint disagrees with the 3-D set but agrees with a reading that ignores the height of a planar operand", ("expected", exp), ("observed", cp))
    # distance zero exactly on members
    zR = float(Rg.z) if isinstance(Rg, R.PolygonalRegion) else (0.0 if isinstance(Rg, R.PolylineRegion) else None)
    dropped = np.zeros(len(P), bool)
    if o.dist is not None:
        tol = 1e-5
        badm = ok & exp & (o.dist > tol)
        badn = ok & ~exp & (o.dist < 0.5 * margin)
        if zR is not None and badm.any():
            # hypothesis: right content in x, y but at the wrong height
            for i in np.nonzero(badm)[0]:
                if P[i, 2] != zR and float(Rg.distanceTo(vec((P[i, 0], P[i, 1], zR)))) <= tol:
                    dropped[i] = True
        if zR is not None and any(abs(zR - z) <= 1e-9 for z in planes):
            # the result lies in an operand's plane, yet members of a 3-D operand off that plane are lost
            note("flattened-to-plane", dropped, f"the planar result at height {zR} holds these members' (x, y), but they belong to a 3-D operand and do not lie in that plane", ("member", exp), ("distanceTo", o.dist))
        else:
            note("z-dropped", dropped, f"the result holds these members' (x, y) but sits at height {zR} instead of the operands' plane(s) {planes}", ("member", exp), ("distanceTo", o.dist))
        note("dist-positive-on-member", badm & ~dropped & ~any_false, "distanceTo of the result is positive on members", ("member", exp), ("distanceTo", o.dist))
        note("dist-zero-on-nonmember", badn & ~any_true, "distanceTo of the result is zero on clear non-members", ("member", exp), ("distanceTo", o.dist))
        note("z-ignored-distance", (badm & ~dropped & any_false) | (badn & any_true), "distanceTo of the result is zero / positive as if the height of a planar operand were ignored", ("member", exp), ("distanceTo", o.dist))
        res["dist_judged"] += int(ok.sum())
    # every member probe inside the AABB of the result
    if o.aabb is not None:
        lo, hi = o.aabb
        outside = ok & exp & np.any((P < lo - 1e-5) | (P > hi + 1e-5), axis=1)
        inxy = np.all((P[:, :2] >= lo[:2] - 1e-5) & (P[:, :2] <= hi[:2] + 1e-5), axis=1)
        if zR is not None and lo[2] == hi[2] == zR and planes and all(abs(zR - z) > 1e-9 for z in planes):
            note("z-dropped", outside & inxy, f"the result's AABB lies in the plane z={zR}, the operands' plane(s) are {planes}") if "z-dropped" not in found else None
            outside = outside & ~inxy
        note("aabb-excludes-member", outside & ~dropped & ~any_false, f"member probes outside the result's AABB {lo.tolist()}..{hi.tolist()}")
        res["aabb_judged"] += 1
    # union: distance is the minimum of the operands' distances
    if op == "union" and o.dist is not None and not found:
        da, db = oa.dist(P), ob.dist(P)
        if da is not None and db is not None:
            want = np.minimum(da, db)
            tolv = 1e-5 + oa.band + ob.band
            note("dist-wrong-value", np.abs(o.dist - want) > tolv * (1 + want), "distanceTo(A u B) != min(d(A), d(B))", ("expected", want), ("observed", o.dist))
    if found:
        # Independent classes of discrepancy are reported separately, so that a known
        # height defect of a pair can never hide a different kind of error in the same
        # item: (A) result rebuilt at another height, (B) wrong content / distance /
        # bounding box, (C) distance ignoring a height; (D) containsPoint answering for
        # the footprint column is reported only when nothing else is wrong.
        hard = ["member-missing", "nonmember-included", "dist-positive-on-member", "dist-zero-on-nonmember", "aabb-excludes-member", "dist-wrong-value"]
        order = ["z-dropped", "flattened-to-plane"] + hard + ["z-ignored-distance", "z-ignored"]
        text = f"{desc0}; {int(ok.sum())} probes judged.\n" + "\n".join(found[t] for t in order if t in found)
        emit = [t for t in ("z-dropped", "flattened-to-plane") if t in found] + [t for t in hard if t in found][:1] + [t for t in ("z-ignored-distance",) if t in found]
        if not emit:
            emit = ["z-ignored"]
        for t in emit:
            viol(res, f"{pre}:{t}", text, item)
    return res


def new_res(item):
    return {
        "item": item,
        "violations": [],
        "judged": 0,
        "skipped_touching": 0,
        "refused": 0,
        "refusals": [],
        "informative": 0,
        "members": 0,
        "nonmembers": 0,
        "dist_judged": 0,
        "aabb_judged": 0,
        "counts": {},
    }


def viol(res, sig, desc, item):
    for s, _, _ in res["violations"]:
        if s == sig:
            return
    res["violations"].append((sig, desc, {"item": item, "sig": sig}))


# ---------------------------------------------------------------------------------
# item: primitive membership / distance / AABB / size of one shape
# ---------------------------------------------------------------------------------
def do_prim(item):
    warnings.filterwarnings("ignore")
    sa = item["a"]
    res = new_res(item)
    oa = S.oracle(sa)
    P, diag = probes_for([oa], item.get("n3", 7), item.get("n2", 9), extra_planes=(0.0,))
    margin = 1e-3 * diag
    A = build(sa)
    T = tname(A)
    res["pair"] = T
    m = oa.member(P)
    col = oa.column(P)
    colok = col_clear(oa, P) >= margin
    ok = (oa.clear(P) >= margin) & colok
    res["skipped_touching"] += int((~ok).sum())
    o = Obs(A, P)
    if o.cp is None:
        viol(res, f"containsPoint:{T}:crash-{type(o.cp_err).__name__}", f"containsPoint raised {o.cp_err!r:.300} on {sa}", item)
        return res
    if o.crash:
        viol(res, f"{o.crash[0]}:{T}:crash-{type(o.crash[1]).__name__}", f"{o.crash[0]} raised {o.crash[1]!r:.300} on {sa}", item)
    res["judged"] += int(ok.sum())
    res["members"] = int((ok & m).sum())
    res["nonmembers"] = int((ok & ~m).sum())
    res["informative"] = int(res["members"] > 0 and res["nonmembers"] > 0)
    bad = ok & (o.cp != m)
    zi = bad & colok & (o.cp == col)
    for tag, sel in (("z-ignored", zi), ("member-missing", bad & ~zi & m), ("nonmember-included", bad & ~zi & ~m)):
        idx = np.nonzero(sel)[0]
        if len(idx):
            viol(
                res,
                f"containsPoint:{T}:{tag}",
                f"{len(idx)} of {int(ok.sum())} judged probes: containsPoint disagrees with the analytic membership of {sa}"
                + (" (the region answers for its infinite footprint column, height ignored)" if tag == "z-ignored" else "")
                + ". probes: "
                + examples(P, idx, ("expected", m), ("observed", o.cp)),
                item,
            )
    if not oa.judge_metric:
        res["refusals"].append(f"metric-unspecified:{T}")
        return res
    # distance
    want = oa.dist(P)
    if o.dist is not None:
        if want is not None:
            tolv = 1e-6 + oa.band + (2e-4 * diag if sa["kind"] in ("mesh", "spheroid", "box") else 0.0)
            badd = np.abs(o.dist - want) > tolv * (1 + want)
            idx = np.nonzero(badd)[0]
            res["dist_judged"] += len(P)
            res["counts"]["dist_zero"] = int((want == 0).sum())
            res["counts"]["dist_pos"] = int((want > 0).sum())
            if len(idx):
                P2 = np.asarray(P)
                tag = "wrong-value"
                if oa.plane_z is not None and hasattr(oa, "dist2"):
                    d2 = oa.dist2(P2[:, :2])
                    if np.all(np.abs(o.dist[idx] - d2[idx]) <= tolv * (1 + d2[idx])):
                        tag = "z-ignored"
                viol(res, f"distanceTo:{T}:{tag}", f"{len(idx)} of {len(P)} probes: distanceTo differs from the Euclidean distance to the nearest member of {sa}. probes: " + examples(P, idx, ("expected", want), ("observed", o.dist)), item)
        else:
            badm = ok & m & (o.dist > 1e-5)
            badn = ok & ~m & (o.dist < 0.5 * margin)
            idx = np.nonzero(badm | badn)[0]
            res["dist_judged"] += int(ok.sum())
            if len(idx):
                viol(res, f"distanceTo:{T}:zero-iff-member", f"{len(idx)} probes: distanceTo is not zero exactly on members of {sa}. probes: " + examples(P, idx, ("member", m), ("observed", o.dist)), item)
    else:
        res["refusals"].append(f"distanceTo:{T}")
    # AABB
    if o.aabb is not None:
        lo, hi = o.aabb
        wlo, whi = oa.aabb()
        tolb = 1e-6 + oa.band
        fin = np.isfinite(wlo) & np.isfinite(whi)
        outside = ok & m & np.any((P < lo - 1e-6) | (P > hi + 1e-6), axis=1)
        if np.any(np.abs(lo - wlo)[fin] > tolb) or np.any(np.abs(hi - whi)[fin] > tolb) or outside.any():
            viol(res, f"AABB:{T}:mismatch", f"AABB {lo.tolist()}..{hi.tolist()} differs from the exact bounding box {wlo.tolist()}..{whi.tolist()} of {sa} ({int(outside.sum())} member probes outside)", item)
        res["aabb_judged"] += 1
    else:
        res["refusals"].append(f"AABB:{T}")
    # size / dimensionality
    try:
        sz, dim = A.size, A.dimensionality
    except Exception as e:  # noqa
        viol(res, f"size:{T}:crash-{type(e).__name__}", f"size raised {e!r:.200}", item)
        return res
    if dim != oa.dim:
        viol(res, f"dimensionality:{T}:mismatch", f"dimensionality {dim} but the set {sa} has dimension {oa.dim}", item)
    wsz = oa.size()
    if wsz is not None and sz is not None:
        rel = 0.02 if sa["kind"] in ("spheroid",) or sa.get("base") == "icosphere" else (2e-3 if sa["kind"] in ("circle", "sector") else 1e-6)
        if not (abs(float(sz) - wsz) <= rel * max(1.0, abs(wsz)) or (math.isinf(wsz) and math.isinf(float(sz)))):
            viol(res, f"size:{T}:mismatch", f"size {sz} but the exact size of {sa} is {wsz}", item)
        res["counts"]["size_judged"] = 1
    return res


# ---------------------------------------------------------------------------------
# item: intersects in deliberately built situations + containsRegion
# ---------------------------------------------------------------------------------
def circum(o):
    lo, hi = o.aabb()
    return (lo + hi) / 2, float(np.linalg.norm((hi - lo) / 2))


def scaled(spec, f):
    """Scale a spec about the origin by f > 0 (footprints/grids not supported)."""
    s = dict(spec)
    k = s["kind"]
    sc = lambda p: [c * f for c in p]
    if k in ("box", "spheroid", "mesh"):
        s["pos"], s["dims"] = sc(s["pos"]), sc(s["dims"])
    elif k in ("circle", "sector"):
        s["center"], s["r"] = sc(s["center"]), s["r"] * f
    elif k == "rect":
        s["pos"], s["width"], s["length"] = sc(s["pos"]), s["width"] * f, s["length"] * f
    elif k == "polygon":
        s["exterior"] = [sc(p) for p in s["exterior"]]
        s["holes"] = [[sc(p) for p in h] for h in s.get("holes", [])]
        s["z"] = s["z"] * f
    elif k == "polyline":
        s["points"] = [sc(p) for p in s["points"]]
    elif k == "path":
        if s.get("polylines"):
            s["polylines"] = [[sc(p) for p in ch] for ch in s["polylines"]]
        else:
            s["points"] = [sc(p) for p in s["points"]]
    elif k == "pset":
        s["points"] = [sc(p) for p in s["points"]]
    else:
        return None
    return s


def do_rel(item):
    warnings.filterwarnings("ignore")
    res = new_res(item)
    c = res["counts"]
    for cfg, sa, sb in item["cfgs"]:
        oa = S.oracle(sa)
        A = build(sa)
        TA = tname(A)
        ob = S.oracle(sb)
        B = build(sb)
        TB = tname(B)
        res["pair"] = f"{TA}-x-{TB}"
        if not (oa.judge_rel and ob.judge_rel):
            res["refusals"].append(f"relations-unspecified:{TA}-x-{TB}")
            continue
        P, diag = probes_for([oa, ob], item.get("n3", 9), item.get("n2", 13))
        margin = 1e-3 * diag
        mA, mB = oa.member(P), ob.member(P)
        ok = np.minimum(oa.clear(P), ob.clear(P)) >= margin
        both = ok & mA & mB
        alo, ahi = oa.aabb()
        blo, bhi = ob.aabb()
        sep = np.max(np.maximum(blo - ahi, alo - bhi))  # > 0: bounding boxes are disjoint
        if sep > 10 * margin:
            want = False
        elif both.any():
            want = True
        else:
            want = None
        # ---- intersects
        pre = f"intersects:{TA}-x-{TB}"
        try:
            got = bool(A.intersects(B))
        except Exception as e:  # noqa
            got = None
            if is_refusal(e):
                res["refused"] += 1
                res["refusals"].append(f"{pre}:{type(e).__name__}")
            else:
                viol(res, f"{pre}:crash-{type(e).__name__}", f"[{cfg}] intersects raised {e!r:.300}; A={sa}; B={sb}", {**item, "cfgs": [[cfg, sa, sb]]})
        if got is not None:
            if want is None:
                c["intersects_unjudged"] = c.get("intersects_unjudged", 0) + 1
            else:
                c["intersects_" + str(want)] = c.get("intersects_" + str(want), 0) + 1
                res["judged"] += 1
                if got != want:
                    colboth = oa.column(P) & ob.column(P) & (np.minimum(col_clear(oa, P), col_clear(ob, P)) >= margin)
                    if want:
                        tag = "false-negative"
                        why = f"probe {fmtp(P[np.nonzero(both)[0][0]])} lies clearly in both"
                    else:
                        tag = "z-ignored" if colboth.any() else "false-positive"
                        why = f"the exact bounding boxes are {sep:.3g} apart"
                    viol(res, f"{pre}:{tag}", f"[{cfg}] A.intersects(B) = {got} but {why}; A={sa}; B={sb}", {**item, "cfgs": [[cfg, sa, sb]]})
        # ---- containsRegion
        pre = f"containsRegion:{TA}-x-{TB}"
        if cfg.startswith("overlap"):
            witness = ok & mB & ~mA
            wantc = False if witness.any() else None
        elif cfg == "inside":
            wantc = True
        else:
            wantc = None
        if wantc is not None:
            try:
                gotc = bool(A.containsRegion(B))
            except Exception as e:  # noqa
                gotc = None
                if is_refusal(e):
                    res["refused"] += 1
                    res["refusals"].append(f"{pre}:{type(e).__name__}")
                else:
                    viol(res, f"containsRegion:{TA}:crash-{type(e).__name__}", f"[{cfg}] containsRegion raised {e!r:.300}; A={sa}; B={sb}", {**item, "cfgs": [[cfg, sa, sb]]})
            if gotc is not None:
                c["contains_" + str(wantc)] = c.get("contains_" + str(wantc), 0) + 1
                res["judged"] += 1
                if gotc != wantc:
                    if wantc:
                        tag, why = "false-negative", "B lies in a ball that is contained in A"
                    else:
                        i = np.nonzero(witness)[0][0]
                        incol = bool(oa.column(P[i : i + 1])[0])
                        tag = "z-ignored" if incol and oa.has_column() else "false-positive"
                        why = f"probe {fmtp(P[i])} is clearly in B and clearly not in A"
                    viol(res, f"{pre}:{tag}", f"[{cfg}] A.containsRegion(B) = {gotc} but {why}; A={sa}; B={sb}", {**item, "cfgs": [[cfg, sa, sb]]})
    return res


def inside_spec(sa, sb):
    """A copy of B shrunk and moved into a ball contained in A (or None)."""
    oa, ob = S.oracle(sa), S.oracle(sb)
    if oa.dim < 2 or sb["kind"] in ("footprint", "grid") or ob.dim > oa.dim:
        return None
    if oa.dim == 2 and (ob.plane_z is None or ob.z_locked or sa["kind"] == "mesh" or sb["kind"] == "mesh"):
        return None
    P, diag = probes_for([oa], 9, 15)
    margin = 1e-3 * diag
    m = oa.member(P)
    cl = np.where(m, oa.clear(P), -1.0)
    if sa["kind"] == "footprint":
        cl = np.where(m, oa.clear(P), -1.0)
    i = int(np.argmax(cl))
    if cl[i] < 20 * margin:
        return None
    rho = 0.6 * min(cl[i], 1.0)
    cB, rB = circum(ob)
    if not np.isfinite(rB) or rB <= 0:
        return None
    f = rho / rB
    s = scaled(sb, f)
    if s is None:
        return None
    c2, r2 = circum(S.oracle(s))
    d = P[i] - c2
    s = S.shifted(s, float(d[0]), float(d[1]), float(d[2]))
    if oa.dim == 2:
        s = S.with_z(s, oa.plane_z)
    o2 = S.oracle(s)
    c3, r3 = circum(o2)
    if oa.dim == 2 and (o2.plane_z is None or abs(o2.plane_z - oa.plane_z) > 1e-12):
        return None
    if np.linalg.norm(c3 - P[i]) + r3 > 0.75 * cl[i]:
        return None
    return s


# ---------------------------------------------------------------------------------
# item: projectVector on meshes
# ---------------------------------------------------------------------------------
AXES = [(1, 0, 0), (-1, 0, 0), (0, 1, 0), (0, -1, 0), (0, 0, 1), (0, 0, -1)]


def do_proj(item):
    warnings.filterwarnings("ignore")
    sa = item["a"]
    res = new_res(item)
    oa = S.oracle(sa)
    A = build(sa)
    T = tname(A)
    res["pair"] = T
    c = res["counts"]
    P, diag = probes_for([oa], item.get("n3", 7), item.get("n2", 9))
    margin = 1e-3 * diag
    clear = oa.clear(P)
    mem = oa.member(P)
    ptol = max(oa.proj_tol, 1e-6 * (1 + diag))
    tie = max(10 * margin, 4 * ptol)
    for d in [tuple(x) for x in item.get("dirs", AXES)]:
        dv = np.array(d, float)
        t, edged = oa.line_hits(P, dv)
        for i in range(len(P)):
            if clear[i] < margin or edged[i] < margin:
                res["skipped_touching"] += 1
                continue
            signed = np.sort(t[i][~np.isnan(t[i])])
            # hits on the shared edge of two coplanar triangles are reported twice
            if len(signed):
                signed = signed[np.concatenate([[True], np.diff(signed) > 1e-9])]
            ts = np.sort(np.abs(signed))
            if mem[i]:
                want, kind = P[i], "member"
            elif len(ts) == 0:
                want, kind = None, "nohit"
            else:
                if len(ts) > 1 and ts[1] - ts[0] < tie:
                    res["skipped_touching"] += 1
                    continue
                j = int(np.argmin(np.abs(signed)))
                want = P[i] + signed[j] * dv
                npos, nneg = int((signed > 0).sum()), int((signed < 0).sum())
                kind = "two-sided" if npos and nneg else "one-sided"
                if npos and nneg and signed[j] < 0:
                    kind = "two-sided-nearest-behind"
                if max(npos, nneg) >= 3:
                    c["multi_hit"] = c.get("multi_hit", 0) + 1
            try:
                got = A.projectVector(vec(P[i]), onDirection=d)
            except Exception as e:  # noqa
                if is_refusal(e):
                    res["refused"] += 1
                    res["refusals"].append(f"projectVector:{T}:{type(e).__name__}")
                    return res
                viol(res, f"projectVector:{T}:crash-{type(e).__name__}", f"projectVector({fmtp(P[i])}, {d}) raised {e!r:.300} on {sa}", item)
                return res
            res["judged"] += 1
            c[kind] = c.get(kind, 0) + 1
            g = None if got is None else np.array([got[0], got[1], got[2]], float)
            if want is None or g is None:
                if (want is None) != (g is None):
                    tag = "missed-hit" if g is None else "spurious-hit"
                    viol(res, f"projectVector:{T}:{tag}", f"projectVector({fmtp(P[i])}, onDirection={d}) = {got} but the line meets the region at parameters {sorted(signed.tolist())}; shape {sa}", item)
                continue
            if np.linalg.norm(g - want) > ptol:
                rel = g - P[i]
                tpar = float(rel @ dv)
                onhit = np.linalg.norm(rel - tpar * dv) < ptol and len(signed) and np.min(np.abs(signed - tpar)) < ptol
                tag = "not-nearest-hit" if onhit else "wrong-point"
                viol(
                    res,
                    f"projectVector:{T}:{tag}",
                    f"projectVector({fmtp(P[i])}, onDirection={d}) = {fmtp(g)} (t={tpar:.6g}) but the nearest member along +-d is {fmtp(want)}; all hits t={sorted(np.round(signed, 6).tolist())}; shape {sa}",
                    item,
                )
    return res


# ---------------------------------------------------------------------------------
# item: inclusion-exclusion of sizes
# ---------------------------------------------------------------------------------
def do_sizes(item):
    warnings.filterwarnings("ignore")
    from scenic.core import regions as R

    sa, sb = item["a"], item["b"]
    res = new_res(item)
    A, B = build(sa), build(sb)
    res["pair"] = f"{tname(A)}-x-{tname(B)}"
    generic = (R.IntersectionRegion, R.UnionRegion, R.DifferenceRegion)

    def size_of(op):
        try:
            X = getattr(build(sa), op)(build(sb))
        except Exception:  # judged by the op items
            return None
        if isinstance(X, R.EmptyRegion):
            return 0.0
        if isinstance(X, generic) or X.dimensionality != A.dimensionality or X.size is None:
            return None
        return float(X.size)

    a, b = float(A.size), float(B.size)
    u, i, d = size_of("union"), size_of("intersect"), size_of("difference")
    tol = 1e-3 * (a + b)
    if u is not None and i is not None:
        res["judged"] += 1
        res["counts"]["incl_excl"] = 1
        if abs(u + i - a - b) > tol:
            viol(res, f"size:{res['pair']}:inclusion-exclusion", f"|A u B| + |A n B| = {u} + {i} but |A| + |B| = {a} + {b}; A={sa}; B={sb}", item)
    if d is not None and i is not None:
        res["judged"] += 1
        res["counts"]["incl_excl"] = res["counts"].get("incl_excl", 0) + 1
        if abs(d + i - a) > tol:
            viol(res, f"size:{res['pair']}:difference-plus-intersection", f"|A - B| + |A n B| = {d} + {i} but |A| = {a}; A={sa}; B={sb}", item)
    return res


# ---------------------------------------------------------------------------------
# item family: history - answers must not depend on what the operand objects were
# asked before (regions are semantically immutable; caches are an implementation detail)
# ---------------------------------------------------------------------------------
def _box(z, dims=(3.0, 2.0, 2.0), xy=(0.5, 0.25), yaw=0.4):
    return {"kind": "box", "pos": [xy[0], xy[1], float(z)], "dims": list(dims), "ypr": [yaw, 0.0, 0.0]}


# The footprint caches one vertical slab (approxBoundFootprint pads the requested height by
# 100 * max(1, centerZ)).  A first query by a 2 m box centred at z = 1.5 requests
# centre 1.5 / height 3 and caches the slab z in [-223.5, 226.5]; the partners below fall
# inside, across the top, across the bottom and outside of that slab and of each other's.
HIST_FP = {"kind": "footprint", "exterior": [[-0.75, -1.0], [2.0, -1.0], [2.0, 1.25], [-0.75, 1.25]], "holes": []}
HIST_PARTNERS = {
    "low": _box(1.5),
    "high": _box(100.0),  # inside the slab of 'low'; its own slab is 100 times wider
    "top": _box(226.5, dims=(3.0, 2.0, 20.0)),  # across the top of the slab of 'low'
    "bottom": _box(-223.5, dims=(3.0, 2.0, 20.0)),  # across its bottom
    "above-top": _box(227.8),  # entirely above that slab, but the padded request (226.3..229.3) dips into it
    "neg": _box(-300.0),  # below it; caches a narrow slab [-450, -150]
    "far": _box(1000.0),  # above it
    "vfar": _box(20000.0),  # above the slab of 'high' ([-14900, 15100])
    "wide": _box(2.0, dims=(1.0, 1.0, 6.0), xy=(1.5, -0.25), yaw=0.0),  # small in x/y, taller, translated
    "cube-surface": {"kind": "mesh", "surface": True, "cells": [(0, 0, 0)], "pos": [0.5, 0.25, 226.5], "dims": [2.0, 2.0, 12.0], "ypr": [0.0, 0.0, 0.0]},
    "path": {"kind": "path", "points": [[-2.25, -1.0, 0.5], [0.0, 0.25, 1.5], [1.75, -0.75, 1.5], [2.5, 2.0, 3.0]]},
    "path-top": {"kind": "path", "points": [[-2.0, -0.5, 220.0], [1.0, 0.5, 226.5], [2.5, 0.0, 233.0]]},
    "inside-notch": {"kind": "box", "pos": [0.25, 0.5, 1.5], "dims": [0.5, 1.0, 0.5], "ypr": [0.0, 0.0, 0.0]},
    "apart": _box(1.5, xy=(9.5, 0.25)),
    "pset": {"kind": "pset", "points": [[x * 0.5 - 1.0, y * 0.5 - 1.0, 1.5] for x in range(6) for y in range(6)]},
    "circle": {"kind": "circle", "center": [0.5, 0.25, Z0], "r": 1.75},
}
MESH_U = {"kind": "mesh", "cells": U_CELLS, "pos": [0.25, 0.0, 1.5], "dims": [3.0, 3.0, 1.5], "ypr": [0.0, 0.0, 0.0]}


def hist_subjects(tier):
    """subject name -> (spec, accessor, prior alphabet, probe actions).  An action is
    (position, operation, partner): position 'A' = subject.op(partner), 'B' =
    partner.op(subject), 'S' = a query on the subject alone."""
    th = tier == "thorough"
    fp_priors = [("B", "intersects", "low"), ("B", "intersects", "high"), ("B", "intersects", "neg"), ("A", "intersect", "path"), ("B", "intersects", "top")]
    if th:
        fp_priors += [("B", "difference", "far"), ("B", "intersect", "neg"), ("B", "intersects", "cube-surface"), ("A", "intersects", "wide")]
    fp_probes = [
        ("B", "intersect", "top"),
        ("B", "difference", "top"),
        ("B", "intersects", "top"),
        ("B", "intersects", "above-top"),
        ("A", "intersect", "top"),
        ("B", "intersect", "bottom"),
        ("B", "intersects", "cube-surface"),
        ("B", "intersect", "low"),
        ("A", "intersect", "path-top"),
    ]
    if th:
        fp_probes += [("B", "difference", "wide"), ("B", "intersects", "far"), ("A", "intersects", "bottom"), ("B", "difference", "bottom"), ("B", "intersect", "vfar"), ("B", "intersect", "high"), ("A", "intersect", "path"), ("B", "difference", "low")]
    poly = {"kind": "polygon", "exterior": HIST_FP["exterior"], "holes": [], "z": Z0}
    mesh_priors = [("A", "intersects", "low"), ("A", "intersects", "inside-notch"), ("A", "intersect", "wide"), ("S", "distanceTo", None)]
    if th:
        mesh_priors += [("B", "intersects", "apart"), ("S", "surface", None), ("B", "difference", "low")]
    mesh_probes = [("A", "intersects", "inside-notch"), ("B", "intersects", "low"), ("A", "intersect", "low"), ("S", "distanceTo", None), ("S", "AABB", None)]
    if th:
        mesh_probes += [("B", "difference", "wide"), ("A", "intersects", "apart")]
    small_priors = [("S", "containsPoint", None), ("S", "distanceTo", None), ("B", "intersects", "low"), ("S", "AABB", None)]
    small_probes = [("S", "containsPoint", None), ("S", "distanceTo", None), ("B", "intersects", "low"), ("S", "AABB", None), ("B", "intersect", "low")]
    return {
        "footprint": (HIST_FP, None, fp_priors, fp_probes),
        # the footprint object that a polygon hands out must be the same stateful object
        "polygon.footprint": (poly, "footprint", fp_priors[:3], fp_probes[:4] + fp_probes[7:8]),
        "meshvol": (MESH_U, None, mesh_priors, mesh_probes),
        "pset": (HIST_PARTNERS["pset"], None, small_priors[:3], small_probes[:4]),
        "path": (HIST_PARTNERS["path"], None, small_priors, small_probes),
        "difference(box,circle)": ({"derived": "difference", "a": HIST_PARTNERS["low"], "b": HIST_PARTNERS["circle"]}, None, small_priors[:1] + small_priors[3:], small_probes[:1]),
    }


def _hist_build(spec):
    if "derived" in spec:
        return getattr(build(spec["a"]), spec["derived"])(build(spec["b"]))
    return build(spec)


def _hist_oracle(spec):
    return None if "derived" in spec else S.oracle(spec)


def _hist_probes(sspec, pspec):
    """A small probe set around the partner (or the subject when there is none)."""
    o = S.oracle(pspec) if pspec is not None else (S.oracle(sspec) if "derived" not in sspec else S.oracle(sspec["a"]))
    lo, hi = o.aabb()
    if not (np.all(np.isfinite(lo)) and np.all(np.isfinite(hi))):
        lo, hi = np.array([-1.0, -1.25, 0.0]), np.array([2.25, 1.5, 3.0])
    pad = 0.15 * (hi - lo) + 0.1
    lo, hi = lo - pad, hi + pad
    ax = [lo[i] + (np.arange(n) + 0.5) / n * (hi[i] - lo[i]) for i, n in enumerate((2, 2, 6))]
    P = np.stack(np.meshgrid(*ax, indexing="ij"), axis=-1).reshape(-1, 3)
    # plus the vertical line through the centre (inside partner and subject for the shapes used)
    mid = np.stack([np.full(6, (lo[0] + hi[0]) / 2), np.full(6, (lo[1] + hi[1]) / 2), ax[2]], axis=1)
    P = np.concatenate([P, mid])
    on = o.on_probes()
    if len(on):
        P = np.concatenate([P, on[:: max(1, len(on) // 12)]])
    return P, float(np.linalg.norm(hi - lo))


def _hist_act(subject, accessor, action, sspec):
    """Perform one action; returns a comparable observation."""
    from scenic.core import regions as R

    pos, op, pname = action
    subj = getattr(subject, accessor) if accessor else subject
    pspec = HIST_PARTNERS[pname] if pname else None
    try:
        if pos == "S":
            if op in ("containsPoint", "distanceTo"):
                P, _ = _hist_probes(sspec, None)
                f = getattr(subj, op)
                return ("vals", [float(f(vec(p))) for p in P])
            if op == "AABB":
                bb = subj.AABB
                return ("vals", [float(x) for x in bb[0]] + [float(x) for x in bb[1]])
            if op == "surface":
                return ("vals", [float(subj.getSurfaceRegion().size)])
            raise ValueError(op)
        partner = build(pspec)  # partners are always fresh objects
        a, b = (subj, partner) if pos == "A" else (partner, subj)
        if op in ("intersects", "containsRegion"):
            return ("bool", bool(getattr(a, op)(b)))
        Rg = getattr(a, op)(b)
        P, _ = _hist_probes(sspec, pspec)
        cp = [bool(Rg.containsPoint(vec(p))) for p in P]
        try:
            bb = Rg.AABB
            bb = [float(x) for x in bb[0]] + [float(x) for x in bb[1]]
        except Exception:  # noqa
            bb = None
        return ("region", tname(Rg), cp, bb)
    except Exception as e:  # noqa
        return ("exc", type(e).__name__, str(e)[:120])


def _hist_same(x, y, ok=None):
    if x[0] != y[0]:
        return False
    if x[0] == "bool" or x[0] == "exc":
        return x[:2] == y[:2]
    if x[0] == "vals":
        return len(x[1]) == len(y[1]) and bool(np.allclose(x[1], y[1], rtol=0, atol=1e-6))
    if x[0] == "region":
        # (an EmptyRegion and a region without clear members are the same set)
        cx, cy = np.array(x[2]), np.array(y[2])
        sel = ok if ok is not None else np.ones(len(cx), bool)
        if np.any(cx[sel] != cy[sel]):
            return False
        if x[3] is not None and y[3] is not None and not np.allclose(x[3], y[3], rtol=0, atol=1e-3):
            return False
        return True
    return False


def do_hist(item):
    """One (subject, probe action): every sequence of <= L prior actions on the same
    subject object, then the probe; its answer must equal the answer of a fresh subject
    (and the analytic expectation)."""
    import itertools

    warnings.filterwarnings("ignore")
    from scenic.core import regions as R

    res = new_res(item)
    c = res["counts"]
    sspec, accessor, priors, probes = hist_subjects(item["tier"])[item["subject"]]
    probe = probes[item["probe"]]
    L = item["L"]
    pos, op, pname = probe
    pspec = HIST_PARTNERS[pname] if pname else None

    # harness-side view of the footprint's slab cache: what happened at each lookup
    events = []
    orig = R.PolygonalFootprintRegion.approxBoundFootprint

    def spy(self, centerZ, height):
        before = self._bounded_cache
        out = orig(self, centerZ, height)
        after = self._bounded_cache
        if before is None:
            ev = "populate"
        elif after is before:
            ev = "reuse"
        else:
            ev = "replace"
        if before is not None:
            top, bot = before[0] + before[1] / 2, before[0] - before[1] / 2
            rt, rb = centerZ + height / 2, centerZ - height / 2
            if (rb < top < rt) or (rb < bot < rt):
                ev += "+straddle"
        events.append(ev)
        return out

    R.PolygonalFootprintRegion.approxBoundFootprint = spy
    try:
        fresh_subject = _hist_build(sspec)
        T = tname(getattr(fresh_subject, accessor) if accessor else fresh_subject)
        res["pair"] = T
        fresh = _hist_act(fresh_subject, accessor, probe, sspec)
        # analytic expectation for the probe
        ok = None
        want = None
        so = _hist_oracle(sspec)
        if so is not None and pspec is not None and fresh[0] in ("region", "bool"):
            po = S.oracle(pspec)
            P, diag = _hist_probes(sspec, pspec)
            margin = 1e-3 * diag
            # a polygon's footprint is the infinite column over the polygon
            col = so.column(P) if accessor == "footprint" else so.member(P)
            clr = so.col_clear(P) if accessor == "footprint" else so.clear(P)
            mp = po.member(P)
            ok = (np.minimum(clr, po.clear(P)) >= margin)
            a, b = (col, mp) if pos == "A" else (mp, col)
            if fresh[0] == "region":
                want = ("region", apply_op(op, a, b))
            elif op == "intersects":
                both = ok & col & mp
                slo, shi = so.aabb()
                plo, phi = po.aabb()
                if accessor == "footprint":
                    slo, shi = slo.copy(), shi.copy()
                    slo[2], shi[2] = -np.inf, np.inf
                sep = np.max(np.maximum(plo - shi, slo - phi))
                want = ("bool", True) if both.any() else (("bool", False) if sep > 10 * margin else None)

        def judge(obs):
            if want is None or obs[0] != want[0]:
                return True
            if want[0] == "bool":
                return obs[1] == want[1]
            return not np.any(ok & (np.array(obs[2]) != want[1]))

        fresh_ok = judge(fresh)
        seqs = [()]
        for k in range(1, L + 1):
            seqs += list(itertools.product(range(len(priors)), repeat=k))
        diffs, wrong = [], []
        for seq in seqs:
            subject = _hist_build(sspec)
            for i in seq:
                _hist_act(subject, accessor, priors[i], sspec)
            n0 = len(events)
            warm = sum(1 for k_ in vars(getattr(subject, accessor) if accessor else subject) if k_.startswith("_cached_"))
            obs = _hist_act(subject, accessor, probe, sspec)
            ev = events[n0:]
            res["judged"] += 1
            c["sequences"] = c.get("sequences", 0) + 1
            if warm:
                c["warm_sequences"] = c.get("warm_sequences", 0) + 1
            for e in set(x for ee in ev for x in ee.split("+")):
                c["probe_cache_" + e] = c.get("probe_cache_" + e, 0) + 1
            if not _hist_same(obs, fresh, ok):
                diffs.append((seq, obs))
            elif not judge(obs):
                wrong.append((seq, obs))

        def show(o):
            if o[0] == "region":
                return f"{o[1]} with {sum(o[2])} of {len(o[2])} probes inside, AABB {None if o[3] is None else [round(v, 3) for v in o[3]]}"
            if o[0] == "vals":
                return "values " + str([round(v, 4) for v in o[1][:6]]) + "..."
            return str(o[1:])

        def fmtseq(seq):
            return " ; ".join(f"{'S.' + priors[i][1] + '(' + str(priors[i][2]) + ')' if priors[i][0] != 'B' else str(priors[i][2]) + '.' + priors[i][1] + '(S)'}" for i in seq) or "(none)"

        pdesc = f"{'S.' + op + '(' + str(pname) + ')' if pos != 'B' else str(pname) + '.' + op + '(S)'}"
        if diffs:
            seq, obs = diffs[0]
            viol(
                res,
                f"history:{T}:answer-depends-on-earlier-queries",
                f"subject S = {item['subject']} {sspec}; probe query {pdesc} with partner {pspec}: {len(diffs)} of {len(seqs)} histories change the answer. "
                f"After [{fmtseq(seq)}] on the same object the probe gives {show(obs)}; a fresh object gives {show(fresh)}"
                + ("" if want is None else f" (the fresh answer {'agrees' if fresh_ok else 'disagrees'} with the analytic expectation)")
                + ". Other histories: " + "; ".join("[" + fmtseq(s_) + "]" for s_, _ in diffs[1:5]),
                item,
            )
        if wrong or not fresh_ok:
            viol(
                res,
                f"history:{T}:{op}:wrong-answer",
                f"subject S = {item['subject']} {sspec}; probe query {pdesc} with partner {pspec}: the answer {show(fresh)} (same after {len(wrong)} histories) disagrees with the analytic expectation",
                item,
            )
    finally:
        R.PolygonalFootprintRegion.approxBoundFootprint = orig
    return res


# ---------------------------------------------------------------------------------
# work list
# ---------------------------------------------------------------------------------
def lowered(spec, dz):
    return S.shifted(spec, 0.0, 0.0, dz)


def anchor_z(spec, ora):
    if "anchor_z" in spec:
        return float(spec["anchor_z"])
    lo, hi = ora.aabb()
    if not (np.isfinite(lo[2]) and np.isfinite(hi[2])):
        return None
    return float((lo[2] + hi[2]) / 2)


# deliberately degenerate situations that are valid inputs
def extra_items(n3, n2):
    # the apex of the sector touches the inner corner of the U-shaped slice of the mesh in one point
    touch = {"kind": "sector", "center": [0.25, -0.5, Z0], "r": 2.5, "heading": 0.6, "angle": 1.9}
    mesh = {"kind": "mesh", "cells": U_CELLS, "pos": [0.25, 0.0, 1.5], "dims": [3.0, 3.0, 1.5], "ypr": [0.0, 0.0, 0.0]}
    # a sector wider than 120 degrees (the library clips its polygon with a kite-shaped mask)
    wide = {"kind": "sector", "center": [0.75, 0.5, Z0], "r": 2.25, "heading": -2.0, "angle": 3.9}
    circ = {"kind": "circle", "center": [0.5, 0.25, Z0], "r": 1.75}
    # the surface of a convex mesh inside / across a footprint
    fp = {"kind": "footprint", "exterior": [[-0.75, -1.0], [2.0, -1.0], [2.0, 1.25], [-0.75, 1.25]], "holes": []}
    cube = {"kind": "mesh", "surface": True, "cells": [(0, 0, 0)], "pos": [0.0, 0.25, 1.25], "dims": [2.5, 2.5, 1.5], "ypr": [0.0, 0.0, 0.0]}
    rel = [["overlap", fp, cube]]
    ins = inside_spec(fp, cube)
    if ins is not None:
        rel.append(["inside", fp, ins])
    return [
        {"t": "rel", "names": ["footprint1", "cube-surface"], "a": fp, "b": cube, "cfgs": rel, "n3": 9, "n2": 13},
        {"t": "op", "cfg": "touch", "names": ["meshvolU", "sector-touching"], "a": mesh, "b": touch, "op": "intersect", "n3": n3, "n2": n2},
        {"t": "op", "cfg": "touch", "names": ["sector-touching", "meshvolU"], "a": touch, "b": mesh, "op": "intersect", "n3": n3, "n2": n2},
        {"t": "prim", "name": "sector-wide", "a": wide, "n3": n3, "n2": n2},
        {"t": "op", "cfg": "wide", "names": ["circle1", "sector-wide"], "a": circ, "b": wide, "op": "intersect", "n3": n3, "n2": n2},
        {"t": "op", "cfg": "wide", "names": ["sector-wide", "circle1"], "a": wide, "b": circ, "op": "difference", "n3": n3, "n2": n2},
    ]


def plan(tier):
    shp = shapes(tier)
    ora = {n: S.oracle(s) for n, s in shp}
    items = []
    n3, n2 = (7, 9) if tier == "quick" else (10, 15)
    for n, s in shp:
        items.append({"t": "prim", "name": n, "a": s, "n3": n3, "n2": n2})
        if s["kind"] in ("box", "spheroid", "mesh"):
            convex = s["kind"] != "mesh"
            # even lattice sizes: no probe sits exactly midway between two opposite faces
            for d in AXES[:2] if (convex and tier == "quick") else AXES:
                items.append({"t": "proj", "name": n, "a": s, "dirs": [list(d)], "n3": 6 if tier == "quick" else 10, "n2": 5})
    if tier == "thorough":
        # a rotated non-convex volume: axis rays are oblique to every face
        rot = {"kind": "mesh", "cells": U_CELLS, "pos": [0.25, 0.0, 1.5], "dims": [3.0, 3.0, 1.5], "ypr": [0.35, 0.2, -0.15]}
        for d in AXES:
            items.append({"t": "proj", "name": "meshvolU-rot", "a": rot, "dirs": [list(d)], "n3": 10, "n2": 5})
    items += extra_items(n3, n2)
    for name, (_, _, _, probes) in hist_subjects(tier).items():
        for pi in range(len(probes)):
            items.append({"t": "hist", "tier": tier, "subject": name, "probe": pi, "L": 2 if tier == "quick" else 3})
    for na, sa in shp:
        for nb, sb in shp:
            if na == nb:  # same kind and shape: use a displaced copy as second operand
                sb = S.shifted(sb, 0.5, 0.25, 0.0)
            oa, ob = ora[na], S.oracle(sb)
            cfgs = [("std", sa, sb)]
            # kinds locked at z = 0 can only really overlap a partner brought down to z = 0
            if oa.z_locked != ob.z_locked:
                if oa.z_locked:
                    zc = anchor_z(sb, ob)
                    if zc:
                        cfgs.append(("lowered", sa, lowered(sb, -zc)))
                else:
                    zc = anchor_z(sa, oa)
                    if zc:
                        cfgs.append(("lowered", lowered(sa, -zc), sb))
            # two planar regions at different heights
            if oa.dim == 2 and ob.dim == 2 and oa.plane_z is not None and ob.plane_z is not None and not ob.z_locked and oa.plane_z == ob.plane_z:
                cfgs.append(("dz", sa, lowered(sb, 0.75)))
            for cfg, a, b in cfgs:
                for op in OPS:
                    items.append({"t": "op", "cfg": cfg, "names": [na, nb], "a": a, "b": b, "op": op, "n3": n3, "n2": n2})
            # lazily constructed operands (first shape set only)
            if na.endswith("1") and nb.endswith("1"):
                cheap = ("box", "polygon", "circle", "sector", "rect")
                la = sa["kind"] in (cheap if tier == "quick" else LAZY_KINDS) and not sa.get("surface")
                lb = sb["kind"] in (cheap if tier == "quick" else LAZY_KINDS) and not sb.get("surface")
                modes = (["A"] if la else []) + (["B"] if lb and not la else []) + (["AB"] if la and lb and tier == "thorough" else [])
                for lz in modes:
                    for op in OPS:
                        items.append({"t": "op", "cfg": "std", "lazy": lz, "names": [na, nb], "a": sa, "b": sb, "op": op, "n3": 5, "n2": n2})
            if oa.dim == ob.dim and oa.judge_metric and ob.judge_metric and sa["kind"] != "footprint" and sb["kind"] != "footprint":
                items.append({"t": "sizes", "names": [na, nb], "a": sa, "b": sb})
            # relations
            rc = []
            ov = [c for c in cfgs if c[0] in ("std", "lowered")]
            a0 = ov[-1][1]
            b0 = ov[-1][2]
            rc.append(("overlap", a0, b0))
            rc.append(("apart-x", a0, S.shifted(b0, 9.0, 0.5, 0.0)))
            o_b0 = S.oracle(b0)
            o_a0 = S.oracle(a0)
            alo, ahi = o_a0.aabb()
            blo, bhi = o_b0.aabb()
            if not o_b0.z_locked and np.isfinite(ahi[2]) and np.isfinite(blo[2]):
                dz = float(ahi[2] - blo[2]) + 0.75
                rc.append(("apart-z", a0, S.shifted(b0, 0.0, 0.0, dz)))
            if len(ov) > 1:
                rc.append(("overlap-std", sa, sb))
            ins = inside_spec(a0, b0)
            if ins is not None:
                rc.append(("inside", a0, ins))
            items.append({"t": "rel", "names": [na, nb], "a": a0, "b": sb, "cfgs": [list(x) for x in rc], "n3": 9 if tier == "quick" else 12, "n2": 13})
    return items


def dispatch(item):
    try:
        return {"op": do_op, "prim": do_prim, "rel": do_rel, "proj": do_proj, "sizes": do_sizes, "hist": do_hist}[item["t"]](item)
    except Exception as e:  # harness-side failure: never hide it
        import traceback

        r = new_res(item)
        r["harness_error"] = traceback.format_exc()[-1500:]
        return r


def label(item):
    if item["t"] == "op":
        return f"{item['names'][0]}.{item['op']}({item['names'][1]})[{item['cfg']}{'/lazy' + item['lazy'] if item.get('lazy') else ''}]"
    if item["t"] in ("rel", "sizes"):
        return f"{item['t']}({item['names'][0]},{item['names'][1]})"
    if item["t"] == "proj":
        return f"proj({item['name']},{item.get('dirs')})"
    if item["t"] == "hist":
        return f"hist({item['subject']},probe{item['probe']},L{item['L']})"
    return f"{item['t']}({item['name']})"


def run(ctx):
    S.selftest()
    items = ctx.rotate(plan(ctx.tier))
    tot = {"judged": 0, "skipped_touching": 0, "refused": 0, "dist_judged": 0, "aabb_judged": 0}
    counts = {}
    refusals = {}
    informative = uninformative = 0
    uninf = []
    result_types = {}
    per_type = {"op": 0, "prim": 0, "rel": 0, "proj": 0, "sizes": 0, "hist": 0}
    nviol = {}
    allv = []
    for r in ctx.pmap(dispatch, items, chunksize=2):
        it = r["item"]
        if "harness_error" in r:
            raise HarnessError(f"item {label(it)} failed in the harness:\n{r['harness_error']}")
        per_type[it["t"]] += 1
        for k in tot:
            tot[k] += r[k]
        for k, v in r["counts"].items():
            counts[k] = counts.get(k, 0) + v
        for s in r["refusals"]:
            refusals[s] = refusals.get(s, 0) + 1
        if it["t"] == "op" and "result_type" in r:
            if r["informative"]:
                informative += 1
            elif r["judged"]:
                uninformative += 1
                uninf.append(label(it))
            key = f"{it['op']}:{r['pair']}"
            result_types[key] = r["result_type"]
        if it["t"] == "prim" and r["informative"]:
            informative += 1
        for sig, desc, case in r["violations"]:
            allv.append((sig, desc, case))
    # a lazily built operand re-dispatches to the eager code once sampled: report a lazy
    # violation only when the eager run of the same (pair, op) does not show the same thing
    eager = {sig for sig, _, _ in allv if ":lazy" not in sig}
    lazy_same = 0
    for sig, desc, case in allv:
        if ":lazy" in sig:
            parts = sig.split(":")
            if ":".join(p for p in parts if not p.startswith("lazy")) in eager:
                lazy_same += 1
                continue
        nviol[sig] = nviol.get(sig, 0) + 1
        if nviol[sig] <= 3:
            ctx.violation(sig, desc, case)
    if tot["judged"] == 0 or informative == 0:
        raise HarnessError("vacuous: no judged probe / no informative (pair, op)")
    need = ["sequences", "warm_sequences", "probe_cache_reuse", "probe_cache_replace", "probe_cache_straddle", "probe_cache_populate", "lazy_results", "incl_excl", "intersects_True", "intersects_False", "contains_True", "contains_False", "dist_zero", "dist_pos", "two-sided", "two-sided-nearest-behind", "one-sided", "nohit", "member"]
    if ctx.tier == "thorough":
        need.append("multi_hit")
    missing = [k for k in need if not counts.get(k)]
    if missing:
        raise HarnessError(f"vacuous: situations never exercised: {missing}")
    ctx.cov.update(
        evaluations=tot["judged"],
        distinct_nontrivial=informative,
        rule="all ordered pairs of the shape list x {intersect, union, difference} x configurations (std; partner lowered to z=0 for the kinds "
        "locked at z=0; second planar operand raised by 0.75) x probe lattice (n^3 half-cell-offset points over the padded joint bounding box, "
        "n2^2 lattices in each planar operand's plane, exact points on lower-dimensional operands and 0.25 above them); plus per shape: membership, "
        "distanceTo, AABB, size; per ordered pair: intersects in overlap / apart-x / apart-z, containsRegion with an outside witness and with a "
        "shrunk copy inside; per mesh shape: projectVector x 6 axis directions.  A (pair, op) is non-trivial when judged probes include both a "
        "member and a non-member of the expected result",
        samples=[label(i) for i in items[:3]] + [str(items[len(items) // 2]["a"])[:200]],
        items=len(items),
        items_by_type=per_type,
        skipped_touching=tot["skipped_touching"],
        refused=tot["refused"],
        refusals=dict(sorted(refusals.items())),
        uninformative=uninformative,
        uninformative_items=uninf[:40],
        distance_probes_judged=tot["dist_judged"],
        aabbs_judged=tot["aabb_judged"],
        inclusion_exclusion_checked=counts.get("incl_excl", 0),
        situation_counts=dict(sorted(counts.items())),
        result_types=dict(sorted(result_types.items())),
        violation_signatures=dict(sorted(nviol.items())),
        lazy_violations_identical_to_eager=lazy_same,
        bounds={"tier": ctx.tier, "shapes": len(shapes(ctx.tier)), "lattice": "7^3+9^2/plane" if ctx.tier == "quick" else "10^3+15^2/plane"},
    )
    ctx.assumptions += [
        "2-D kinds (polygon, circle, sector, rectangle, grid) are planar sets at their own height, as docs/reference/region_types.rst states; "
        "PolylineRegion and GridRegion live at z = 0 (the constructors drop other heights)",
        "curved kinds are judged outside a band around the boundary (icosphere 0.6 %, 128-gon 0.05 % of the radius)",
        "trimesh / manifold3d / shapely are deterministic for fixed inputs",
        "history items: the partners' heights are chosen from the padding rule of approxBoundFootprint (100 * max(1, centerZ) * height) only to "
        "place them relative to the cached slab; the expected answers come from fresh objects and the analytic oracle",
    ]


def replay(ctx, case):
    item = case["item"]
    if item is None:
        return
    item = _detuple(item)
    r = dispatch(item)
    if "harness_error" in r:
        raise HarnessError(r["harness_error"])
    for sig, desc, c in r["violations"]:
        if sig == case["sig"]:
            ctx.violation(sig, desc, c)


def _detuple(x):
    if isinstance(x, dict):
        return {k: _detuple(v) for k, v in x.items()}
    if isinstance(x, (list, tuple)):
        return [_detuple(v) for v in x]
    return x
