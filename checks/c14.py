"""C14 — simulations leave scenes, scenarios and global state untouched, even on failure.

Crash-point enumeration: for each program the fault-free compile / generate / simulate
runs record the history of visits to fault sites (every callback the program makes into
user code: requirements, specifier arguments, setup / compose blocks, behaviors, monitors,
guards, interrupt conditions, record expressions, action application, model import, and
every simulator interface call).  Then for EVERY visit index and EVERY exception kind the
run is repeated with the exception raised at that visit, and afterwards:
  (i)  the interpreter's global state must be pristine (veneer globals, Scenic modules),
  (ii) every property of every object of the scene reads as before,
  (iii) every later use (simulate again, generate again, compile the same / another
       program) gives exactly the result it gave before any fault (computed first, and
       cross-checked against a clean parent process).
Overrides must be undone when their scenario ends (record probes), including several
overrides of one object.
"""

import gc
import itertools
import os
import pathlib
import hashlib
import random
import sys

import numpy

from mc import dyn
from mc.dyn import probe
from mc.explorer import HarnessError

ID = "C14"
LEVEL = "fault_enumeration"

FLAT = '''
import verif_probe as probe
behavior Sub():
    precondition: probe.cond("sp")
    probe.ev("Sub.0")
    take probe.Act("s1")
    take probe.Act("s2")
behavior B():
    invariant: probe.cond("inv")
    probe.ev("B.0")
    try:
        do Sub() for 2 steps
        take probe.Act("b1")
    interrupt when probe.cond("c1"):
        probe.ev("B.h")
        take probe.Act("h")
    take probe.Act("b2")
monitor M():
    while True:
        probe.ev("M")
        wait
ego = new Object at (0, 0, 0), with name "A1", with foo probe.val("foo"), with behavior B(), with allowCollisions True
other = new Object at (Range(8, 12), 0, 0), with name "A2", with allowCollisions True
require probe.cond("rq")
require monitor M()
require always probe.cond("alw")
terminate when probe.cond("tw")
record probe.rec("r0") as r0
record final probe.rec("rf") as rf
terminate after 4 steps
'''

MODULAR = '''
import verif_probe as probe
model verif_model
behavior Idle():
    while True:
        probe.ev("idle")
        wait
behavior Alt():
    while True:
        take probe.Act("alt")
scenario Sub():
    precondition: probe.cond("subpre")
    setup:
        probe.ev("Sub.setup")
        override ego with foo 5
        override ego with bar 6, with behavior Alt()
        terminate after 2 steps
    compose:
        probe.ev("Sub.compose")
        wait
        wait
scenario Bg():
    setup:
        probe.ev("Bg.setup")
        record probe.rec("bgrec") as bgrec
        terminate simulation when probe.cond("bgts")
        terminate when probe.cond("bgtw")
    compose:
        while True:
            probe.ev("Bg.compose")
            wait
scenario Main():
    precondition: probe.cond("mainpre")
    invariant: probe.cond("maininv")
    setup:
        probe.ev("Main.setup")
        ego = new Thing at (0, 0, 0), with name "A1", with behavior Idle()
        record (ego.foo, ego.bar) as fb
        require eventually probe.cond("ev")
        terminate after 5 steps
    compose:
        probe.ev("Main.compose")
        wait
        do Sub(), Bg()
        wait
        wait
'''

NESTED_OVERRIDE = '''
import verif_probe as probe
behavior Own():
    while True:
        take probe.Act("own")
behavior OuterB():
    while True:
        take probe.Act("outer")
behavior InnerB():
    while True:
        take probe.Act("inner")
scenario Inner():
    setup:
        probe.ev("Inner.setup")
        override ego with foo 3, with behavior InnerB()
    compose:
        while True:
            probe.ev("Inner.compose")
            wait
scenario Outer():
    setup:
        probe.ev("Outer.setup")
        override ego with foo 2, with behavior OuterB()
    compose:
        probe.ev("Outer.compose")
        wait
        do Inner()
scenario Main():
    setup:
        probe.ev("Main.setup")
        ego = new Object at (0, 0, 0), with name "A1", with foo 1, with behavior Own(), with allowCollisions True
        record ego.foo as fb
        terminate after 7 steps
    compose:
        probe.ev("Main.compose")
        wait
        do Outer() for 3 steps
        wait
        wait
        wait
'''

NESTED = '''
import verif_probe as probe
behavior Inner():
    invariant: probe.cond("iinv")
    while True:
        take probe.Act("i")
behavior Mid():
    try:
        do Inner() until probe.cond("stop")
    interrupt when probe.cond("c2"):
        take probe.Act("m")
        abort
    take probe.Act("mid-after")
behavior Top():
    invariant: probe.cond("tinv")
    do Mid() for 3 steps
    do choose Mid(), Inner()
ego = new Object at (0, 0, 0), with name "A1", with behavior Top(), with allowCollisions True
ob = new Object at (Range(4, 6), 5, 0), with name "A2", with behavior Inner(), with allowCollisions True
terminate simulation when probe.cond("ts")
record probe.rec("r0") as r0
'''

OTHER_2D = '''
ego = new Object at (1, 2), facing Range(10, 20) deg, with allowCollisions True
new Object at (Range(3, 4), 5), with allowCollisions True
'''

PROGRAMS = [
    dict(name="flat", text=FLAT, tables={"c1": [False, True, False], "tw": [False], "foo": [3]}, maxSteps=6, scenario=None),
    dict(name="modular", text=MODULAR, tables={"thingfoo": [1], "bgts": [False], "bgtw": [False]}, maxSteps=8, scenario="Main", override=("fb", 0, (3, 4))),
    dict(name="flat2d", text=FLAT.replace("(Range(8, 12), 0, 0)", "(Range(8, 12), 0)").replace("at (0, 0, 0)", "at (0, 0)"), tables={"c1": [False, True, False], "tw": [False], "foo": [3]}, maxSteps=6, scenario=None, mode2D=True),
    dict(name="nested-override", text=NESTED_OVERRIDE, tables={}, maxSteps=9, scenario="Main", override=("fb", 0, (4, 5, 6)), actions_after=(4, "own")),
    dict(name="nested", text=NESTED, tables={"c2": [False, False, True, False], "stop": [False], "ts": [False] * 5 + [True]}, maxSteps=7, scenario=None),
]


def fault_kinds():
    from scenic.core.distributions import RejectionException
    from scenic.core.dynamics.guards import InvariantViolation
    from scenic.core.dynamics.utils import RejectSimulationException

    return [
        ("Exception", lambda: RuntimeError("injected fault")),
        ("RejectionException", lambda: RejectionException("injected rejection")),
        ("RejectSimulationException", lambda: RejectSimulationException("injected simulation rejection")),
        ("GuardViolation", lambda: InvariantViolation(probe, 0)),
    ]


import re

_ADDR = re.compile(r" at 0x[0-9a-f]+")


# -- observations --------------------------------------------------------------------------


def snapshot_scene(scene):
    out = []
    for obj in scene.objects:
        props = {}
        for p in sorted(obj.properties):
            if p.startswith("_"):
                continue
            try:
                props[p] = _ADDR.sub("", repr(getattr(obj, p)))
            except Exception as e:  # noqa: BLE001
                props[p] = f"<{type(e).__name__}>"
        proxied = object.__getattribute__(obj, "_dynamicProxy") is not obj
        out.append((type(obj).__name__, tuple(sorted(props.items())), proxied))
    return (tuple(out), repr(sorted(scene.params.items())))


def scenic_modules():
    return tuple(sorted(k for k, m in sys.modules.items() if getattr(m, "__file__", None) and str(m.__file__).endswith(".scenic")))


def sim_digest(res):
    out = res["outcome"]
    log = dyn.normalize_log(res["log"])
    recs = None
    if "result" in res:
        recs = _ADDR.sub("", repr(sorted((k, repr(v)) for k, v in res["result"].records.items())))
    return (tuple(out), tuple(repr(e) for e in log), recs)


def seeded(k=7):
    random.seed(k)
    numpy.random.seed(k)


def do_compile(prog):
    probe.STATE.reset(tables=prog["tables"], default=True)
    kw = {"scenario": prog["scenario"]} if prog["scenario"] else {}
    return dyn.compile_scenario(prog["text"], mode2D=bool(prog.get("mode2D")), **kw)


def do_generate(prog, scenario):
    probe.STATE.reset(tables=prog["tables"], default=True)
    seeded()
    scene, n = scenario.generate(maxIterations=20)
    return scene


def do_simulate(prog, scene, fault=None):
    seeded(11)  # run-time random choices (do choose, ...) must be the same in every run
    return dyn.simulate(scene, tables=prog["tables"], default=True, maxSteps=prog["maxSteps"], timestep=1, fault=fault)


def reference(prog):
    """Everything a later use must reproduce, computed before any fault."""
    scenario = do_compile(prog)
    compile_sites = list(probe.STATE.sites)
    scene = do_generate(prog, scenario)
    gen_sites = list(probe.STATE.sites)
    snap = snapshot_scene(scene)
    res = do_simulate(prog, scene)
    sim_sites = list(probe.STATE.sites)
    ref = {"snap": snap, "sim": sim_digest(res), "compile_sites": compile_sites, "gen_sites": gen_sites, "sim_sites": sim_sites, "modules": scenic_modules()}
    other = dyn.compile_scenario(OTHER_2D, mode2D=True)
    seeded()
    oscene, _ = other.generate(maxIterations=20)
    ref["other"] = snapshot_scene(oscene)
    if res["outcome"][0] != "done":
        raise HarnessError(f"fault-free run of {prog['name']} does not complete: {res['outcome']}")
    if snapshot_scene(scene) != snap:
        ref["selfchange"] = True
    ref["records"] = {k: repr(v) for k, v in res["result"].records.items()}
    return ref, scenario, scene


def digest(ref):
    return hashlib.sha1(repr((ref["snap"], ref["sim"], ref["other"], ref["compile_sites"], ref["gen_sites"], ref["sim_sites"])).encode()).hexdigest()


def site_kind(tag):
    if tag.startswith("sim:"):
        return tag
    if tag.startswith("?"):
        return "cond:" + tag[1:]
    if tag.startswith("apply:"):
        return "action.applyTo"
    if tag.startswith("rec:"):
        return "record"
    return "code:" + tag.split(".")[0]


# -- one crash point ---------------------------------------------------------------------------


def check_uses(prog, ref, scenario, scene, which, bad, ctxinfo):
    """Later uses of the process after a fault; `which` selects the uses to perform."""
    if "simulate" in which:
        res = do_simulate(prog, scene)
        if sim_digest(res) != ref["sim"]:
            bad("later-use-differs:simulate", f"re-running the simulation on the same scene gives {res['outcome']} / a different trace than before the fault")
        if res.get("veneer_dirty"):
            bad("veneer-dirty:" + "+".join(res["veneer_dirty"]), "global state dirty after the follow-up simulation")
    if "generate" in which:
        try:
            scene2 = do_generate(prog, scenario)
            if snapshot_scene(scene2) != ref["snap"]:
                bad("later-use-differs:generate", "generating with the same seed gives a different scene than before the fault")
            else:
                res = do_simulate(prog, scene2)
                if sim_digest(res) != ref["sim"]:
                    bad("later-use-differs:generate+simulate", f"simulation of a regenerated scene differs: {res['outcome']}")
        except Exception as e:  # noqa: BLE001
            bad(f"later-use-fails:generate:{type(e).__name__}", repr(e))
    if "compile" in which:
        try:
            sc2 = do_compile(prog)
            scene2 = do_generate(prog, sc2)
            if snapshot_scene(scene2) != ref["snap"]:
                bad("later-use-differs:compile", "recompiling and generating gives a different scene than before the fault")
            res = do_simulate(prog, scene2)
            if sim_digest(res) != ref["sim"]:
                bad("later-use-differs:compile+simulate", f"simulation after recompiling differs: {res['outcome']}")
        except Exception as e:  # noqa: BLE001
            bad(f"later-use-fails:compile:{type(e).__name__}", repr(e))
    if "other" in which:
        try:
            other = dyn.compile_scenario(OTHER_2D, mode2D=True)
            seeded()
            oscene, _ = other.generate(maxIterations=20)
            if snapshot_scene(oscene) != ref["other"]:
                bad("later-use-differs:compile-other", "compiling another (2D) program gives a different scene than before the fault")
        except Exception as e:  # noqa: BLE001
            bad(f"later-use-fails:compile-other:{type(e).__name__}", repr(e))
    left = dyn.veneer_dirt(reset=True)
    if left:
        bad("veneer-dirty:" + "+".join(left), "global state dirty after the follow-up uses")
    if scenic_modules() != ref["modules"]:
        bad("scenic-modules-leaked", f"{scenic_modules()} vs {ref['modules']}")


USES = ("simulate", "generate", "compile", "other")


def run_item(item):
    pi, phase, lo, hi, tier, parent_digest = item
    prog = PROGRAMS[pi]
    out = {"runs": 0, "faults": 0, "violations": [], "site_kinds": {}, "outcomes": {}, "states": 0}
    dyn.LEFTOVER.clear()
    try:
        ref, scenario, scene = reference(prog)
    except Exception as e:  # noqa: BLE001
        out["violations"].append((f"later-use-fails:reference:{type(e).__name__}", f"after earlier faulted runs in this process, compiling/running {prog['name']} fault-free fails: {e!r}; leftover global state found before runs: {sorted(set(dyn.LEFTOVER))}", {"pi": pi, "phase": "reference", "i": -1, "kind": "", "tier": tier}))
        dyn.veneer_dirt(reset=True)
        return out
    if digest(ref) != parent_digest:
        out["violations"].append(("reference-differs-from-clean-process", f"fault-free reference of {prog['name']} computed in a worker with history differs from the clean parent process", {"pi": pi, "phase": "reference", "i": -1, "kind": "", "tier": tier}))
        return out
    kinds = fault_kinds()
    sites = ref[phase + "_sites"]
    for i in range(lo, min(hi, len(sites))):
        for kname, factory in kinds:
            if phase != "sim" and kname in ("RejectSimulationException", "GuardViolation"):
                continue
            case = {"pi": pi, "phase": phase, "i": i, "kind": kname, "tier": tier}
            vs = check_fault(prog, ref, scenario, scene, phase, i, kname, factory, tier, out)
            for sig, desc in vs:
                out["violations"].append((sig, f"program {prog['name']}, {phase} phase, fault {kname} at visit {i} ({sites[i]}): {desc}", case))
            sk = site_kind(sites[i])
            out["site_kinds"][sk] = out["site_kinds"].get(sk, 0) + 1
            out["faults"] += 1
    return out


def check_fault(prog, ref, scenario, scene, phase, i, kname, factory, tier, out):
    vs = []

    def bad(sig, desc):
        vs.append((sig, desc))

    fault = (i, factory)
    uses = USES if tier == "thorough" else ("simulate", USES[1 + i % 3])
    if phase == "sim":
        res = do_simulate(prog, scene, fault=fault)
        out["runs"] += 1
        o = res["outcome"]
        key = o[0] if o[0] != "error" else "error:" + o[1]
        out["outcomes"][key] = out["outcomes"].get(key, 0) + 1
        if o[0] == "error" and o[1] == "HangDetected":
            bad("hang", "run did not terminate")
        dirty = list(res.get("veneer_dirty") or [])
        # generators orphaned by the failure are finalised when the exception / result is
        # released; make that happen now, deterministically, and look again
        res.pop("exception", None)
        res.pop("simulation", None)
        gc.collect()
        dirty += [d for d in dyn.veneer_dirt(reset=True) if d not in dirty]
        if dirty:
            bad("veneer-dirty:" + "+".join(dirty), f"global state not pristine after the run ended with {o}")
        if snapshot_scene(scene) != ref["snap"]:
            bad("scene-changed", "a property of an object of the scene reads differently after the run")
        if tier == "thorough":
            # depth 2: a second fault before the uses -- the same one (must reproduce), then one
            # of another kind at every 4th other point of the history
            res2 = do_simulate(prog, scene, fault=fault)
            out["runs"] += 1
            if res2["outcome"] != o:
                bad("fault-not-reproducible", f"same fault twice: {o} then {res2['outcome']}")
            kinds = fault_kinds()
            nsites = len(ref["sim_sites"])
            for j in range(i % 4, nsites, 4):
                k2name, k2 = kinds[(i + j) % len(kinds)]
                r3 = do_simulate(prog, scene, fault=(j, k2))
                out["runs"] += 1
                d3 = list(r3.get("veneer_dirty") or [])
                r3.pop("exception", None)
                r3.pop("simulation", None)
                if d3:
                    bad("veneer-dirty:" + "+".join(d3), f"global state not pristine after a second fault ({k2name} at visit {j}) ended with {r3['outcome']}")
                if snapshot_scene(scene) != ref["snap"]:
                    bad("scene-changed", f"scene changed after a second fault ({k2name} at visit {j})")
                    break
            gc.collect()
            late = dyn.veneer_dirt(reset=True)
            if late:
                bad("veneer-dirty:" + "+".join(late), "global state not pristine after the second-fault sequence")
    elif phase == "gen":
        probe.STATE.reset(tables=prog["tables"], default=True, fault=fault)
        seeded()
        try:
            scenario.generate(maxIterations=20)
            key = "generated"
        except Exception as e:  # noqa: BLE001
            key = "raised:" + type(e).__name__
        out["runs"] += 1
        out["outcomes"][key] = out["outcomes"].get(key, 0) + 1
        d = dyn.veneer_dirt(reset=True)
        if d:
            bad("veneer-dirty:" + "+".join(d), f"global state not pristine after generation {key}")
    else:
        probe.STATE.reset(tables=prog["tables"], default=True, fault=fault)
        kw = {"scenario": prog["scenario"]} if prog["scenario"] else {}
        try:
            import scenic

            scenic.scenarioFromString(prog["text"], mode2D=bool(prog.get("mode2D")), **kw)
            key = "compiled"
        except Exception as e:  # noqa: BLE001
            key = "raised:" + type(e).__name__
        out["runs"] += 1
        out["outcomes"][key] = out["outcomes"].get(key, 0) + 1
        d = dyn.veneer_dirt(reset=True)
        if d:
            bad("veneer-dirty:" + "+".join(d), f"global state not pristine after compilation {key}")
        if scenic_modules() != ref["modules"]:
            bad("scenic-modules-leaked", f"{scenic_modules()} vs {ref['modules']}")
    check_uses(prog, ref, scenario, scene, uses, bad, None)
    out["states"] += 1
    return vs


def override_check(prog, ref):
    """Every override is undone when its scenario ends (also several overrides of one object)."""
    spec = prog.get("override")
    if not spec:
        return None
    name, base_step, after_steps = spec
    import ast

    recs = ast.literal_eval(ref["records"][name])
    series = dict(recs)
    for t in after_steps:
        if t in series and series[t] != series[base_step]:
            return ("override-not-undone", f"record {name}: value {series[t]} at step {t} (after the overriding scenario ended), {series[base_step]} before it: {recs}")
    if all(series.get(t) == series[base_step] for t in series):
        raise HarnessError("override never visible")
    if prog.get("actions_after"):
        t0, want = prog["actions_after"]
        import re as _re

        acts = _re.findall(r"\((\d+), 'apply:A1:(\w+)'\)", repr(ref["sim"][1]))
        wrong = [(int(t), a) for t, a in acts if int(t) >= t0 and a != want]
        if wrong:
            return ("override-not-undone", f"after the overriding scenarios ended (step {t0} on) the agent must run its own behavior again ('{want}'), observed actions {wrong[:4]}")
    return None


# -- operation histories in fresh processes --------------------------------------------------------
# "afterwards compiling, sampling and simulating behave exactly as in a fresh process": every
# sequence of operations {C = compile + generate, S = simulate the last scene, F = simulate with a
# failing top-level precondition} up to a length bound, each sequence in its own fresh process;
# every C / S result must equal the result of the same operation performed first in a fresh process.

HISTORY_PROGRAM = '''
import builtins
scenario Sub():
    setup:
        other = new Object at (5, 0, 0), with foo (30 if initial scenario else 40), with allowCollisions True
        record initial other.foo as otherfoo
    compose:
        wait
scenario Main():
    precondition: builtins.VERIF_MAINPRE[0]
    setup:
        if initial scenario:
            ego = new Object at (0, 0, 0), with foo 1, with allowCollisions True
        else:
            ego = new Object at (0, 0, 0), with foo 2, with allowCollisions True
        record initial ego.foo as egofoo
    compose:
        do Sub()
        wait
'''

HISTORY_CHILD = r"""
import sys, json, random, builtins
sys.path.insert(0, %r)
import numpy
import scenic
from scenic.core.simulators import DummySimulator
from checks import c14
builtins.VERIF_MAINPRE = [True]
out = []
scene = None
for op in sys.argv[1]:
    random.seed(5); numpy.random.seed(5)
    try:
        if op == "C":
            sc = scenic.scenarioFromString(c14.HISTORY_PROGRAM, scenario="Main")
            scene, its = sc.generate(maxIterations=5)
            out.append(["C", [[type(o).__name__, o.foo, list(o.position)] for o in scene.objects], its])
        else:
            builtins.VERIF_MAINPRE[0] = op != "F"
            try:
                sim = DummySimulator().simulate(scene, maxSteps=6, maxIterations=1, raiseGuardViolations=True)
            finally:
                builtins.VERIF_MAINPRE[0] = True
            res = sim.result
            out.append([op, len(res.trajectory), str(res.terminationType), sorted((k, repr(v)) for k, v in res.records.items())])
    except BaseException as e:
        out.append([op, "EXC", type(e).__name__, str(e)[:120]])
print("DUMP" + json.dumps(out))
"""


def history_sequences(tier):
    n = 3 if tier == "quick" else 5
    seqs = []
    for k in range(1, n + 1):
        for tail in itertools.product("CSF", repeat=k - 1):
            seqs.append("C" + "".join(tail))
    return seqs


def run_history(seq):
    import json as _json
    import subprocess

    env = dict(os.environ, PYTHONHASHSEED="0")
    r = subprocess.run([sys.executable, "-c", HISTORY_CHILD % str(pathlib.Path(__file__).resolve().parent.parent), seq], capture_output=True, text=True, env=env, timeout=900)
    for line in r.stdout.splitlines():
        if line.startswith("DUMP"):
            return seq, _json.loads(line[4:])
    return seq, {"error": r.stderr[-600:]}


def judge_history(seq, dump, expect):
    """expect: {"C": ..., "S": ..., "F": ...} from the shortest histories.  Returns (sig, text) or None."""
    for i, rec in enumerate(dump):
        op = rec[0]
        if rec != expect[op]:
            return (
                f"history-dependence:{'compile' if op == 'C' else 'simulate'}",
                f"fresh process, operations {seq!r} (C = compile + generate, S = simulate, F = simulate with the top-level precondition false): "
                f"operation #{i} ({op}) gave {rec}, the same operation performed first in a fresh process gives {expect[op]}",
            )
    return None


def run(ctx):
    dyn.veneer_dirt(reset=True)
    items = []
    refs = []
    for pi, prog in enumerate(PROGRAMS):
        ref, scenario, scene = reference(prog)
        refs.append(ref)
        ov = override_check(prog, ref)
        if ov:
            ctx.violation(ov[0], f"program {prog['name']}: {ov[1]}\n{prog['text']}", {"pi": pi, "phase": "override", "i": -1, "kind": "", "tier": ctx.tier})
        if ref.get("selfchange"):
            ctx.violation("scene-changed", f"fault-free simulation of {prog['name']} changed the scene", {"pi": pi, "phase": "reference", "i": -1, "kind": "", "tier": ctx.tier})
        d = digest(ref)
        chunk = 6
        for phase in ("sim", "gen", "compile"):
            n = len(ref[phase + "_sites"])
            for lo in range(0, n, chunk):
                items.append((pi, phase, lo, lo + chunk, ctx.tier, d))
    items = ctx.rotate(items)
    tot = {"runs": 0, "faults": 0, "states": 0}
    site_kinds, outcomes = {}, {}
    for r in ctx.pmap(run_item, items, chunksize=1):
        for k in tot:
            tot[k] += r[k]
        for k, v in r["site_kinds"].items():
            site_kinds[k] = site_kinds.get(k, 0) + v
        for k, v in r["outcomes"].items():
            outcomes[k] = outcomes.get(k, 0) + v
        for sig, desc, case in r["violations"]:
            ctx.violation(sig, desc, case)
    # operation histories in fresh processes
    seqs = history_sequences(ctx.tier)
    dumps = dict(ctx.pmap(run_history, seqs, chunksize=1))
    for q, d in dumps.items():
        if isinstance(d, dict):
            raise HarnessError(f"history child {q} failed: {d['error']}")
    expect = {"C": dumps["C"][0], "S": dumps["CS"][1], "F": dumps["CF"][1]}
    if expect["S"][1] == "EXC" or expect["F"][1] != "EXC" or expect["C"][1][0][1] != 1:
        raise HarnessError(f"history family: unexpected first-use results {expect}")
    hist_bad = 0
    for q in seqs:
        v = judge_history(q, dumps[q], expect)
        if v:
            hist_bad += 1
            ctx.violation(v[0], v[1] + "\n" + HISTORY_PROGRAM, {"pi": -1, "phase": "history", "seq": q, "i": -1, "kind": "", "tier": ctx.tier})
    tot["runs"] += sum(len(q) for q in seqs)
    need = ["sim:create", "sim:step", "sim:getprops", "sim:exec", "sim:destroy", "action.applyTo", "record"]
    missing = [k for k in need if k not in site_kinds]
    if missing or not any(k.startswith("cond:") for k in site_kinds):
        raise HarnessError(f"vacuous: fault site kinds never visited: {missing}")
    ctx.cov.update(
        evaluations=tot["runs"],
        distinct_nontrivial=len(site_kinds),
        states=tot["states"],
        transitions=tot["runs"],
        rule="for each program every visit of every fault site recorded in the fault-free compile / generate / simulate history x every "
        "exception kind (user Exception, RejectionException, RejectSimulationException, GuardViolation) is a crash point; after each, the "
        "veneer globals, Scenic module table and scene snapshot are compared with the pristine ones and later uses (simulate; generate / "
        "recompile / compile another program, all of them in the thorough tier) must reproduce the pre-fault reference; in addition every "
        "sequence of <= 3 (thorough 5) operations {compile + generate, simulate, simulate with a failing top-level precondition} runs in its own "
        "fresh process and each operation's result must equal that of the same operation performed first in a fresh process; "
        "distinct_nontrivial = distinct kinds of fault site exercised",
        samples=[{"program": PROGRAMS[0]["name"], "first_sites": refs[0]["sim_sites"][:12]}, {"program": PROGRAMS[1]["name"], "first_sites": refs[1]["sim_sites"][:12]}],
        crash_points=tot["faults"],
        fault_site_kinds=site_kinds,
        outcomes_of_faulted_runs=outcomes,
        operation_histories_in_fresh_processes={"sequences": len(seqs), "max_length": max(len(q) for q in seqs), "alphabet": "C compile+generate, S simulate, F simulate with failing top-level precondition"},
        bounds={"programs": [p["name"] for p in PROGRAMS], "fault_depth": 2 if ctx.tier == "thorough" else 1, "second_fault_points": "every 4th visit of the history, kind rotating" if ctx.tier == "thorough" else "none"},
    )
    ctx.assumptions.append("the reference of each program is computed in the clean parent process and again in every worker before its first fault")


def replay(ctx, case):
    if case.get("phase") == "history":
        dumps = dict(run_history(q) for q in ("C", "CS", "CF", case["seq"]))
        expect = {"C": dumps["C"][0], "S": dumps["CS"][1], "F": dumps["CF"][1]}
        v = judge_history(case["seq"], dumps[case["seq"]], expect)
        if v:
            ctx.violation(v[0], v[1], case)
        return
    pi = case["pi"]
    prog = PROGRAMS[pi]
    dyn.veneer_dirt(reset=True)
    ref, scenario, scene = reference(prog)
    if case["phase"] == "override":
        ov = override_check(prog, ref)
        if ov:
            ctx.violation(ov[0], ov[1], case)
        return
    if case["phase"] == "reference":
        return
    kinds = dict(fault_kinds())
    out = {"runs": 0, "outcomes": {}, "states": 0}
    vs = check_fault(prog, ref, scenario, scene, case["phase"], case["i"], case["kind"], kinds[case["kind"]], case["tier"], out)
    for sig, desc in vs:
        ctx.violation(sig, desc, case)
